//! A small SQL AST owned by the harness, with a renderer to the text dialect the
//! engine's parser (sqlparser GenericDialect) accepts. Shared by the generator
//! (`sqlgen`) and the reference evaluator (`refsql`); it shares no code with the
//! engine.

use crate::data::{ColType, Value};
use serde::{Deserialize, Serialize};

#[derive(Clone, Copy, Debug, Serialize, Deserialize, PartialEq, Eq, Hash)]
pub enum BinOp {
    Add,
    Sub,
    Mul,
    Eq,
    Ne,
    Lt,
    Le,
    Gt,
    Ge,
    And,
    Or,
}
impl BinOp {
    pub fn sql(self) -> &'static str {
        match self {
            BinOp::Add => "+",
            BinOp::Sub => "-",
            BinOp::Mul => "*",
            BinOp::Eq => "=",
            BinOp::Ne => "<>",
            BinOp::Lt => "<",
            BinOp::Le => "<=",
            BinOp::Gt => ">",
            BinOp::Ge => ">=",
            BinOp::And => "AND",
            BinOp::Or => "OR",
        }
    }
    pub fn is_cmp(self) -> bool {
        matches!(self, BinOp::Eq | BinOp::Ne | BinOp::Lt | BinOp::Le | BinOp::Gt | BinOp::Ge)
    }
}

#[derive(Clone, Copy, Debug, Serialize, Deserialize, PartialEq, Eq, Hash)]
pub enum AggF {
    Count,
    Sum,
    Avg,
    Min,
    Max,
}
impl AggF {
    pub fn sql(self) -> &'static str {
        match self {
            AggF::Count => "COUNT",
            AggF::Sum => "SUM",
            AggF::Avg => "AVG",
            AggF::Min => "MIN",
            AggF::Max => "MAX",
        }
    }
}

#[derive(Clone, Copy, Debug, Serialize, Deserialize, PartialEq, Eq, Hash)]
pub enum WinF {
    RowNumber,
    Rank,
    DenseRank,
    PercentRank,
    CumeDist,
    Ntile,
    Lag,
    Lead,
    FirstValue,
    LastValue,
    NthValue,
    Count,
    Sum,
    Avg,
    Min,
    Max,
}
impl WinF {
    pub fn sql(self) -> &'static str {
        match self {
            WinF::RowNumber => "ROW_NUMBER",
            WinF::Rank => "RANK",
            WinF::DenseRank => "DENSE_RANK",
            WinF::PercentRank => "PERCENT_RANK",
            WinF::CumeDist => "CUME_DIST",
            WinF::Ntile => "NTILE",
            WinF::Lag => "LAG",
            WinF::Lead => "LEAD",
            WinF::FirstValue => "FIRST_VALUE",
            WinF::LastValue => "LAST_VALUE",
            WinF::NthValue => "NTH_VALUE",
            WinF::Count => "COUNT",
            WinF::Sum => "SUM",
            WinF::Avg => "AVG",
            WinF::Min => "MIN",
            WinF::Max => "MAX",
        }
    }
    pub fn uses_frame(self) -> bool {
        matches!(
            self,
            WinF::FirstValue | WinF::LastValue | WinF::NthValue | WinF::Count | WinF::Sum | WinF::Avg | WinF::Min | WinF::Max
        )
    }
}

#[derive(Clone, Debug, Serialize, Deserialize, PartialEq)]
pub enum Bound {
    UnboundedPreceding,
    Preceding(i64),
    CurrentRow,
    Following(i64),
    UnboundedFollowing,
}
impl Bound {
    fn sql(&self) -> String {
        match self {
            Bound::UnboundedPreceding => "UNBOUNDED PRECEDING".into(),
            Bound::Preceding(k) => format!("{} PRECEDING", k),
            Bound::CurrentRow => "CURRENT ROW".into(),
            Bound::Following(k) => format!("{} FOLLOWING", k),
            Bound::UnboundedFollowing => "UNBOUNDED FOLLOWING".into(),
        }
    }
}

#[derive(Clone, Debug, Serialize, Deserialize, PartialEq)]
pub struct Frame {
    /// true = ROWS, false = RANGE
    pub rows: bool,
    pub start: Bound,
    pub end: Bound,
}

#[derive(Clone, Debug, Serialize, Deserialize, PartialEq)]
pub struct OrderKey {
    pub e: Expr,
    pub desc: bool,
    /// None = default (NULLS LAST for both directions, as the binder documents)
    pub nulls_first: Option<bool>,
}

#[derive(Clone, Debug, Serialize, Deserialize, PartialEq)]
pub struct WindowCall {
    pub f: WinF,
    pub args: Vec<Expr>,
    pub partition: Vec<Expr>,
    pub order: Vec<OrderKey>,
    pub frame: Option<Frame>,
}

#[derive(Clone, Debug, Serialize, Deserialize, PartialEq)]
pub enum Expr {
    Col { rel: Option<String>, name: String },
    Lit(Value),
    Bin(Box<Expr>, BinOp, Box<Expr>),
    Not(Box<Expr>),
    Neg(Box<Expr>),
    IsNull { e: Box<Expr>, neg: bool },
    InList { e: Box<Expr>, list: Vec<Expr>, neg: bool },
    Between { e: Box<Expr>, lo: Box<Expr>, hi: Box<Expr>, neg: bool },
    Like { e: Box<Expr>, pat: String, neg: bool },
    Case { operand: Option<Box<Expr>>, whens: Vec<(Expr, Expr)>, els: Option<Box<Expr>> },
    Coalesce(Vec<Expr>),
    NullIf(Box<Expr>, Box<Expr>),
    IsDistinct { a: Box<Expr>, b: Box<Expr>, neg: bool },
    Agg { f: AggF, arg: Option<Box<Expr>>, distinct: bool },
    Exists { q: Box<Query>, neg: bool },
    InSub { e: Box<Expr>, q: Box<Query>, neg: bool },
    Scalar(Box<Query>),
    Win(Box<WindowCall>),
    Grouping(Vec<Expr>),
    Cast(Box<Expr>, ColType),
}

impl Expr {
    pub fn col(name: &str) -> Expr {
        Expr::Col { rel: None, name: name.to_string() }
    }
    pub fn qcol(rel: &str, name: &str) -> Expr {
        Expr::Col { rel: Some(rel.to_string()), name: name.to_string() }
    }
    pub fn int(i: i64) -> Expr {
        Expr::Lit(Value::Int(i))
    }
    pub fn bin(a: Expr, op: BinOp, b: Expr) -> Expr {
        Expr::Bin(Box::new(a), op, Box::new(b))
    }
    pub fn and(a: Expr, b: Expr) -> Expr {
        Expr::bin(a, BinOp::And, b)
    }
    pub fn eq(a: Expr, b: Expr) -> Expr {
        Expr::bin(a, BinOp::Eq, b)
    }
    pub fn count_star() -> Expr {
        Expr::Agg { f: AggF::Count, arg: None, distinct: false }
    }
    pub fn agg(f: AggF, e: Expr) -> Expr {
        Expr::Agg { f, arg: Some(Box::new(e)), distinct: false }
    }

    /// Visit every sub-expression (not descending into subqueries).
    pub fn walk<'a>(&'a self, f: &mut dyn FnMut(&'a Expr)) {
        f(self);
        match self {
            Expr::Col { .. } | Expr::Lit(_) => {}
            Expr::Bin(a, _, b) | Expr::NullIf(a, b) => {
                a.walk(f);
                b.walk(f);
            }
            Expr::IsDistinct { a, b, .. } => {
                a.walk(f);
                b.walk(f);
            }
            Expr::Not(e) | Expr::Neg(e) | Expr::IsNull { e, .. } | Expr::Like { e, .. } | Expr::Cast(e, _) => e.walk(f),
            Expr::InList { e, list, .. } => {
                e.walk(f);
                for x in list {
                    x.walk(f);
                }
            }
            Expr::Between { e, lo, hi, .. } => {
                e.walk(f);
                lo.walk(f);
                hi.walk(f);
            }
            Expr::Case { operand, whens, els } => {
                if let Some(o) = operand {
                    o.walk(f);
                }
                for (w, t) in whens {
                    w.walk(f);
                    t.walk(f);
                }
                if let Some(e) = els {
                    e.walk(f);
                }
            }
            Expr::Coalesce(v) | Expr::Grouping(v) => {
                for x in v {
                    x.walk(f);
                }
            }
            Expr::Agg { arg, .. } => {
                if let Some(a) = arg {
                    a.walk(f);
                }
            }
            Expr::InSub { e, .. } => e.walk(f),
            Expr::Exists { .. } | Expr::Scalar(_) => {}
            Expr::Win(w) => {
                for a in &w.args {
                    a.walk(f);
                }
                for a in &w.partition {
                    a.walk(f);
                }
                for k in &w.order {
                    k.e.walk(f);
                }
            }
        }
    }
    pub fn contains_agg(&self) -> bool {
        let mut found = false;
        self.walk(&mut |e| {
            if matches!(e, Expr::Agg { .. } | Expr::Grouping(_)) {
                found = true
            }
        });
        found
    }
    pub fn contains_win(&self) -> bool {
        let mut found = false;
        self.walk(&mut |e| {
            if matches!(e, Expr::Win(_)) {
                found = true
            }
        });
        found
    }
    pub fn contains_subquery(&self) -> bool {
        let mut found = false;
        self.walk(&mut |e| {
            if matches!(e, Expr::Exists { .. } | Expr::InSub { .. } | Expr::Scalar(_)) {
                found = true
            }
        });
        found
    }
}

#[derive(Clone, Copy, Debug, Serialize, Deserialize, PartialEq, Eq, Hash)]
pub enum JoinKind {
    Inner,
    Left,
    Right,
    Full,
    Cross,
    /// rendered as LEFT SEMI JOIN
    Semi,
    /// rendered as LEFT ANTI JOIN
    Anti,
}

#[derive(Clone, Debug, Serialize, Deserialize, PartialEq)]
pub enum From {
    Table { name: String, alias: Option<String> },
    Derived { q: Box<Query>, alias: String, cols: Option<Vec<String>> },
    Join { l: Box<From>, r: Box<From>, kind: JoinKind, on: Option<Expr> },
}

#[derive(Clone, Debug, Serialize, Deserialize, PartialEq)]
pub enum Item {
    Star,
    QStar(String),
    Expr(Expr, Option<String>),
}

#[derive(Clone, Debug, Serialize, Deserialize, PartialEq)]
pub enum Group {
    None,
    By(Vec<Expr>),
    Sets(Vec<Vec<Expr>>),
    Rollup(Vec<Expr>),
    Cube(Vec<Expr>),
}

#[derive(Clone, Debug, Serialize, Deserialize, PartialEq)]
pub struct Select {
    pub distinct: bool,
    pub items: Vec<Item>,
    pub from: Vec<From>,
    pub where_: Option<Expr>,
    pub group: Group,
    pub having: Option<Expr>,
}

#[derive(Clone, Copy, Debug, Serialize, Deserialize, PartialEq, Eq, Hash)]
pub enum SetOp {
    Union,
    Intersect,
    Except,
}

#[derive(Clone, Debug, Serialize, Deserialize, PartialEq)]
pub enum SetExpr {
    Select(Box<Select>),
    Op { op: SetOp, all: bool, l: Box<SetExpr>, r: Box<SetExpr> },
    Values(Vec<Vec<Expr>>),
    /// parenthesised query
    Nested(Box<Query>),
}

#[derive(Clone, Debug, Serialize, Deserialize, PartialEq)]
pub struct Cte {
    pub name: String,
    pub cols: Option<Vec<String>>,
    pub q: Query,
}

#[derive(Clone, Debug, Serialize, Deserialize, PartialEq)]
pub struct Query {
    pub with: Vec<Cte>,
    pub body: SetExpr,
    pub order_by: Vec<OrderKey>,
    pub limit: Option<u64>,
    pub offset: Option<u64>,
}

impl Query {
    pub fn of(body: SetExpr) -> Query {
        Query { with: vec![], body, order_by: vec![], limit: None, offset: None }
    }
    pub fn select(s: Select) -> Query {
        Query::of(SetExpr::Select(Box::new(s)))
    }
}

impl Select {
    pub fn simple(items: Vec<Item>, from: Vec<From>, where_: Option<Expr>) -> Select {
        Select { distinct: false, items, from, where_, group: Group::None, having: None }
    }
}

// ---------------------------------------------------------------------------
// rendering
// ---------------------------------------------------------------------------

fn list(v: &[Expr]) -> String {
    v.iter().map(|e| e.sql()).collect::<Vec<_>>().join(", ")
}

pub fn order_sql(keys: &[OrderKey]) -> String {
    keys.iter()
        .map(|k| {
            format!(
                "{}{}{}",
                k.e.sql(),
                if k.desc { " DESC" } else { " ASC" },
                match k.nulls_first {
                    None => {
                        if crate::data::sqlite_dialect() {
                            " NULLS LAST"
                        } else {
                            ""
                        }
                    }
                    Some(true) => " NULLS FIRST",
                    Some(false) => " NULLS LAST",
                }
            )
        })
        .collect::<Vec<_>>()
        .join(", ")
}

impl Expr {
    /// Fully parenthesised rendering (no reliance on precedence).
    pub fn sql(&self) -> String {
        match self {
            Expr::Col { rel: Some(r), name } => format!("{}.{}", r, name),
            Expr::Col { rel: None, name } => name.clone(),
            Expr::Lit(v) => v.sql(),
            Expr::Bin(a, op, b) => format!("({} {} {})", a.sql(), op.sql(), b.sql()),
            Expr::Not(e) => format!("(NOT {})", e.sql()),
            Expr::Neg(e) => format!("(- {})", e.sql()),
            Expr::IsNull { e, neg } => format!("({} IS {}NULL)", e.sql(), if *neg { "NOT " } else { "" }),
            Expr::InList { e, list: l, neg } => {
                format!("({} {}IN ({}))", e.sql(), if *neg { "NOT " } else { "" }, list(l))
            }
            Expr::Between { e, lo, hi, neg } => format!(
                "({} {}BETWEEN {} AND {})",
                e.sql(),
                if *neg { "NOT " } else { "" },
                lo.sql(),
                hi.sql()
            ),
            Expr::Like { e, pat, neg } => format!(
                "({} {}LIKE '{}')",
                e.sql(),
                if *neg { "NOT " } else { "" },
                pat.replace('\'', "''")
            ),
            Expr::Case { operand, whens, els } => {
                let mut s = String::from("(CASE");
                if let Some(o) = operand {
                    s.push_str(&format!(" {}", o.sql()));
                }
                for (w, t) in whens {
                    s.push_str(&format!(" WHEN {} THEN {}", w.sql(), t.sql()));
                }
                if let Some(e) = els {
                    s.push_str(&format!(" ELSE {}", e.sql()));
                }
                s.push_str(" END)");
                s
            }
            Expr::Coalesce(v) => format!("COALESCE({})", list(v)),
            Expr::NullIf(a, b) => format!("NULLIF({}, {})", a.sql(), b.sql()),
            Expr::IsDistinct { a, b, neg } => format!(
                "({} IS {}DISTINCT FROM {})",
                a.sql(),
                if *neg { "NOT " } else { "" },
                b.sql()
            ),
            Expr::Agg { f, arg, distinct } => match arg {
                None => "COUNT(*)".to_string(),
                Some(a) => format!("{}({}{})", f.sql(), if *distinct { "DISTINCT " } else { "" }, a.sql()),
            },
            Expr::Exists { q, neg } => format!("({}EXISTS ({}))", if *neg { "NOT " } else { "" }, q.sql()),
            Expr::InSub { e, q, neg } => {
                format!("({} {}IN ({}))", e.sql(), if *neg { "NOT " } else { "" }, q.sql())
            }
            Expr::Scalar(q) => format!("({})", q.sql()),
            Expr::Win(w) => {
                let args = match (w.f, w.args.is_empty()) {
                    (WinF::Count, true) => "*".to_string(),
                    _ => list(&w.args),
                };
                let mut over = vec![];
                if !w.partition.is_empty() {
                    over.push(format!("PARTITION BY {}", list(&w.partition)));
                }
                if !w.order.is_empty() {
                    over.push(format!("ORDER BY {}", order_sql(&w.order)));
                }
                if let Some(fr) = &w.frame {
                    over.push(format!(
                        "{} BETWEEN {} AND {}",
                        if fr.rows { "ROWS" } else { "RANGE" },
                        fr.start.sql(),
                        fr.end.sql()
                    ));
                }
                format!("{}({}) OVER ({})", w.f.sql(), args, over.join(" "))
            }
            Expr::Grouping(v) => format!("GROUPING({})", list(v)),
            Expr::Cast(e, t) => format!(
                "CAST({} AS {})",
                e.sql(),
                match t {
                    ColType::Int => "BIGINT",
                    ColType::Int32 => "INTEGER",
                    ColType::Double => "DOUBLE",
                    ColType::Str => "VARCHAR",
                    ColType::Date => "DATE",
                    ColType::Bool => "BOOLEAN",
                }
            ),
        }
    }
}

impl From {
    pub fn sql(&self) -> String {
        match self {
            From::Table { name, alias: None } => name.clone(),
            From::Table { name, alias: Some(a) } => format!("{} AS {}", name, a),
            From::Derived { q, alias, cols } => match cols {
                None => format!("({}) AS {}", q.sql(), alias),
                Some(c) => format!("({}) AS {} ({})", q.sql(), alias, c.join(", ")),
            },
            From::Join { l, r, kind, on } => {
                let k = match kind {
                    JoinKind::Inner => "INNER JOIN",
                    JoinKind::Left => "LEFT JOIN",
                    JoinKind::Right => "RIGHT JOIN",
                    JoinKind::Full => "FULL OUTER JOIN",
                    JoinKind::Cross => "CROSS JOIN",
                    JoinKind::Semi => "LEFT SEMI JOIN",
                    JoinKind::Anti => "LEFT ANTI JOIN",
                };
                let rs = match **r {
                    From::Join { .. } => format!("({})", r.sql()),
                    _ => r.sql(),
                };
                match on {
                    Some(e) => format!("{} {} {} ON {}", l.sql(), k, rs, e.sql()),
                    None => format!("{} {} {}", l.sql(), k, rs),
                }
            }
        }
    }
}

impl Select {
    pub fn sql(&self) -> String {
        let mut s = String::from("SELECT ");
        if self.distinct {
            s.push_str("DISTINCT ");
        }
        s.push_str(
            &self
                .items
                .iter()
                .map(|i| match i {
                    Item::Star => "*".to_string(),
                    Item::QStar(q) => format!("{}.*", q),
                    Item::Expr(e, None) => e.sql(),
                    Item::Expr(e, Some(a)) => format!("{} AS {}", e.sql(), a),
                })
                .collect::<Vec<_>>()
                .join(", "),
        );
        if !self.from.is_empty() {
            s.push_str(" FROM ");
            s.push_str(&self.from.iter().map(|f| f.sql()).collect::<Vec<_>>().join(", "));
        }
        if let Some(w) = &self.where_ {
            s.push_str(&format!(" WHERE {}", w.sql()));
        }
        match &self.group {
            Group::None => {}
            Group::By(v) => s.push_str(&format!(" GROUP BY {}", list(v))),
            Group::Sets(sets) => s.push_str(&format!(
                " GROUP BY GROUPING SETS ({})",
                sets.iter().map(|x| format!("({})", list(x))).collect::<Vec<_>>().join(", ")
            )),
            Group::Rollup(v) => s.push_str(&format!(" GROUP BY ROLLUP ({})", list(v))),
            Group::Cube(v) => s.push_str(&format!(" GROUP BY CUBE ({})", list(v))),
        }
        if let Some(h) = &self.having {
            s.push_str(&format!(" HAVING {}", h.sql()));
        }
        s
    }
}

impl SetExpr {
    pub fn sql(&self) -> String {
        match self {
            SetExpr::Select(s) => s.sql(),
            SetExpr::Op { op, all, l, r } => {
                let o = match op {
                    SetOp::Union => "UNION",
                    SetOp::Intersect => "INTERSECT",
                    SetOp::Except => "EXCEPT",
                };
                let wrap = |x: &SetExpr| match x {
                    // SQLite rejects parenthesised compound operands; its compound
                    // operators are left-associative with equal precedence, which is
                    // exactly the shape of a left-nested tree
                    SetExpr::Op { .. } if !crate::data::sqlite_dialect() => format!("({})", x.sql()),
                    _ => x.sql(),
                };
                format!("{} {}{} {}", wrap(l), o, if *all { " ALL" } else { "" }, wrap(r))
            }
            SetExpr::Values(rows) => format!(
                "VALUES {}",
                rows.iter().map(|r| format!("({})", list(r))).collect::<Vec<_>>().join(", ")
            ),
            SetExpr::Nested(q) => format!("({})", q.sql()),
        }
    }
}

impl Query {
    pub fn sql(&self) -> String {
        let mut s = String::new();
        if !self.with.is_empty() {
            s.push_str("WITH ");
            s.push_str(
                &self
                    .with
                    .iter()
                    .map(|c| match &c.cols {
                        None => format!("{} AS ({})", c.name, c.q.sql()),
                        Some(cols) => format!("{} ({}) AS ({})", c.name, cols.join(", "), c.q.sql()),
                    })
                    .collect::<Vec<_>>()
                    .join(", "),
            );
            s.push(' ');
        }
        s.push_str(&self.body.sql());
        if !self.order_by.is_empty() {
            s.push_str(&format!(" ORDER BY {}", order_sql(&self.order_by)));
        }
        if let Some(l) = self.limit {
            s.push_str(&format!(" LIMIT {}", l));
        }
        if let Some(o) = self.offset {
            s.push_str(&format!(" OFFSET {}", o));
        }
        s
    }
}
