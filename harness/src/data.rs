//! Library-independent data model: typed values, tables, conversion to and from
//! Arrow record batches, Parquet manufacture, result normalisation/comparison.

use arrow::array::*;
use arrow::datatypes::{DataType, Field, Schema, SchemaRef};
use arrow::record_batch::RecordBatch;
use proptest::prelude::*;
use serde::{Deserialize, Serialize};
use std::cmp::Ordering;
use std::path::{Path, PathBuf};
use std::sync::atomic::{AtomicU64, Ordering as AO};
use std::sync::Arc;

#[derive(Clone, Debug, Serialize, Deserialize, PartialEq)]
pub enum Value {
    Null,
    Int(i64),
    /// stored as bits in JSON so NaN / -0.0 / inf survive a replay file
    Double(#[serde(with = "f64_bits")] f64),
    Str(String),
    /// days since epoch
    Date(i32),
    Bool(bool),
}

mod f64_bits {
    use serde::{Deserialize, Deserializer, Serialize, Serializer};
    #[derive(Serialize, Deserialize)]
    #[serde(untagged)]
    enum Rep {
        Num(f64),
        Bits { bits: u64 },
    }
    pub fn serialize<S: Serializer>(v: &f64, s: S) -> Result<S::Ok, S::Error> {
        if v.is_finite() && !(*v == 0.0 && v.is_sign_negative()) {
            Rep::Num(*v).serialize(s)
        } else {
            Rep::Bits { bits: v.to_bits() }.serialize(s)
        }
    }
    pub fn deserialize<'de, D: Deserializer<'de>>(d: D) -> Result<f64, D::Error> {
        Ok(match Rep::deserialize(d)? {
            Rep::Num(f) => f,
            Rep::Bits { bits } => f64::from_bits(bits),
        })
    }
}

impl Value {
    pub fn is_null(&self) -> bool {
        matches!(self, Value::Null)
    }
    pub fn as_f64(&self) -> Option<f64> {
        match self {
            Value::Int(i) => Some(*i as f64),
            Value::Double(d) => Some(*d),
            _ => None,
        }
    }
    /// SQL literal text (engine dialect)
    pub fn sql(&self) -> String {
        match self {
            Value::Null => "NULL".into(),
            Value::Int(i) => {
                if *i < 0 {
                    format!("({})", i)
                } else {
                    i.to_string()
                }
            }
            Value::Double(d) => {
                let s = format!("{:?}", d);
                let s = if s.contains('.') || s.contains('e') || s.contains("inf") || s.contains("NaN") {
                    s
                } else {
                    format!("{}.0", s)
                };
                if *d < 0.0 {
                    format!("({})", s)
                } else {
                    s
                }
            }
            Value::Str(s) => format!("'{}'", s.replace('\'', "''")),
            Value::Date(d) => {
                if sqlite_dialect() {
                    format!("'{}'", date_string(*d))
                } else {
                    format!("DATE '{}'", date_string(*d))
                }
            }
            Value::Bool(b) => if *b { "TRUE" } else { "FALSE" }.into(),
        }
    }
    fn rank(&self) -> u8 {
        match self {
            Value::Null => 0,
            Value::Bool(_) => 1,
            Value::Int(_) | Value::Double(_) => 2,
            Value::Date(_) => 3,
            Value::Str(_) => 4,
        }
    }
    /// Total order used only for canonical sorting of result multisets
    /// (numeric Int/Double compare numerically; NULL first).
    pub fn canon_cmp(&self, o: &Value) -> Ordering {
        match (self, o) {
            (Value::Int(a), Value::Int(b)) => a.cmp(b),
            (Value::Bool(a), Value::Bool(b)) => a.cmp(b),
            (Value::Date(a), Value::Date(b)) => a.cmp(b),
            (Value::Str(a), Value::Str(b)) => a.cmp(b),
            (a, b) if a.rank() == 2 && b.rank() == 2 => {
                // -0.0 and 0.0 are the same SQL value: normalise before ordering
                let (x, y) = (a.as_f64().unwrap() + 0.0, b.as_f64().unwrap() + 0.0);
                x.total_cmp(&y)
            }
            (a, b) => a.rank().cmp(&b.rank()),
        }
    }
}

thread_local! {
    static SQLITE_DIALECT: std::cell::Cell<bool> = const { std::cell::Cell::new(false) };
}
/// Rendering switch used only by the SQLite cross-check export (dates as ISO
/// strings, explicit NULLS LAST default).
pub fn sqlite_dialect() -> bool {
    SQLITE_DIALECT.with(|d| d.get())
}
pub fn set_sqlite_dialect(on: bool) {
    SQLITE_DIALECT.with(|d| d.set(on));
}

pub fn date_string(days: i32) -> String {
    match chrono::NaiveDate::from_ymd_opt(1970, 1, 1)
        .unwrap()
        .checked_add_signed(chrono::Duration::days(days as i64))
    {
        Some(d) => d.format("%Y-%m-%d").to_string(),
        // out of chrono's range (e.g. an i32::MIN/MAX sentinel leaking from the engine)
        None => format!("date({})", days),
    }
}

#[derive(Clone, Copy, Debug, Serialize, Deserialize, PartialEq, Eq, Hash)]
pub enum ColType {
    /// BIGINT
    Int,
    /// INTEGER (Int32 in Arrow)
    Int32,
    Double,
    Str,
    Date,
    Bool,
}
impl ColType {
    pub fn arrow(self) -> DataType {
        match self {
            ColType::Int => DataType::Int64,
            ColType::Int32 => DataType::Int32,
            ColType::Double => DataType::Float64,
            ColType::Str => DataType::Utf8,
            ColType::Date => DataType::Date32,
            ColType::Bool => DataType::Boolean,
        }
    }
    pub fn is_numeric(self) -> bool {
        matches!(self, ColType::Int | ColType::Int32 | ColType::Double)
    }
    pub fn is_int(self) -> bool {
        matches!(self, ColType::Int | ColType::Int32)
    }
}

#[derive(Clone, Debug, Serialize, Deserialize, PartialEq)]
pub struct Column {
    pub name: String,
    pub ty: ColType,
}

#[derive(Clone, Debug, Serialize, Deserialize, PartialEq)]
pub struct Table {
    pub name: String,
    pub cols: Vec<Column>,
    pub rows: Vec<Vec<Value>>,
}

pub type Rows = Vec<Vec<Value>>;

impl Table {
    pub fn schema(&self) -> SchemaRef {
        Arc::new(Schema::new(
            self.cols
                .iter()
                .map(|c| Field::new(&c.name, c.ty.arrow(), true))
                .collect::<Vec<_>>(),
        ))
    }
    pub fn col_index(&self, name: &str) -> Option<usize> {
        self.cols.iter().position(|c| c.name.eq_ignore_ascii_case(name))
    }
    /// One record batch holding rows[lo..hi]
    pub fn batch(&self, lo: usize, hi: usize) -> RecordBatch {
        rows_to_batch(&self.cols, &self.rows[lo..hi])
    }
    /// Split into batches at the given cut points (cuts are row indices,
    /// may repeat to produce empty batches).
    pub fn batches(&self, cuts: &[usize]) -> Vec<RecordBatch> {
        let n = self.rows.len();
        let mut pts: Vec<usize> = cuts.iter().map(|c| (*c).min(n)).collect();
        pts.sort();
        let mut out = vec![];
        let mut lo = 0;
        for p in pts {
            out.push(self.batch(lo, p));
            lo = p;
        }
        out.push(self.batch(lo, n));
        out
    }
}

pub fn rows_to_batch(cols: &[Column], rows: &[Vec<Value>]) -> RecordBatch {
    let schema = Arc::new(Schema::new(
        cols.iter()
            .map(|c| Field::new(&c.name, c.ty.arrow(), true))
            .collect::<Vec<_>>(),
    ));
    let mut arrays: Vec<ArrayRef> = vec![];
    for (i, c) in cols.iter().enumerate() {
        let col = rows.iter().map(|r| &r[i]);
        let a: ArrayRef = match c.ty {
            ColType::Int => Arc::new(Int64Array::from(
                col.map(|v| match v {
                    Value::Int(x) => Some(*x),
                    Value::Null => None,
                    o => panic!("type mismatch {:?} in Int col", o),
                })
                .collect::<Vec<_>>(),
            )),
            ColType::Int32 => Arc::new(Int32Array::from(
                col.map(|v| match v {
                    Value::Int(x) => Some(*x as i32),
                    Value::Null => None,
                    o => panic!("type mismatch {:?} in Int32 col", o),
                })
                .collect::<Vec<_>>(),
            )),
            ColType::Double => Arc::new(Float64Array::from(
                col.map(|v| match v {
                    Value::Double(x) => Some(*x),
                    Value::Int(x) => Some(*x as f64),
                    Value::Null => None,
                    o => panic!("type mismatch {:?} in Double col", o),
                })
                .collect::<Vec<_>>(),
            )),
            ColType::Str => Arc::new(StringArray::from(
                col.map(|v| match v {
                    Value::Str(x) => Some(x.clone()),
                    Value::Null => None,
                    o => panic!("type mismatch {:?} in Str col", o),
                })
                .collect::<Vec<_>>(),
            )),
            ColType::Date => Arc::new(Date32Array::from(
                col.map(|v| match v {
                    Value::Date(x) => Some(*x),
                    Value::Null => None,
                    o => panic!("type mismatch {:?} in Date col", o),
                })
                .collect::<Vec<_>>(),
            )),
            ColType::Bool => Arc::new(BooleanArray::from(
                col.map(|v| match v {
                    Value::Bool(x) => Some(*x),
                    Value::Null => None,
                    o => panic!("type mismatch {:?} in Bool col", o),
                })
                .collect::<Vec<_>>(),
            )),
        };
        arrays.push(a);
    }
    if cols.is_empty() {
        return RecordBatch::try_new_with_options(
            schema,
            vec![],
            &RecordBatchOptions::new().with_row_count(Some(rows.len())),
        )
        .unwrap();
    }
    RecordBatch::try_new(schema, arrays).unwrap()
}

/// Normalise one Arrow cell into a Value. Unknown types are rendered with
/// arrow's display formatter into Str (so they still compare structurally).
pub fn cell(a: &dyn Array, i: usize) -> Value {
    // (`is_null` is false on a NullArray: it has no validity bitmap)
    if a.is_null(i) || a.data_type() == &DataType::Null {
        return Value::Null;
    }
    match a.data_type() {
        DataType::Int8 => Value::Int(a.as_any().downcast_ref::<Int8Array>().unwrap().value(i) as i64),
        DataType::Int16 => Value::Int(a.as_any().downcast_ref::<Int16Array>().unwrap().value(i) as i64),
        DataType::Int32 => Value::Int(a.as_any().downcast_ref::<Int32Array>().unwrap().value(i) as i64),
        DataType::Int64 => Value::Int(a.as_any().downcast_ref::<Int64Array>().unwrap().value(i)),
        DataType::UInt8 => Value::Int(a.as_any().downcast_ref::<UInt8Array>().unwrap().value(i) as i64),
        DataType::UInt16 => Value::Int(a.as_any().downcast_ref::<UInt16Array>().unwrap().value(i) as i64),
        DataType::UInt32 => Value::Int(a.as_any().downcast_ref::<UInt32Array>().unwrap().value(i) as i64),
        DataType::UInt64 => Value::Int(a.as_any().downcast_ref::<UInt64Array>().unwrap().value(i) as i64),
        DataType::Float32 => Value::Double(a.as_any().downcast_ref::<Float32Array>().unwrap().value(i) as f64),
        DataType::Float64 => Value::Double(a.as_any().downcast_ref::<Float64Array>().unwrap().value(i)),
        DataType::Utf8 => Value::Str(a.as_any().downcast_ref::<StringArray>().unwrap().value(i).to_string()),
        DataType::LargeUtf8 => Value::Str(a.as_any().downcast_ref::<LargeStringArray>().unwrap().value(i).to_string()),
        DataType::Utf8View => Value::Str(a.as_any().downcast_ref::<StringViewArray>().unwrap().value(i).to_string()),
        DataType::Boolean => Value::Bool(a.as_any().downcast_ref::<BooleanArray>().unwrap().value(i)),
        DataType::Date32 => Value::Date(a.as_any().downcast_ref::<Date32Array>().unwrap().value(i)),
        DataType::Dictionary(_, vt) => {
            let c = arrow::compute::cast(&a.slice(i, 1), vt).expect("dictionary cast");
            cell(c.as_ref(), 0)
        }
        DataType::Decimal128(_, scale) => {
            let v = a.as_any().downcast_ref::<Decimal128Array>().unwrap().value(i);
            Value::Double(v as f64 / 10f64.powi(*scale as i32))
        }
        _ => {
            let f = arrow::util::display::ArrayFormatter::try_new(a, &Default::default()).unwrap();
            Value::Str(format!("{}", f.value(i)))
        }
    }
}

pub fn batches_to_rows(batches: &[RecordBatch]) -> Rows {
    let mut out = vec![];
    for b in batches {
        for i in 0..b.num_rows() {
            out.push((0..b.num_columns()).map(|c| cell(b.column(c).as_ref(), i)).collect());
        }
    }
    out
}

pub fn row_cmp(a: &[Value], b: &[Value]) -> Ordering {
    for (x, y) in a.iter().zip(b.iter()) {
        let o = x.canon_cmp(y);
        if o != Ordering::Equal {
            return o;
        }
    }
    a.len().cmp(&b.len())
}

pub fn canon_sort(rows: &mut Rows) {
    rows.sort_by(|a, b| row_cmp(a, b));
}

/// value equality for result comparison: Int/Double compare numerically,
/// doubles with relative tolerance `tol` (0.0 = exact; NaN equals NaN).
pub fn value_eq(a: &Value, b: &Value, tol: f64) -> bool {
    match (a, b) {
        (Value::Null, Value::Null) => true,
        (Value::Int(x), Value::Int(y)) => x == y,
        (Value::Str(x), Value::Str(y)) => x == y,
        (Value::Date(x), Value::Date(y)) => x == y,
        (Value::Bool(x), Value::Bool(y)) => x == y,
        (x, y) if x.rank() == 2 && y.rank() == 2 => {
            let (p, q) = (x.as_f64().unwrap(), y.as_f64().unwrap());
            if p.is_nan() || q.is_nan() {
                return p.is_nan() && q.is_nan();
            }
            if p == q {
                return true;
            }
            if tol == 0.0 {
                return false;
            }
            let scale = p.abs().max(q.abs()).max(1e-300);
            ((p - q).abs() / scale) <= tol
        }
        _ => false,
    }
}

pub fn rows_eq(a: &[Vec<Value>], b: &[Vec<Value>], tol: f64) -> bool {
    a.len() == b.len()
        && a.iter().zip(b.iter()).all(|(r, s)| {
            r.len() == s.len() && r.iter().zip(s.iter()).all(|(x, y)| value_eq(x, y, tol))
        })
}

/// Multiset equality (canonical sort, then pairwise with tolerance).
pub fn multiset_eq(a: &Rows, b: &Rows, tol: f64) -> bool {
    if a.len() != b.len() {
        return false;
    }
    let mut a = a.clone();
    let mut b = b.clone();
    canon_sort(&mut a);
    canon_sort(&mut b);
    rows_eq(&a, &b, tol)
}

pub fn fmt_rows(rows: &Rows, max: usize) -> String {
    let mut s = String::new();
    for r in rows.iter().take(max) {
        s.push_str(&format!(
            "  ({})\n",
            r.iter().map(fmt_value).collect::<Vec<_>>().join(", ")
        ));
    }
    if rows.len() > max {
        s.push_str(&format!("  … {} rows total\n", rows.len()));
    }
    if rows.is_empty() {
        s.push_str("  (no rows)\n");
    }
    s
}
pub fn fmt_value(v: &Value) -> String {
    match v {
        Value::Null => "NULL".into(),
        Value::Int(i) => i.to_string(),
        Value::Double(d) => format!("{:?}", d),
        Value::Str(s) => format!("{:?}", s),
        Value::Date(d) => date_string(*d),
        Value::Bool(b) => b.to_string(),
    }
}

// ---------------------------------------------------------------------------
// temp dirs and Parquet manufacture
// ---------------------------------------------------------------------------

static TMP_SEQ: AtomicU64 = AtomicU64::new(0);

/// A per-case temp directory under /verif/target/tmp, removed on drop.
pub struct TempDir(pub PathBuf);
impl TempDir {
    pub fn new(tag: &str) -> Self {
        let n = TMP_SEQ.fetch_add(1, AO::SeqCst);
        let p = crate::runner::verif_root().join(format!(
            "target/tmp/{}-{}-{}",
            tag,
            std::process::id(),
            n
        ));
        std::fs::create_dir_all(&p).expect("create temp dir");
        TempDir(p)
    }
    pub fn path(&self) -> &Path {
        &self.0
    }
}
impl Drop for TempDir {
    fn drop(&mut self) {
        let _ = std::fs::remove_dir_all(&self.0);
    }
}

#[derive(Clone, Debug, Serialize, Deserialize, PartialEq)]
pub struct ParquetLayout {
    /// row index cut points between files (sorted/clamped at use)
    pub file_cuts: Vec<usize>,
    pub row_group_size: usize,
    /// 0 = none, 1 = chunk, 2 = page
    pub stats: u8,
    pub dictionary: bool,
}
impl ParquetLayout {
    pub fn single() -> Self {
        ParquetLayout { file_cuts: vec![], row_group_size: 1 << 20, stats: 1, dictionary: true }
    }
}

pub fn parquet_layout_strategy(max_rows: usize) -> impl Strategy<Value = ParquetLayout> {
    (
        proptest::collection::vec(0..=max_rows.max(1), 0..4),
        prop_oneof![Just(1usize), Just(2), Just(3), Just(7), Just(64), Just(1024), Just(1 << 20)],
        prop_oneof![4 => Just(1u8), 1 => Just(0u8), 1 => Just(2u8)],
        any::<bool>(),
    )
        .prop_map(|(file_cuts, row_group_size, stats, dictionary)| ParquetLayout {
            file_cuts,
            row_group_size,
            stats,
            dictionary,
        })
}

/// Write `t` under `dir` according to `layout`; returns the file paths.
pub fn write_parquet(t: &Table, dir: &Path, layout: &ParquetLayout) -> Vec<PathBuf> {
    use parquet::arrow::ArrowWriter;
    use parquet::file::properties::{EnabledStatistics, WriterProperties};
    std::fs::create_dir_all(dir).unwrap();
    let n = t.rows.len();
    let mut pts: Vec<usize> = layout.file_cuts.iter().map(|c| (*c).min(n)).collect();
    pts.sort();
    pts.push(n);
    let mut out = vec![];
    let mut lo = 0usize;
    for (fi, hi) in pts.into_iter().enumerate() {
        let props = WriterProperties::builder()
            .set_max_row_group_size(layout.row_group_size.max(1))
            .set_statistics_enabled(match layout.stats {
                0 => EnabledStatistics::None,
                1 => EnabledStatistics::Chunk,
                _ => EnabledStatistics::Page,
            })
            .set_dictionary_enabled(layout.dictionary)
            .build();
        let p = dir.join(format!("part-{:03}.parquet", fi));
        let f = std::fs::File::create(&p).unwrap();
        let mut w = ArrowWriter::try_new(f, t.schema(), Some(props)).unwrap();
        let b = t.batch(lo, hi);
        // ArrowWriter::write recurses once per row group a batch spans: a large batch with a tiny
        // row-group size overflows the stack. Hand it slices of at most 256 row groups (slices
        // are multiples of the row-group size, so the row-group boundaries are the same).
        let step = layout.row_group_size.max(1).saturating_mul(256);
        let mut at = 0usize;
        while at < b.num_rows() {
            let len = step.min(b.num_rows() - at);
            w.write(&b.slice(at, len)).unwrap();
            at += len;
        }
        w.close().unwrap();
        out.push(p);
        lo = hi;
    }
    out
}

// ---------------------------------------------------------------------------
// generators
// ---------------------------------------------------------------------------

/// Small-domain value strategy (forces duplicates and join matches).
pub fn small_value(ty: ColType, null_pct: u32) -> BoxedStrategy<Value> {
    let nn: BoxedStrategy<Value> = match ty {
        ColType::Int | ColType::Int32 => (0i64..5).prop_map(Value::Int).boxed(),
        // multiples of 0.25 with small magnitude: sums are exact in any order
        ColType::Double => (-8i64..9).prop_map(|k| Value::Double(k as f64 * 0.25)).boxed(),
        ColType::Str => prop_oneof![
            Just(""), Just("a"), Just("ab"), Just("b"), Just("B"), Just("a%"), Just("é"), Just("aba")
        ]
        .prop_map(|s| Value::Str(s.to_string()))
        .boxed(),
        ColType::Date => (0i32..4).prop_map(|d| Value::Date(10957 + d * 15)).boxed(),
        ColType::Bool => any::<bool>().prop_map(Value::Bool).boxed(),
    };
    if null_pct == 0 {
        nn
    } else {
        prop_oneof![
            null_pct => Just(Value::Null),
            (100 - null_pct) => nn,
        ]
        .boxed()
    }
}

/// Monotone index mapping (shrinks well): u16 selector -> 0..len
pub fn pick_idx(sel: u16, len: usize) -> usize {
    if len == 0 {
        0
    } else {
        ((sel as usize) * len) >> 16
    }
}
