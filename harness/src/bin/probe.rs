//! Triage aid: probe <replay.json | -> [sql]  — load the SqlCase of a replay file
//! (or stdin JSON {tables, query}), print the logical/optimized/physical plans,
//! the engine's rows (optimized and unoptimized) and the reference rows.
use qe_verif::data::*;
use qe_verif::engine::*;
use qe_verif::refsql::Db;
use qe_verif::sqlgen::SqlCase;

fn main() {
    let args: Vec<String> = std::env::args().skip(1).collect();
    let txt = std::fs::read_to_string(&args[0]).expect("read");
    let doc: serde_json::Value = serde_json::from_str(&txt).expect("json");
    let case_json = if doc.get("case").is_some() { doc["case"].clone() } else { doc.clone() };
    // cases of several checks embed an SqlCase under "sql_case" or are one themselves
    let c: SqlCase = serde_json::from_value(case_json.clone())
        .or_else(|_| serde_json::from_value(case_json["sql_case"].clone()))
        .expect("not an SqlCase");
    let sql = args.get(1).cloned().unwrap_or_else(|| c.query.sql());
    println!("SQL: {}", sql);
    for t in &c.tables {
        println!("table {} {:?}\n{}", t.name, t.cols.iter().map(|c| format!("{} {:?}", c.name, c.ty)).collect::<Vec<_>>(), fmt_rows(&t.rows, 50));
    }
    let mut ctx = query_engine::ExecutionContext::new();
    // PROBE_PARQUET=1: register the tables as Parquet (one file, chunk statistics)
    let pq_dir = TempDir::new("probe");
    for (i, t) in c.tables.iter().enumerate() {
        if std::env::var("PROBE_PARQUET").is_ok() {
            let layout = ParquetLayout { file_cuts: vec![], row_group_size: 1 << 20, stats: 1, dictionary: true };
            register_parquet(&mut ctx, t, pq_dir.path(), &layout).expect("register parquet");
        } else {
            register_mem(&mut ctx, t, c.cuts.get(i).map(|v| v.as_slice()).unwrap_or(&[]));
        }
    }
    match ctx.logical_plan(&sql) {
        Ok(p) => println!("--- bound plan\n{}", p),
        Err(e) => println!("bind error: {}", e),
    }
    match ctx.optimized_plan(&sql) {
        Ok(p) => println!("--- optimized plan\n{}", p),
        Err(e) => println!("optimize error: {}", e),
    }
    match ctx.physical_plan(&sql) {
        Ok(p) => println!("--- physical plan\n{}", query_engine::physical::display_plan(p.as_ref(), 0)),
        Err(e) => println!("physical plan error: {}", e),
    }
    match run_sql(&ctx, &sql) {
        Ok(mut r) => {
            canon_sort(&mut r);
            println!("--- engine ({} rows)\n{}", r.len(), fmt_rows(&r, 60))
        }
        Err(e) => println!("--- engine error: {}", e),
    }
    match run_unoptimized(&ctx, &sql) {
        Ok(mut r) => {
            canon_sort(&mut r);
            println!("--- engine, unoptimized ({} rows)\n{}", r.len(), fmt_rows(&r, 60))
        }
        Err(e) => println!("--- engine unoptimized error: {}", e),
    }
    if args.get(1).is_none() {
        match Db::new(&c.tables).run(&c.query) {
            Ok(a) => {
                let mut r = a.rows.clone();
                canon_sort(&mut r);
                println!("--- reference ({} rows)\n{}", r.len(), fmt_rows(&r, 60))
            }
            Err(e) => println!("--- reference error: {}", e),
        }
    }
}
