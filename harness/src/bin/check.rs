//! CLI: check <ID> [--tier quick|thorough] [--seed N] [--replay FILE] | --list
use qe_verif::props;
use qe_verif::runner::*;
use std::path::Path;

fn main() {
    let args: Vec<String> = std::env::args().skip(1).collect();
    if args.is_empty() || args[0] == "--help" {
        eprintln!("usage: check <ID> [--tier quick|thorough] [--seed N] [--replay FILE] | --list | --worker …");
        std::process::exit(2);
    }
    if args[0] == "--list" {
        for id in props::ALL_IDS {
            let p = props::get(id).unwrap();
            println!(
                "{} level={} checks=[{}]",
                id,
                p.level,
                p.checks.iter().map(|c| c.name()).collect::<Vec<_>>().join(",")
            );
        }
        return;
    }
    if args[0] == "--kf-sigs" {
        // machine-readable list of the SQL known-finding signatures (tools/kf_update.py)
        let v: Vec<_> = qe_verif::kf_sql::SIGS
            .iter()
            .map(|s| serde_json::json!({"id": s.id, "summary": s.summary, "signature": s.signature}))
            .collect();
        println!("{}", serde_json::to_string_pretty(&v).unwrap());
        return;
    }
    if args[0] == "--export" {
        // --export <profile> <n> <seed> <outfile>   (SQLite cross-check of refsql)
        qe_verif::export::export(&args[1], args[2].parse().unwrap(), args[3].parse().unwrap(), &args[4]);
        return;
    }
    if args[0] == "--worker" {
        qe_verif::worker::main(&args[1..]);
        return;
    }
    let id = args[0].clone();
    let mut tier = match std::env::var("VERIF_TIER").as_deref() {
        Ok("thorough") => Tier::Thorough,
        _ => Tier::Quick,
    };
    let mut seed: u64 = std::env::var("VERIF_SEED")
        .ok()
        .and_then(|s| s.trim().parse::<i128>().ok())
        .map(|v| v as u64)
        .unwrap_or(20260921);
    let mut replay: Option<String> = None;
    let mut i = 1;
    while i < args.len() {
        match args[i].as_str() {
            "--tier" => {
                tier = if args.get(i + 1).map(|s| s.as_str()) == Some("thorough") {
                    Tier::Thorough
                } else {
                    Tier::Quick
                };
                i += 2;
            }
            "--seed" => {
                seed = args[i + 1].parse().expect("seed");
                i += 2;
            }
            "--replay" => {
                replay = Some(args[i + 1].clone());
                i += 2;
            }
            o => {
                eprintln!("unknown arg {}", o);
                std::process::exit(2);
            }
        }
    }
    let prop = match props::get(&id) {
        Some(p) => p,
        None => {
            eprintln!("unknown property {}", id);
            std::process::exit(2);
        }
    };
    // quiet panic hook: panics are caught and reported as verdicts
    // (a panic on the main thread is a harness bug: show it)
    std::panic::set_hook(Box::new(|info| {
        if std::thread::current().name() == Some("main") && !qe_verif::runner::in_guard() {
            eprintln!("harness panic: {}", info);
        }
    }));

    if let Some(path) = replay {
        let cx = RunCtx::new(&id, tier, seed);
        let (cname, v) = replay_file(Some(&cx), &prop.checks, Path::new(&path));
        match v {
            Verdict::Pass => {
                println!("REPLAY property={} check={} PASS", id, cname);
                std::process::exit(0);
            }
            Verdict::Discard(w) => {
                println!("REPLAY property={} check={} SKIPPED: {}", id, cname, w);
                std::process::exit(2);
            }
            Verdict::Known { id: kid, msg } if cx.is_open(&kid) => {
                println!("KNOWN-FINDING: property={} {} [{}]", id, kid, msg);
                std::process::exit(0);
            }
            Verdict::Fail(msg) | Verdict::Known { msg, .. } => {
                println!("VIOLATION property={} replay={}", id, path);
                println!("  check={} message={}", cname, msg);
                std::process::exit(1);
            }
        }
    }

    if prop.checks.is_empty() {
        eprintln!("property {} has no checks implemented", id);
        std::process::exit(2);
    }

    // watchdog: a hang is inconclusive (exit 2), never a violation
    let budget = std::env::var("VERIF_WATCHDOG_S")
        .ok()
        .and_then(|s| s.parse::<u64>().ok())
        .unwrap_or(match tier {
            Tier::Quick => 1500,
            Tier::Thorough => 6 * 3600,
        });
    let wid = id.clone();
    std::thread::spawn(move || {
        std::thread::sleep(std::time::Duration::from_secs(budget));
        println!("INCONCLUSIVE property={} watchdog after {}s", wid, budget);
        std::process::exit(2);
    });

    let cx = RunCtx::new(&id, tier, seed);
    let replayed = replay_tier(&cx, &prop.checks);
    for c in &prop.checks {
        c.run(&cx);
    }
    write_evidence(&cx, prop.level, prop.assumptions, replayed, serde_json::json!({}));
    let nviol = cx.violations.lock().unwrap().len();
    let st = cx.stats.lock().unwrap();
    let evals: u64 = st.values().map(|s| s.evaluations).sum();
    let nt: usize = st.values().map(|s| s.nontrivial_keys.len()).sum();
    println!(
        "SUMMARY property={} tier={} seed={} evaluations={} distinct_nontrivial={} replayed={} violations={} wall_s={:.1}",
        id,
        tier.name(),
        seed,
        evals,
        nt,
        replayed,
        nviol,
        cx.started.elapsed().as_secs_f64()
    );
    std::process::exit(if nviol > 0 { 1 } else { 0 });
}
