//! Sub-process worker mode (process-global switches: QE_COMPILE, QE_IPC_CACHE,
//! rayon pool size; crash isolation). Filled in by the properties that need it.
pub fn main(args: &[String]) {
    crate::props::worker_dispatch(args);
}
