//! Reference SQL evaluator — a deliberately naive interpreter over rows of
//! `Value`, written from the SQL standard's rules. It shares no code with the
//! engine. Nested-loop joins, explicit three-valued logic, grouping with
//! NULLs-not-distinct, multiset set operations, lexically scoped CTEs,
//! correlated subqueries by environment chaining, O(n^2) window functions,
//! grouping sets by explicit expansion.
//!
//! Anything outside its dialect is an `Err` (the case is then discarded, never
//! judged).

use crate::data::*;
use crate::sqlast::*;
use std::cmp::Ordering;
use std::collections::BTreeMap;

pub type R<T> = Result<T, String>;

#[derive(Clone, Debug, PartialEq)]
pub struct ColRef {
    pub rel: Option<String>,
    pub name: String,
}

#[derive(Clone, Debug)]
pub struct Rel {
    pub cols: Vec<ColRef>,
    pub rows: Rows,
}

/// Result of a top-level query.
#[derive(Clone, Debug)]
pub struct RefAnswer {
    pub cols: Vec<String>,
    /// final rows (after ORDER BY / OFFSET / LIMIT)
    pub rows: Rows,
    /// when the query has ORDER BY: all rows in sorted order *before*
    /// OFFSET/LIMIT, and for each row the index of its tie group
    pub sorted_full: Option<(Rows, Vec<usize>)>,
    pub limit: Option<u64>,
    pub offset: Option<u64>,
}

/// Evaluation modes. `Standard` is SQL. The two "wrong" modes exist only so a
/// check can ask "would a NULL-blind or duplicate-blind evaluator give another
/// answer?" (non-triviality measurement); they never decide a verdict.
#[derive(Clone, Copy, Debug, PartialEq, Eq)]
pub enum Mode {
    Standard,
    /// UNKNOWN treated as FALSE inside NOT/AND/OR (two-valued logic)
    TwoValued,
    /// bags collapsed to sets at every set operation / DISTINCT-insensitive
    SetSemantics,
}

pub struct Db<'a> {
    pub tables: &'a [Table],
    pub mode: Mode,
    /// facts observed while evaluating (used only to classify failures against
    /// known-finding signatures and for non-triviality rules; never for verdicts)
    pub events: std::cell::RefCell<std::collections::BTreeSet<&'static str>>,
    /// join pairs examined so far / limit (statements beyond it are discarded)
    pub work: std::cell::RefCell<u64>,
    pub budget: u64,
}

struct Scope<'a> {
    cols: &'a [ColRef],
    row: &'a [Value],
    parent: Option<&'a Scope<'a>>,
}

struct Ctes<'a> {
    items: Vec<(String, Rel)>,
    parent: Option<&'a Ctes<'a>>,
}
impl<'a> Ctes<'a> {
    fn find(&self, name: &str) -> Option<&Rel> {
        for (n, r) in self.items.iter().rev() {
            if n.eq_ignore_ascii_case(name) {
                return Some(r);
            }
        }
        self.parent.and_then(|p| p.find(name))
    }
}

/// Per-expression evaluation context.
struct ECtx<'a> {
    /// rows of the current group (same columns as scope.cols) when evaluating
    /// in aggregate context
    group: Option<&'a [Vec<Value>]>,
    /// grouping-set evaluation: grouping expressions absent from the current set
    absent: &'a [Expr],
    /// window values for the current row, keyed by the call's SQL text
    win: Option<&'a BTreeMap<String, Value>>,
}
const NO_ABSENT: &[Expr] = &[];

pub fn truth(v: &Value) -> R<Option<bool>> {
    match v {
        Value::Null => Ok(None),
        Value::Bool(b) => Ok(Some(*b)),
        o => Err(format!("not a boolean: {:?}", o)),
    }
}
fn tv(b: Option<bool>) -> Value {
    match b {
        None => Value::Null,
        Some(x) => Value::Bool(x),
    }
}

/// SQL comparison; None when either side is NULL.
pub fn sql_cmp(a: &Value, b: &Value) -> R<Option<Ordering>> {
    Ok(Some(match (a, b) {
        (Value::Null, _) | (_, Value::Null) => return Ok(None),
        (Value::Int(x), Value::Int(y)) => x.cmp(y),
        (Value::Str(x), Value::Str(y)) => x.as_bytes().cmp(y.as_bytes()),
        (Value::Date(x), Value::Date(y)) => x.cmp(y),
        (Value::Bool(x), Value::Bool(y)) => x.cmp(y),
        (Value::Int(_) | Value::Double(_), Value::Int(_) | Value::Double(_)) => {
            let (x, y) = (a.as_f64().unwrap(), b.as_f64().unwrap());
            match x.partial_cmp(&y) {
                Some(o) => o,
                None => return Err("NaN comparison is engine-defined".into()),
            }
        }
        (x, y) => return Err(format!("cannot compare {:?} with {:?}", x, y)),
    }))
}

/// "not distinct" equality: NULLs equal each other (grouping, DISTINCT, set ops).
pub fn not_distinct(a: &Value, b: &Value) -> bool {
    match (a, b) {
        (Value::Null, Value::Null) => true,
        (Value::Null, _) | (_, Value::Null) => false,
        _ => matches!(sql_cmp(a, b), Ok(Some(Ordering::Equal))),
    }
}
pub fn rows_not_distinct(a: &[Value], b: &[Value]) -> bool {
    a.len() == b.len() && a.iter().zip(b).all(|(x, y)| not_distinct(x, y))
}

fn like_match(s: &[char], p: &[char]) -> bool {
    if p.is_empty() {
        return s.is_empty();
    }
    match p[0] {
        '%' => (0..=s.len()).any(|i| like_match(&s[i..], &p[1..])),
        '_' => !s.is_empty() && like_match(&s[1..], &p[1..]),
        c => !s.is_empty() && s[0] == c && like_match(&s[1..], &p[1..]),
    }
}

fn arith(op: BinOp, a: &Value, b: &Value) -> R<Value> {
    if a.is_null() || b.is_null() {
        return Ok(Value::Null);
    }
    match (a, b) {
        (Value::Int(x), Value::Int(y)) => {
            let r = match op {
                BinOp::Add => x.checked_add(*y),
                BinOp::Sub => x.checked_sub(*y),
                BinOp::Mul => x.checked_mul(*y),
                _ => unreachable!(),
            };
            r.map(Value::Int).ok_or_else(|| "integer overflow is engine-defined".to_string())
        }
        (Value::Int(_) | Value::Double(_), Value::Int(_) | Value::Double(_)) => {
            let (x, y) = (a.as_f64().unwrap(), b.as_f64().unwrap());
            let r = match op {
                BinOp::Add => x + y,
                BinOp::Sub => x - y,
                BinOp::Mul => x * y,
                _ => unreachable!(),
            };
            if r == 0.0 && r.is_sign_negative() {
                // -0.0 ordering/equality is documented engine-defined: not compared
                return Err("negative zero is engine-defined".into());
            }
            Ok(Value::Double(r))
        }
        _ => Err(format!("arithmetic on {:?} and {:?}", a, b)),
    }
}

impl<'a> Scope<'a> {
    fn lookup(&self, rel: &Option<String>, name: &str) -> R<Value> {
        let mut hit: Option<usize> = None;
        for (i, c) in self.cols.iter().enumerate() {
            let name_ok = c.name.eq_ignore_ascii_case(name);
            let rel_ok = match rel {
                None => true,
                Some(r) => c.rel.as_deref().map(|x| x.eq_ignore_ascii_case(r)).unwrap_or(false),
            };
            if name_ok && rel_ok {
                if hit.is_some() {
                    return Err(format!("ambiguous column {:?}.{}", rel, name));
                }
                hit = Some(i);
            }
        }
        match hit {
            Some(i) => Ok(self.row[i].clone()),
            None => match self.parent {
                Some(p) => p.lookup(rel, name),
                None => Err(format!("unknown column {:?}.{}", rel, name)),
            },
        }
    }
}

fn null_row(n: usize) -> Vec<Value> {
    vec![Value::Null; n]
}

impl<'a> Db<'a> {
    pub fn new(tables: &'a [Table]) -> Self {
        Db { tables, mode: Mode::Standard, events: Default::default(), work: Default::default(), budget: 400_000 }
    }
    pub fn with_mode(tables: &'a [Table], mode: Mode) -> Self {
        Db { tables, mode, events: Default::default(), work: Default::default(), budget: 400_000 }
    }
    fn ev(&self, e: &'static str) {
        self.events.borrow_mut().insert(e);
    }
    pub fn saw(&self, e: &str) -> bool {
        self.events.borrow().contains(e)
    }

    pub fn run(&self, q: &Query) -> R<RefAnswer> {
        let root = Ctes { items: vec![], parent: None };
        let (rel, sorted) = self.eval_query(q, None, &root, true)?;
        Ok(RefAnswer {
            cols: rel.cols.iter().map(|c| c.name.clone()).collect(),
            rows: rel.rows,
            sorted_full: sorted,
            limit: q.limit,
            offset: q.offset,
        })
    }

    // -------------------------------------------------------------------
    // queries
    // -------------------------------------------------------------------

    /// Returns the relation and, when ORDER BY is present and `want_sorted`,
    /// the fully sorted pre-limit rows with tie-group ids.
    fn eval_query(
        &self,
        q: &Query,
        outer: Option<&Scope>,
        ctes: &Ctes,
        want_sorted: bool,
    ) -> R<(Rel, Option<(Rows, Vec<usize>)>)> {
        // WITH: each CTE sees the earlier ones of this clause and everything outside
        let mut mine = Ctes { items: vec![], parent: Some(ctes) };
        for c in &q.with {
            let rel = {
                let (mut r, _) = self.eval_query(&c.q, outer, &mine, false)?;
                if let Some(names) = &c.cols {
                    if names.len() != r.cols.len() {
                        return Err("CTE column list arity".into());
                    }
                    for (cr, n) in r.cols.iter_mut().zip(names) {
                        cr.name = n.clone();
                    }
                }
                for cr in r.cols.iter_mut() {
                    cr.rel = Some(c.name.clone());
                }
                r
            };
            mine.items.push((c.name.clone(), rel));
        }
        let ctes = &mine;

        // body, with sort keys computed alongside when the body is a SELECT
        let (mut rel, mut keys): (Rel, Option<Vec<Vec<Value>>>) = match &q.body {
            SetExpr::Select(s) => {
                let (rel, keys) = self.eval_select(s, outer, ctes, &q.order_by)?;
                (rel, if q.order_by.is_empty() { None } else { Some(keys) })
            }
            other => {
                let rel = self.eval_setexpr(other, outer, ctes)?;
                if q.order_by.is_empty() {
                    (rel, None)
                } else {
                    // ORDER BY over a set operation: output names / ordinals only
                    let mut keys = vec![];
                    for row in &rel.rows {
                        let mut kv = vec![];
                        for k in &q.order_by {
                            kv.push(self.output_key(&k.e, &rel.cols, row)?);
                        }
                        keys.push(kv);
                    }
                    (rel, Some(keys))
                }
            }
        };

        let mut sorted_full = None;
        if let Some(keys) = keys.take() {
            let mut idx: Vec<usize> = (0..rel.rows.len()).collect();
            let mut err = None;
            idx.sort_by(|&a, &b| match order_cmp(&keys[a], &keys[b], &q.order_by) {
                Ok(o) => o,
                Err(e) => {
                    err = Some(e);
                    Ordering::Equal
                }
            });
            if let Some(e) = err {
                return Err(e);
            }
            let rows: Rows = idx.iter().map(|&i| rel.rows[i].clone()).collect();
            if want_sorted {
                let mut groups = vec![];
                let mut g = 0usize;
                for (p, &i) in idx.iter().enumerate() {
                    if p > 0 && order_cmp(&keys[idx[p - 1]], &keys[i], &q.order_by)? != Ordering::Equal {
                        g += 1;
                    }
                    groups.push(g);
                }
                sorted_full = Some((rows.clone(), groups));
            }
            rel.rows = rows;
        }
        if let Some(off) = q.offset {
            let off = (off as usize).min(rel.rows.len());
            rel.rows.drain(..off);
        }
        if let Some(l) = q.limit {
            rel.rows.truncate(l as usize);
        }
        Ok((rel, sorted_full))
    }

    fn output_key(&self, e: &Expr, cols: &[ColRef], row: &[Value]) -> R<Value> {
        match e {
            Expr::Lit(Value::Int(i)) if *i >= 1 && (*i as usize) <= cols.len() => Ok(row[*i as usize - 1].clone()),
            Expr::Col { rel: None, name } => {
                let hits: Vec<usize> = cols
                    .iter()
                    .enumerate()
                    .filter(|(_, c)| c.name.eq_ignore_ascii_case(name))
                    .map(|(i, _)| i)
                    .collect();
                if hits.len() == 1 {
                    Ok(row[hits[0]].clone())
                } else {
                    Err(format!("ORDER BY key {} does not name one output column", name))
                }
            }
            _ => Err("ORDER BY over a set operation must use an output column".into()),
        }
    }

    fn eval_setexpr(&self, s: &SetExpr, outer: Option<&Scope>, ctes: &Ctes) -> R<Rel> {
        match s {
            SetExpr::Select(sel) => Ok(self.eval_select(sel, outer, ctes, &[])?.0),
            SetExpr::Nested(q) => Ok(self.eval_query(q, outer, ctes, false)?.0),
            SetExpr::Values(rows) => {
                self.ev("values");
                let empty_cols: Vec<ColRef> = vec![];
                let empty_row: Vec<Value> = vec![];
                let sc = Scope { cols: &empty_cols, row: &empty_row, parent: outer };
                let ec = ECtx { group: None, absent: NO_ABSENT, win: None };
                let mut out = vec![];
                let mut width = None;
                for r in rows {
                    let vals: Vec<Value> = r.iter().map(|e| self.eval(e, &sc, &ec, ctes)).collect::<R<_>>()?;
                    if *width.get_or_insert(vals.len()) != vals.len() {
                        return Err("VALUES rows of different width".into());
                    }
                    out.push(vals);
                }
                let n = width.unwrap_or(0);
                Ok(Rel {
                    cols: (1..=n).map(|i| ColRef { rel: None, name: format!("column{}", i) }).collect(),
                    rows: out,
                })
            }
            SetExpr::Op { op, all, l, r } => {
                let a = self.eval_setexpr(l, outer, ctes)?;
                let b = self.eval_setexpr(r, outer, ctes)?;
                if a.cols.len() != b.cols.len() {
                    return Err("set operation arity mismatch".into());
                }
                let all = *all && self.mode != Mode::SetSemantics;
                if a.rows.iter().chain(b.rows.iter()).any(|r| r.iter().any(|v| v.is_null())) {
                    self.ev("null_in_setop_row");
                }
                if all && *op != SetOp::Union {
                    self.ev("intersect_or_except_all");
                }
                let rows = set_op(*op, all, &a.rows, &b.rows);
                Ok(Rel { cols: a.cols.iter().map(|c| ColRef { rel: None, name: c.name.clone() }).collect(), rows })
            }
        }
    }

    // -------------------------------------------------------------------
    // FROM
    // -------------------------------------------------------------------

    fn eval_from(&self, f: &From, outer: Option<&Scope>, ctes: &Ctes) -> R<Rel> {
        match f {
            From::Table { name, alias } => {
                let q = alias.clone().unwrap_or_else(|| name.clone());
                if let Some(r) = ctes.find(name) {
                    return Ok(Rel {
                        cols: r.cols.iter().map(|c| ColRef { rel: Some(q.clone()), name: c.name.clone() }).collect(),
                        rows: r.rows.clone(),
                    });
                }
                let t = self
                    .tables
                    .iter()
                    .find(|t| t.name.eq_ignore_ascii_case(name))
                    .ok_or_else(|| format!("unknown table {}", name))?;
                Ok(Rel {
                    cols: t.cols.iter().map(|c| ColRef { rel: Some(q.clone()), name: c.name.clone() }).collect(),
                    rows: t.rows.clone(),
                })
            }
            From::Derived { q, alias, cols } => {
                let (r, _) = self.eval_query(q, outer, ctes, false)?;
                let names: Vec<String> = match cols {
                    Some(c) => {
                        if c.len() != r.cols.len() {
                            return Err("derived table column list arity".into());
                        }
                        c.clone()
                    }
                    None => r.cols.iter().map(|c| c.name.clone()).collect(),
                };
                Ok(Rel {
                    cols: names.into_iter().map(|n| ColRef { rel: Some(alias.clone()), name: n }).collect(),
                    rows: r.rows,
                })
            }
            From::Join { l, r, kind, on } => {
                let a = self.eval_from(l, outer, ctes)?;
                let b = self.eval_from(r, outer, ctes)?;
                self.join(&a, &b, *kind, on.as_ref(), outer, ctes)
            }
        }
    }

    fn join(&self, a: &Rel, b: &Rel, kind: JoinKind, on: Option<&Expr>, outer: Option<&Scope>, ctes: &Ctes) -> R<Rel> {
        // work budget: pathological statements are discarded, never judged
        {
            let mut w = self.work.borrow_mut();
            *w += (a.rows.len() as u64).max(1) * (b.rows.len() as u64).max(1);
            if *w > self.budget {
                return Err("reference evaluation budget exceeded".into());
            }
        }
        let mut cols = a.cols.clone();
        cols.extend(b.cols.iter().cloned());
        let ec = ECtx { group: None, absent: NO_ABSENT, win: None };
        let pair_ok =|ra: &Vec<Value>, rb: &Vec<Value>| -> R<bool> {
            match on {
                None => Ok(true),
                Some(e) => {
                    let mut row = ra.clone();
                    row.extend(rb.iter().cloned());
                    let sc = Scope { cols: &cols, row: &row, parent: outer };
                    Ok(truth(&self.eval(e, &sc, &ec, ctes)?)? == Some(true))
                }
            }
        };
        let mut out = vec![];
        let mut b_matched = vec![false; b.rows.len()];
        for ra in &a.rows {
            let mut matched = false;
            for (j, rb) in b.rows.iter().enumerate() {
                if pair_ok(ra, rb)? {
                    matched = true;
                    b_matched[j] = true;
                    match kind {
                        JoinKind::Semi | JoinKind::Anti => {}
                        _ => {
                            let mut row = ra.clone();
                            row.extend(rb.iter().cloned());
                            out.push(row);
                        }
                    }
                }
            }
            match kind {
                JoinKind::Left | JoinKind::Full if !matched => {
                    let mut row = ra.clone();
                    row.extend(null_row(b.cols.len()));
                    out.push(row);
                }
                JoinKind::Semi if matched => out.push(ra.clone()),
                JoinKind::Anti if !matched => out.push(ra.clone()),
                _ => {}
            }
        }
        if matches!(kind, JoinKind::Right | JoinKind::Full) {
            for (j, rb) in b.rows.iter().enumerate() {
                if !b_matched[j] {
                    let mut row = null_row(a.cols.len());
                    row.extend(rb.iter().cloned());
                    out.push(row);
                }
            }
        }
        let cols = match kind {
            JoinKind::Semi | JoinKind::Anti => a.cols.clone(),
            _ => cols,
        };
        Ok(Rel { cols, rows: out })
    }

    // -------------------------------------------------------------------
    // SELECT
    // -------------------------------------------------------------------

    /// Evaluate a SELECT; also returns, per output row, the values of `order`
    /// keys (empty vectors when `order` is empty).
    fn eval_select(&self, s: &Select, outer: Option<&Scope>, ctes: &Ctes, order: &[OrderKey]) -> R<(Rel, Vec<Vec<Value>>)> {
        // 1. FROM (comma = cross product)
        let mut src = Rel { cols: vec![], rows: vec![vec![]] };
        for f in &s.from {
            let r = self.eval_from(f, outer, ctes)?;
            src = self.join(&src, &r, JoinKind::Cross, None, outer, ctes)?;
        }
        let plain = ECtx { group: None, absent: NO_ABSENT, win: None };

        // 2. WHERE
        if let Some(w) = &s.where_ {
            let mut kept = vec![];
            for row in &src.rows {
                let sc = Scope { cols: &src.cols, row, parent: outer };
                if truth(&self.eval(w, &sc, &plain, ctes)?)? == Some(true) {
                    kept.push(row.clone());
                }
            }
            src.rows = kept;
        }

        // output column names
        let mut out_cols: Vec<ColRef> = vec![];
        // expanded item list: (expr, name)
        let mut items: Vec<(Expr, String)> = vec![];
        for it in &s.items {
            match it {
                Item::Star => {
                    for c in &src.cols {
                        items.push((Expr::Col { rel: c.rel.clone(), name: c.name.clone() }, c.name.clone()));
                    }
                }
                Item::QStar(q) => {
                    for c in &src.cols {
                        if c.rel.as_deref().map(|r| r.eq_ignore_ascii_case(q)).unwrap_or(false) {
                            items.push((Expr::Col { rel: c.rel.clone(), name: c.name.clone() }, c.name.clone()));
                        }
                    }
                }
                Item::Expr(e, alias) => {
                    let name = alias.clone().unwrap_or_else(|| match e {
                        Expr::Col { name, .. } => name.clone(),
                        other => other.sql(),
                    });
                    items.push((e.clone(), name));
                }
            }
        }
        for (_, n) in &items {
            out_cols.push(ColRef { rel: None, name: n.clone() });
        }

        let has_agg = items.iter().any(|(e, _)| e.contains_agg())
            || s.having.as_ref().map(|h| h.contains_agg()).unwrap_or(false)
            || order.iter().any(|k| k.e.contains_agg());
        let grouped = has_agg || !matches!(s.group, Group::None) || s.having.is_some();

        // resolve an ORDER BY key against output aliases / ordinals first
        let key_as_output = |k: &Expr| -> Option<usize> {
            match k {
                Expr::Lit(Value::Int(i)) if *i >= 1 && (*i as usize) <= items.len() => Some(*i as usize - 1),
                Expr::Col { rel: None, name } => {
                    // an alias given explicitly wins; else a unique output name
                    let hits: Vec<usize> = items
                        .iter()
                        .enumerate()
                        .filter(|(_, (_, n))| n.eq_ignore_ascii_case(name))
                        .map(|(i, _)| i)
                        .collect();
                    if hits.len() == 1 {
                        Some(hits[0])
                    } else {
                        None
                    }
                }
                _ => None,
            }
        };

        let mut out_rows: Rows = vec![];
        let mut out_keys: Vec<Vec<Value>> = vec![];

        if grouped {
            // grouping sets
            let (all_exprs, sets): (Vec<Expr>, Vec<Vec<Expr>>) = match &s.group {
                Group::None => (vec![], vec![vec![]]),
                Group::By(v) => (v.clone(), vec![v.clone()]),
                Group::Sets(sets) => {
                    let mut all: Vec<Expr> = vec![];
                    for st in sets {
                        for e in st {
                            if !all.contains(e) {
                                all.push(e.clone());
                            }
                        }
                    }
                    (all, sets.clone())
                }
                Group::Rollup(v) => (v.clone(), (0..=v.len()).rev().map(|n| v[..n].to_vec()).collect()),
                Group::Cube(v) => {
                    let n = v.len();
                    let mut sets = vec![];
                    // standard order: all columns first … empty last
                    for mask in (0..(1u32 << n)).rev() {
                        let mut st = vec![];
                        for (i, e) in v.iter().enumerate() {
                            if mask & (1 << (n - 1 - i)) != 0 {
                                st.push(e.clone());
                            }
                        }
                        sets.push(st);
                    }
                    (v.clone(), sets)
                }
            };
            for set in &sets {
                let absent: Vec<Expr> = all_exprs.iter().filter(|e| !set.contains(e)).cloned().collect();
                // form groups
                let mut groups: Vec<(Vec<Value>, Vec<Vec<Value>>)> = vec![];
                for row in &src.rows {
                    let sc = Scope { cols: &src.cols, row, parent: outer };
                    let key: Vec<Value> = set.iter().map(|e| self.eval(e, &sc, &plain, ctes)).collect::<R<_>>()?;
                    if key.iter().any(|v| v.is_null()) {
                        self.ev("null_group_key");
                    }
                    if !key.is_empty() && key.iter().all(|v| v.is_null()) {
                        self.ev("all_null_group_key");
                    }
                    match groups.iter_mut().find(|(k, _)| rows_not_distinct(k, &key)) {
                        Some((_, rows)) => rows.push(row.clone()),
                        None => groups.push((key, vec![row.clone()])),
                    }
                }
                if groups.is_empty() && set.is_empty() {
                    self.ev("global_agg_empty_input");
                    // a global aggregate over no rows still yields one group
                    groups.push((vec![], vec![]));
                }
                for (_, grows) in &groups {
                    let rep = grows.first().cloned().unwrap_or_else(|| null_row(src.cols.len()));
                    let sc = Scope { cols: &src.cols, row: &rep, parent: outer };
                    let gc = ECtx { group: Some(grows), absent: &absent, win: None };
                    if let Some(h) = &s.having {
                        if truth(&self.eval(h, &sc, &gc, ctes)?)? != Some(true) {
                            continue;
                        }
                    }
                    let vals: Vec<Value> = items.iter().map(|(e, _)| self.eval(e, &sc, &gc, ctes)).collect::<R<_>>()?;
                    let mut kv = vec![];
                    for k in order {
                        kv.push(match key_as_output(&k.e) {
                            Some(i) => vals[i].clone(),
                            None => self.eval(&k.e, &sc, &gc, ctes)?,
                        });
                    }
                    out_rows.push(vals);
                    out_keys.push(kv);
                }
            }
        } else {
            // window functions: compute every call over the filtered rows
            let mut calls: Vec<WindowCall> = vec![];
            let mut collect = |e: &Expr| {
                e.walk(&mut |x| {
                    if let Expr::Win(w) = x {
                        if !calls.iter().any(|c| c == &**w) {
                            calls.push((**w).clone());
                        }
                    }
                })
            };
            for (e, _) in &items {
                collect(e);
            }
            for k in order {
                collect(&k.e);
            }
            let mut win_vals: Vec<BTreeMap<String, Value>> = vec![BTreeMap::new(); src.rows.len()];
            for c in &calls {
                let vals = self.eval_window(c, &src, outer, ctes)?;
                let key = Expr::Win(Box::new(c.clone())).sql();
                for (i, v) in vals.into_iter().enumerate() {
                    win_vals[i].insert(key.clone(), v);
                }
            }
            for (ri, row) in src.rows.iter().enumerate() {
                let sc = Scope { cols: &src.cols, row, parent: outer };
                let wc = ECtx { group: None, absent: NO_ABSENT, win: Some(&win_vals[ri]) };
                let vals: Vec<Value> = items.iter().map(|(e, _)| self.eval(e, &sc, &wc, ctes)).collect::<R<_>>()?;
                let mut kv = vec![];
                for k in order {
                    kv.push(match key_as_output(&k.e) {
                        Some(i) => vals[i].clone(),
                        None => self.eval(&k.e, &sc, &wc, ctes)?,
                    });
                }
                out_rows.push(vals);
                out_keys.push(kv);
            }
        }

        if s.distinct {
            let mut rows2: Rows = vec![];
            let mut keys2 = vec![];
            for (r, k) in out_rows.into_iter().zip(out_keys.into_iter()) {
                if r.iter().any(|v| v.is_null()) {
                    self.ev("null_in_distinct_row");
                }
                if !rows2.iter().any(|x: &Vec<Value>| rows_not_distinct(x, &r)) {
                    rows2.push(r);
                    keys2.push(k);
                }
            }
            out_rows = rows2;
            out_keys = keys2;
        }
        Ok((Rel { cols: out_cols, rows: out_rows }, out_keys))
    }

    // -------------------------------------------------------------------
    // expressions
    // -------------------------------------------------------------------

    fn eval(&self, e: &Expr, sc: &Scope, ec: &ECtx, ctes: &Ctes) -> R<Value> {
        // grouping-set evaluation: an absent grouping expression reads as NULL
        if !ec.absent.is_empty() && ec.absent.contains(e) {
            return Ok(Value::Null);
        }
        Ok(match e {
            Expr::Col { rel, name } => sc.lookup(rel, name)?,
            Expr::Lit(v) => v.clone(),
            Expr::Bin(a, op, b) => match op {
                BinOp::And | BinOp::Or => {
                    let x = truth(&self.eval(a, sc, ec, ctes)?)?;
                    let y = truth(&self.eval(b, sc, ec, ctes)?)?;
                    if x.is_none() || y.is_none() {
                        self.ev(if *op == BinOp::And { "and_null_operand" } else { "or_null_operand" });
                    }
                    let (x, y) = if self.mode == Mode::TwoValued {
                        (Some(x == Some(true)), Some(y == Some(true)))
                    } else {
                        (x, y)
                    };
                    tv(match op {
                        BinOp::And => match (x, y) {
                            (Some(false), _) | (_, Some(false)) => Some(false),
                            (Some(true), Some(true)) => Some(true),
                            _ => None,
                        },
                        _ => match (x, y) {
                            (Some(true), _) | (_, Some(true)) => Some(true),
                            (Some(false), Some(false)) => Some(false),
                            _ => None,
                        },
                    })
                }
                BinOp::Add | BinOp::Sub | BinOp::Mul => {
                    arith(*op, &self.eval(a, sc, ec, ctes)?, &self.eval(b, sc, ec, ctes)?)?
                }
                _ => {
                    let o = sql_cmp(&self.eval(a, sc, ec, ctes)?, &self.eval(b, sc, ec, ctes)?)?;
                    tv(o.map(|o| match op {
                        BinOp::Eq => o == Ordering::Equal,
                        BinOp::Ne => o != Ordering::Equal,
                        BinOp::Lt => o == Ordering::Less,
                        BinOp::Le => o != Ordering::Greater,
                        BinOp::Gt => o == Ordering::Greater,
                        BinOp::Ge => o != Ordering::Less,
                        _ => unreachable!(),
                    }))
                }
            },
            Expr::Not(x) => {
                let t = truth(&self.eval(x, sc, ec, ctes)?)?;
                if t.is_none() {
                    self.ev("not_null_operand");
                }
                if self.mode == Mode::TwoValued {
                    tv(Some(t != Some(true)))
                } else {
                    tv(t.map(|b| !b))
                }
            }
            Expr::Neg(x) => match self.eval(x, sc, ec, ctes)? {
                Value::Null => Value::Null,
                Value::Int(i) => Value::Int(i.checked_neg().ok_or("overflow")?),
                Value::Double(d) => {
                    if d == 0.0 {
                        return Err("negative zero is engine-defined".into());
                    }
                    Value::Double(-d)
                }
                o => return Err(format!("negate {:?}", o)),
            },
            Expr::IsNull { e, neg } => Value::Bool(self.eval(e, sc, ec, ctes)?.is_null() != *neg),
            Expr::InList { e, list, neg } => {
                let v = self.eval(e, sc, ec, ctes)?;
                let mut items = vec![];
                for x in list {
                    items.push(self.eval(x, sc, ec, ctes)?);
                }
                if v.is_null() || items.iter().any(|i| i.is_null()) {
                    self.ev("in_list_null");
                }
                tv(in_3vl(&v, &items)?.map(|b| b != *neg))
            }
            Expr::Between { e, lo, hi, neg } => {
                let v = self.eval(e, sc, ec, ctes)?;
                let l = self.eval(lo, sc, ec, ctes)?;
                let h = self.eval(hi, sc, ec, ctes)?;
                if v.is_null() || l.is_null() || h.is_null() {
                    self.ev("between_null");
                }
                let ge = sql_cmp(&v, &l)?.map(|o| o != Ordering::Less);
                let le = sql_cmp(&v, &h)?.map(|o| o != Ordering::Greater);
                let both = match (ge, le) {
                    (Some(false), _) | (_, Some(false)) => Some(false),
                    (Some(true), Some(true)) => Some(true),
                    _ => None,
                };
                tv(both.map(|b| b != *neg))
            }
            Expr::Like { e, pat, neg } => match self.eval(e, sc, ec, ctes)? {
                Value::Null => Value::Null,
                Value::Str(s) => {
                    let sc_: Vec<char> = s.chars().collect();
                    let pc: Vec<char> = pat.chars().collect();
                    Value::Bool(like_match(&sc_, &pc) != *neg)
                }
                o => return Err(format!("LIKE on {:?}", o)),
            },
            Expr::Case { operand, whens, els } => {
                let opv = match operand {
                    Some(o) => {
                        self.ev("case_simple");
                        Some(self.eval(o, sc, ec, ctes)?)
                    }
                    None => None,
                };
                for (w, t) in whens {
                    let hit = match &opv {
                        Some(ov) => {
                            let wv = self.eval(w, sc, ec, ctes)?;
                            sql_cmp(ov, &wv)? == Some(Ordering::Equal)
                        }
                        None => truth(&self.eval(w, sc, ec, ctes)?)? == Some(true),
                    };
                    if hit {
                        return self.eval(t, sc, ec, ctes);
                    }
                }
                match els {
                    Some(x) => self.eval(x, sc, ec, ctes)?,
                    None => Value::Null,
                }
            }
            Expr::Coalesce(v) => {
                for x in v {
                    let r = self.eval(x, sc, ec, ctes)?;
                    if !r.is_null() {
                        return Ok(r);
                    }
                }
                Value::Null
            }
            Expr::NullIf(a, b) => {
                let x = self.eval(a, sc, ec, ctes)?;
                let y = self.eval(b, sc, ec, ctes)?;
                if sql_cmp(&x, &y)? == Some(Ordering::Equal) {
                    Value::Null
                } else {
                    x
                }
            }
            Expr::IsDistinct { a, b, neg } => {
                let x = self.eval(a, sc, ec, ctes)?;
                let y = self.eval(b, sc, ec, ctes)?;
                Value::Bool(!not_distinct(&x, &y) != *neg)
            }
            Expr::Agg { f, arg, distinct } => {
                let rows = ec.group.ok_or("aggregate outside aggregate context")?;
                let inner = ECtx { group: None, absent: NO_ABSENT, win: None };
                let mut vals = vec![];
                for r in rows {
                    let rsc = Scope { cols: sc.cols, row: r, parent: sc.parent };
                    match arg {
                        None => vals.push(Value::Bool(true)), // COUNT(*): any non-null marker
                        Some(a) => vals.push(self.eval(a, &rsc, &inner, ctes)?),
                    }
                }
                if *f != AggF::Count && vals.iter().all(|v| v.is_null()) {
                    // SUM/AVG/MIN/MAX over a group with no non-NULL input (→ NULL)
                    self.ev("agg_no_nonnull_input");
                }
                let out = aggregate(*f, &vals, *distinct)?;
                if *f == AggF::Sum && matches!(out.as_f64(), Some(z) if z == 0.0) {
                    // a SUM over >=1 non-NULL inputs whose value is exactly zero
                    self.ev("sum_is_zero");
                }
                if matches!(f, AggF::Min | AggF::Max) && matches!(out, Value::Str(_)) {
                    self.ev("minmax_string");
                }
                out
            }
            Expr::Grouping(args) => {
                let mut m = 0i64;
                for a in args {
                    m = (m << 1) | if ec.absent.contains(a) { 1 } else { 0 };
                }
                Value::Int(m)
            }
            Expr::Exists { q, neg } => {
                let (r, _) = self.eval_query(q, Some(sc), ctes, false)?;
                Value::Bool(!r.rows.is_empty() != *neg)
            }
            Expr::InSub { e, q, neg } => {
                let v = self.eval(e, sc, ec, ctes)?;
                let (r, _) = self.eval_query(q, Some(sc), ctes, false)?;
                if r.cols.len() != 1 {
                    return Err("IN subquery must return one column".into());
                }
                let items: Vec<Value> = r.rows.into_iter().map(|mut x| x.remove(0)).collect();
                if v.is_null() || items.iter().any(|i| i.is_null()) {
                    self.ev(if *neg { "not_in_subquery_null" } else { "in_subquery_null" });
                }
                tv(in_3vl(&v, &items)?.map(|b| b != *neg))
            }
            Expr::Scalar(q) => {
                let (r, _) = self.eval_query(q, Some(sc), ctes, false)?;
                if r.cols.len() != 1 {
                    return Err("scalar subquery must return one column".into());
                }
                match r.rows.len() {
                    0 => Value::Null,
                    1 => r.rows[0][0].clone(),
                    _ => return Err("scalar subquery returned more than one row".into()),
                }
            }
            Expr::Win(w) => {
                let key = e.sql();
                let _ = w;
                ec.win
                    .and_then(|m| m.get(&key))
                    .cloned()
                    .ok_or_else(|| "window function outside SELECT list".to_string())?
            }
            Expr::Cast(x, t) => cast(&self.eval(x, sc, ec, ctes)?, *t)?,
        })
    }

    // -------------------------------------------------------------------
    // window functions (from the definitions, O(n^2))
    // -------------------------------------------------------------------

    fn eval_window(&self, w: &WindowCall, src: &Rel, outer: Option<&Scope>, ctes: &Ctes) -> R<Vec<Value>> {
        let plain = ECtx { group: None, absent: NO_ABSENT, win: None };
        let n = src.rows.len();
        let ev = |e: &Expr, i: usize| -> R<Value> {
            let sc = Scope { cols: &src.cols, row: &src.rows[i], parent: outer };
            self.eval(e, &sc, &plain, ctes)
        };
        let mut part_keys: Vec<Vec<Value>> = vec![];
        let mut ord_keys: Vec<Vec<Value>> = vec![];
        for i in 0..n {
            part_keys.push(w.partition.iter().map(|e| ev(e, i)).collect::<R<_>>()?);
            ord_keys.push(w.order.iter().map(|k| ev(&k.e, i)).collect::<R<_>>()?);
        }
        // partitions
        let mut parts: Vec<Vec<usize>> = vec![];
        for i in 0..n {
            match parts.iter_mut().find(|p| rows_not_distinct(&part_keys[p[0]], &part_keys[i])) {
                Some(p) => p.push(i),
                None => parts.push(vec![i]),
            }
        }
        let mut out = vec![Value::Null; n];
        for p in parts.iter_mut() {
            let mut err = None;
            p.sort_by(|&a, &b| match order_cmp(&ord_keys[a], &ord_keys[b], &w.order) {
                Ok(o) => o,
                Err(e) => {
                    err = Some(e);
                    Ordering::Equal
                }
            });
            if let Some(e) = err {
                return Err(e);
            }
            let m = p.len();
            let peer = |a: usize, b: usize| -> bool {
                order_cmp(&ord_keys[p[a]], &ord_keys[p[b]], &w.order).map(|o| o == Ordering::Equal).unwrap_or(false)
            };
            // peer group bounds for each position
            let mut first_peer = vec![0usize; m];
            let mut last_peer = vec![0usize; m];
            for i in 0..m {
                let mut f = i;
                while f > 0 && peer(f - 1, i) {
                    f -= 1;
                }
                let mut l = i;
                while l + 1 < m && peer(l + 1, i) {
                    l += 1;
                }
                first_peer[i] = f;
                last_peer[i] = l;
            }
            for i in 0..m {
                let v = match w.f {
                    WinF::RowNumber => Value::Int(i as i64 + 1),
                    WinF::Rank => Value::Int(first_peer[i] as i64 + 1),
                    WinF::DenseRank => {
                        let mut d = 1;
                        for j in 1..=i {
                            if !peer(j - 1, j) {
                                d += 1;
                            }
                        }
                        Value::Int(d)
                    }
                    WinF::PercentRank => {
                        if m <= 1 {
                            Value::Double(0.0)
                        } else {
                            Value::Double(first_peer[i] as f64 / (m - 1) as f64)
                        }
                    }
                    WinF::CumeDist => Value::Double((last_peer[i] + 1) as f64 / m as f64),
                    WinF::Ntile => {
                        let k = match w.args.first().map(|a| ev(a, p[i])).transpose()? {
                            Some(Value::Int(k)) if k >= 1 => k as usize,
                            _ => return Err("NTILE argument".into()),
                        };
                        let base = m / k;
                        let extra = m % k;
                        // first `extra` buckets have base+1 rows
                        let big = extra * (base + 1);
                        let b = if i < big { i / (base + 1) } else { extra + (i - big) / base.max(1) };
                        Value::Int(b as i64 + 1)
                    }
                    WinF::Lag | WinF::Lead => {
                        let off = match w.args.get(1).map(|a| ev(a, p[i])).transpose()? {
                            None => 1i64,
                            Some(Value::Int(k)) if k >= 0 => k,
                            _ => return Err("LAG/LEAD offset".into()),
                        };
                        let j = if w.f == WinF::Lag { i as i64 - off } else { i as i64 + off };
                        if j >= 0 && (j as usize) < m {
                            ev(&w.args[0], p[j as usize])?
                        } else {
                            match w.args.get(2) {
                                Some(d) => ev(d, p[i])?,
                                None => Value::Null,
                            }
                        }
                    }
                    _ => {
                        // frame-based
                        let (lo, hi) = self.frame_bounds(w, i, m, &first_peer, &last_peer, &|j| ord_keys[p[j]].clone())?;
                        // lo..hi exclusive; empty when lo >= hi
                        let idx: Vec<usize> = if lo < hi { (lo..hi).collect() } else { vec![] };
                        match w.f {
                            WinF::FirstValue => match idx.first() {
                                Some(&j) => ev(&w.args[0], p[j])?,
                                None => Value::Null,
                            },
                            WinF::LastValue => match idx.last() {
                                Some(&j) => ev(&w.args[0], p[j])?,
                                None => Value::Null,
                            },
                            WinF::NthValue => {
                                let k = match ev(&w.args[1], p[i])? {
                                    Value::Int(k) if k >= 1 => k as usize,
                                    _ => return Err("NTH_VALUE n".into()),
                                };
                                match idx.get(k - 1) {
                                    Some(&j) => ev(&w.args[0], p[j])?,
                                    None => Value::Null,
                                }
                            }
                            f => {
                                let af = match f {
                                    WinF::Count => AggF::Count,
                                    WinF::Sum => AggF::Sum,
                                    WinF::Avg => AggF::Avg,
                                    WinF::Min => AggF::Min,
                                    WinF::Max => AggF::Max,
                                    _ => unreachable!(),
                                };
                                let mut vals = vec![];
                                for &j in &idx {
                                    vals.push(match w.args.first() {
                                        None => Value::Bool(true),
                                        Some(a) => ev(a, p[j])?,
                                    });
                                }
                                aggregate(af, &vals, false)?
                            }
                        }
                    }
                };
                out[p[i]] = v;
            }
        }
        Ok(out)
    }

    /// Frame as a half-open position range [lo, hi) within the sorted partition.
    fn frame_bounds(
        &self,
        w: &WindowCall,
        i: usize,
        m: usize,
        first_peer: &[usize],
        last_peer: &[usize],
        key_at: &dyn Fn(usize) -> Vec<Value>,
    ) -> R<(usize, usize)> {
        let frame = match &w.frame {
            Some(f) => f.clone(),
            None => {
                if w.order.is_empty() {
                    return Ok((0, m));
                }
                Frame { rows: false, start: Bound::UnboundedPreceding, end: Bound::CurrentRow }
            }
        };
        if frame.rows {
            let lo: i64 = match frame.start {
                Bound::UnboundedPreceding => 0,
                Bound::Preceding(k) => i as i64 - k,
                Bound::CurrentRow => i as i64,
                Bound::Following(k) => i as i64 + k,
                Bound::UnboundedFollowing => return Err("frame start UNBOUNDED FOLLOWING".into()),
            };
            let hi: i64 = match frame.end {
                Bound::UnboundedPreceding => return Err("frame end UNBOUNDED PRECEDING".into()),
                Bound::Preceding(k) => i as i64 - k + 1,
                Bound::CurrentRow => i as i64 + 1,
                Bound::Following(k) => i as i64 + k + 1,
                Bound::UnboundedFollowing => m as i64,
            };
            let lo = lo.clamp(0, m as i64) as usize;
            let hi = hi.clamp(0, m as i64) as usize;
            Ok((lo, hi))
        } else {
            // RANGE: UNBOUNDED / CURRENT ROW use peers; numeric offsets need one numeric key
            let numeric = |b: &Bound| matches!(b, Bound::Preceding(_) | Bound::Following(_));
            if !numeric(&frame.start) && !numeric(&frame.end) {
                let lo = match frame.start {
                    Bound::UnboundedPreceding => 0,
                    Bound::CurrentRow => first_peer[i],
                    _ => return Err("range frame start".into()),
                };
                let hi = match frame.end {
                    Bound::UnboundedFollowing => m,
                    Bound::CurrentRow => last_peer[i] + 1,
                    _ => return Err("range frame end".into()),
                };
                return Ok((lo, hi));
            }
            if w.order.len() != 1 {
                return Err("RANGE offset needs exactly one ORDER BY key".into());
            }
            let desc = w.order[0].desc;
            let cur = key_at(i).remove(0);
            if cur.is_null() {
                // NULL current row: the frame is its peer group for offset bounds
                let lo = match frame.start {
                    Bound::UnboundedPreceding => 0,
                    _ => first_peer[i],
                };
                let hi = match frame.end {
                    Bound::UnboundedFollowing => m,
                    _ => last_peer[i] + 1,
                };
                return Ok((lo, hi));
            }
            let curf = match &cur {
                Value::Int(_) | Value::Double(_) => cur.as_f64().unwrap(),
                Value::Date(d) => *d as f64,
                _ => return Err("RANGE offset over non-numeric key".into()),
            };
            let keyf = |j: usize| -> Option<f64> {
                match key_at(j).remove(0) {
                    Value::Null => None,
                    Value::Date(d) => Some(d as f64),
                    v => v.as_f64(),
                }
            };
            // position j is in frame iff its key k satisfies start_bound <= k <= end_bound
            // in sort direction.
            let sgn = if desc { -1.0 } else { 1.0 };
            let lo_val = match frame.start {
                Bound::UnboundedPreceding => None,
                Bound::Preceding(k) => Some(curf - sgn * k as f64),
                Bound::CurrentRow => Some(curf),
                Bound::Following(k) => Some(curf + sgn * k as f64),
                Bound::UnboundedFollowing => return Err("range start".into()),
            };
            let hi_val = match frame.end {
                Bound::UnboundedFollowing => None,
                Bound::Preceding(k) => Some(curf - sgn * k as f64),
                Bound::CurrentRow => Some(curf),
                Bound::Following(k) => Some(curf + sgn * k as f64),
                Bound::UnboundedPreceding => return Err("range end".into()),
            };
            let mut lo = m;
            let mut hi = 0;
            for j in 0..m {
                let inside = match keyf(j) {
                    None => {
                        // NULL keys belong to the frame only through UNBOUNDED bounds on their side
                        let nulls_first_pos = j < i;
                        (nulls_first_pos && lo_val.is_none()) || (!nulls_first_pos && hi_val.is_none())
                    }
                    Some(k) => {
                        let ge = lo_val.map(|l| (k - l) * sgn >= 0.0).unwrap_or(true);
                        let le = hi_val.map(|h| (h - k) * sgn >= 0.0).unwrap_or(true);
                        ge && le
                    }
                };
                if inside {
                    lo = lo.min(j);
                    hi = hi.max(j + 1);
                }
            }
            if lo >= hi {
                Ok((0, 0))
            } else {
                Ok((lo, hi))
            }
        }
    }
}

pub fn cast(v: &Value, t: ColType) -> R<Value> {
    Ok(match (v, t) {
        (Value::Null, _) => Value::Null,
        (Value::Int(i), ColType::Int | ColType::Int32) => Value::Int(*i),
        (Value::Int(i), ColType::Double) => Value::Double(*i as f64),
        (Value::Double(d), ColType::Double) => Value::Double(*d),
        (Value::Str(s), ColType::Str) => Value::Str(s.clone()),
        (Value::Int(i), ColType::Str) => Value::Str(i.to_string()),
        (Value::Date(d), ColType::Date) => Value::Date(*d),
        (Value::Bool(b), ColType::Bool) => Value::Bool(*b),
        (a, b) => return Err(format!("cast {:?} to {:?} not modelled", a, b)),
    })
}

/// x IN (items) under three-valued logic.
pub fn in_3vl(v: &Value, items: &[Value]) -> R<Option<bool>> {
    if items.is_empty() {
        return Ok(Some(false));
    }
    if v.is_null() {
        return Ok(None);
    }
    let mut saw_null = false;
    for it in items {
        match sql_cmp(v, it)? {
            Some(Ordering::Equal) => return Ok(Some(true)),
            None => saw_null = true,
            _ => {}
        }
    }
    Ok(if saw_null { None } else { Some(false) })
}

/// Aggregate over already-evaluated argument values (NULLs ignored).
pub fn aggregate(f: AggF, vals: &[Value], distinct: bool) -> R<Value> {
    let mut nn: Vec<Value> = vals.iter().filter(|v| !v.is_null()).cloned().collect();
    if distinct {
        let mut d: Vec<Value> = vec![];
        for v in nn {
            if !d.iter().any(|x| not_distinct(x, &v)) {
                d.push(v);
            }
        }
        nn = d;
    }
    Ok(match f {
        AggF::Count => Value::Int(nn.len() as i64),
        AggF::Sum => {
            if nn.is_empty() {
                Value::Null
            } else if nn.iter().all(|v| matches!(v, Value::Int(_))) {
                let mut s: i64 = 0;
                for v in &nn {
                    if let Value::Int(i) = v {
                        s = s.checked_add(*i).ok_or("SUM overflow is engine-defined")?;
                    }
                }
                Value::Int(s)
            } else {
                let mut s = 0.0;
                for v in &nn {
                    s += v.as_f64().ok_or("SUM of non-numeric")?;
                }
                Value::Double(s)
            }
        }
        AggF::Avg => {
            if nn.is_empty() {
                Value::Null
            } else {
                let mut s = 0.0;
                for v in &nn {
                    s += v.as_f64().ok_or("AVG of non-numeric")?;
                }
                Value::Double(s / nn.len() as f64)
            }
        }
        AggF::Min | AggF::Max => {
            let mut best: Option<Value> = None;
            for v in nn {
                best = Some(match best {
                    None => v,
                    Some(b) => {
                        let o = sql_cmp(&v, &b)?.unwrap();
                        if (f == AggF::Min && o == Ordering::Less) || (f == AggF::Max && o == Ordering::Greater) {
                            v
                        } else {
                            b
                        }
                    }
                });
            }
            best.unwrap_or(Value::Null)
        }
    })
}

/// Compare two sort-key vectors under ORDER BY directions and NULL placement
/// (default NULLS LAST in both directions — the engine's documented default).
pub fn order_cmp(a: &[Value], b: &[Value], keys: &[OrderKey]) -> R<Ordering> {
    for (i, k) in keys.iter().enumerate() {
        let nulls_first = k.nulls_first.unwrap_or(false);
        let o = match (a[i].is_null(), b[i].is_null()) {
            (true, true) => Ordering::Equal,
            (true, false) => {
                if nulls_first {
                    Ordering::Less
                } else {
                    Ordering::Greater
                }
            }
            (false, true) => {
                if nulls_first {
                    Ordering::Greater
                } else {
                    Ordering::Less
                }
            }
            (false, false) => {
                let o = sql_cmp(&a[i], &b[i])?.unwrap();
                if k.desc {
                    o.reverse()
                } else {
                    o
                }
            }
        };
        if o != Ordering::Equal {
            return Ok(o);
        }
    }
    Ok(Ordering::Equal)
}

/// Multiset algebra with NULLs not distinct.
pub fn set_op(op: SetOp, all: bool, a: &Rows, b: &Rows) -> Rows {
    // distinct rows of a∪b in first-appearance order with multiplicities
    let mut uniq: Vec<(Vec<Value>, usize, usize)> = vec![];
    for r in a {
        match uniq.iter_mut().find(|(k, _, _)| rows_not_distinct(k, r)) {
            Some(u) => u.1 += 1,
            None => uniq.push((r.clone(), 1, 0)),
        }
    }
    for r in b {
        match uniq.iter_mut().find(|(k, _, _)| rows_not_distinct(k, r)) {
            Some(u) => u.2 += 1,
            None => uniq.push((r.clone(), 0, 1)),
        }
    }
    let mut out = vec![];
    for (row, ca, cb) in uniq {
        let n = match (op, all) {
            (SetOp::Union, true) => ca + cb,
            (SetOp::Union, false) => 1,
            (SetOp::Intersect, true) => ca.min(cb),
            (SetOp::Intersect, false) => (ca > 0 && cb > 0) as usize,
            (SetOp::Except, true) => ca.saturating_sub(cb),
            (SetOp::Except, false) => (ca > 0 && cb == 0) as usize,
        };
        for _ in 0..n {
            out.push(row.clone());
        }
    }
    out
}

// ---------------------------------------------------------------------------
// comparison of an engine answer against the reference
// ---------------------------------------------------------------------------

/// Validity of an engine result against the reference answer (§3.4):
/// unordered → multiset equality; ordered → every tie group of the reference
/// order occupies the same positions (rows inside a tie group in any order);
/// with LIMIT/OFFSET, rows of the tie groups cut by the window boundaries form
/// a sub-multiset of that group.
pub fn compare_answer(reference: &RefAnswer, got: &Rows, tol: f64) -> Result<(), String> {
    match &reference.sorted_full {
        None => {
            if reference.limit.is_some() || reference.offset.is_some() {
                return Err("internal: LIMIT/OFFSET without ORDER BY must be compared by the caller".into());
            }
            if multiset_eq(&reference.rows, got, tol) {
                Ok(())
            } else {
                Err(format!(
                    "row multisets differ\n reference ({} rows):\n{} engine ({} rows):\n{}",
                    reference.rows.len(),
                    fmt_rows(&sorted(&reference.rows), 40),
                    got.len(),
                    fmt_rows(&sorted(got), 40)
                ))
            }
        }
        Some((full, groups)) => {
            let off = reference.offset.unwrap_or(0) as usize;
            let off = off.min(full.len());
            let end = match reference.limit {
                Some(l) => (off + l as usize).min(full.len()),
                None => full.len(),
            };
            if got.len() != end - off {
                return Err(format!(
                    "row count {} but ORDER BY/LIMIT/OFFSET window has {} rows\n reference window:\n{} engine:\n{}",
                    got.len(),
                    end - off,
                    fmt_rows(&full[off..end].to_vec(), 40),
                    fmt_rows(got, 40)
                ));
            }
            // walk tie groups intersecting [off,end)
            let mut p = off;
            while p < end {
                let g = groups[p];
                let mut q = p;
                while q < end && groups[q] == g {
                    q += 1;
                }
                // full extent of group g
                let gs = groups.iter().position(|x| *x == g).unwrap();
                let ge = groups.len() - groups.iter().rev().position(|x| *x == g).unwrap();
                let engine_slice: Rows = got[p - off..q - off].to_vec();
                let group_rows: Rows = full[gs..ge].to_vec();
                if !sub_multiset(&engine_slice, &group_rows, tol) {
                    return Err(format!(
                        "rows at output positions {}..{} are not drawn from the tie group the ORDER BY puts there\n tie group (reference):\n{} engine rows there:\n{} full engine output:\n{}",
                        p - off,
                        q - off,
                        fmt_rows(&group_rows, 20),
                        fmt_rows(&engine_slice, 20),
                        fmt_rows(got, 40)
                    ));
                }
                p = q;
            }
            Ok(())
        }
    }
}

fn sorted(r: &Rows) -> Rows {
    let mut x = r.clone();
    canon_sort(&mut x);
    x
}

/// a ⊆ b as multisets (with tolerance on doubles).
pub fn sub_multiset(a: &Rows, b: &Rows, tol: f64) -> bool {
    let mut used = vec![false; b.len()];
    'outer: for r in a {
        for (j, s) in b.iter().enumerate() {
            if !used[j] && r.len() == s.len() && r.iter().zip(s).all(|(x, y)| value_eq(x, y, tol)) {
                used[j] = true;
                continue 'outer;
            }
        }
        return false;
    }
    true
}
