//! Engine adapters: run SQL through the real engine in various configurations
//! and hand back normalised rows.

use crate::data::*;
use arrow::record_batch::RecordBatch;
use query_engine::optimizer::{Optimizer, OptimizerRule};
use query_engine::physical::operators::{MemoryTable, TableProvider};
use query_engine::physical::{PhysicalOperator, PhysicalPlanner};
use query_engine::planner::LogicalPlan;
use query_engine::{ExecutionConfig, ExecutionContext};
use std::sync::{Arc, OnceLock};

/// One shared multi-thread tokio runtime for the whole process.
pub fn rt() -> &'static tokio::runtime::Runtime {
    static RT: OnceLock<tokio::runtime::Runtime> = OnceLock::new();
    RT.get_or_init(|| {
        tokio::runtime::Builder::new_multi_thread()
            .worker_threads(8)
            .enable_all()
            .thread_stack_size(16 << 20)
            .build()
            .unwrap()
    })
}

pub fn block_on<F: std::future::Future>(f: F) -> F::Output {
    rt().block_on(f)
}

/// Result of running a statement: rows, or the engine's error text.
pub type RunResult = Result<Rows, String>;

pub struct Answer {
    pub rows: Rows,
    pub batches: Vec<RecordBatch>,
    pub schema: arrow::datatypes::SchemaRef,
}

/// `ctx.sql(sql)` → normalised rows. Panics inside the engine are reported as
/// `Err("PANIC: …")` so the caller decides whether that matters.
pub fn run_sql(ctx: &ExecutionContext, sql: &str) -> RunResult {
    run_sql_full(ctx, sql).map(|a| a.rows)
}

pub fn run_sql_full(ctx: &ExecutionContext, sql: &str) -> Result<Answer, String> {
    let r = std::panic::catch_unwind(std::panic::AssertUnwindSafe(|| block_on(ctx.sql(sql))));
    match r {
        Ok(Ok(q)) => Ok(Answer {
            rows: batches_to_rows(&q.batches),
            batches: q.batches,
            schema: q.schema,
        }),
        Ok(Err(e)) => Err(format!("{}", e)),
        Err(p) => Err(format!("PANIC: {}", panic_text(p))),
    }
}

pub fn panic_text(p: Box<dyn std::any::Any + Send>) -> String {
    if let Some(s) = p.downcast_ref::<&str>() {
        s.to_string()
    } else if let Some(s) = p.downcast_ref::<String>() {
        s.clone()
    } else {
        "non-string panic payload".into()
    }
}

pub fn is_panic(e: &str) -> bool {
    e.starts_with("PANIC: ")
}

/// Register a table as an in-memory table split at `cuts`.
pub fn register_mem(ctx: &mut ExecutionContext, t: &Table, cuts: &[usize]) {
    let batches = t.batches(cuts);
    ctx.register_table(t.name.clone(), t.schema(), batches);
}

/// Register as Parquet under `dir/<table>/…`.
pub fn register_parquet(
    ctx: &mut ExecutionContext,
    t: &Table,
    dir: &std::path::Path,
    layout: &ParquetLayout,
) -> Result<(), String> {
    let d = dir.join(&t.name);
    write_parquet(t, &d, layout);
    ctx.register_parquet(t.name.clone(), &d).map_err(|e| e.to_string())
}

pub fn mem_ctx(tables: &[Table]) -> ExecutionContext {
    let mut ctx = ExecutionContext::new();
    for t in tables {
        register_mem(&mut ctx, t, &[]);
    }
    ctx
}

pub fn mem_provider(t: &Table, cuts: &[usize]) -> Arc<dyn TableProvider> {
    Arc::new(MemoryTable::new(t.schema(), t.batches(cuts)))
}

/// Lower and execute an already-built logical plan with a harness-owned
/// physical planner that has the context's providers registered.
pub fn execute_logical(ctx: &ExecutionContext, plan: &LogicalPlan) -> RunResult {
    let r = std::panic::catch_unwind(std::panic::AssertUnwindSafe(|| {
        let mut planner = PhysicalPlanner::with_config(ctx.memory_pool().clone(), ctx.config().clone());
        for name in ctx.table_names() {
            if let Some(p) = ctx.table_provider(&name) {
                planner.register_table(name.clone(), p);
            }
        }
        planner.enable_subquery_execution();
        let physical = planner.create_physical_plan(plan).map_err(|e| e.to_string())?;
        execute_physical(&physical)
    }));
    match r {
        Ok(x) => x,
        Err(p) => Err(format!("PANIC: {}", panic_text(p))),
    }
}

pub fn execute_physical(physical: &Arc<dyn PhysicalOperator>) -> RunResult {
    use futures::TryStreamExt;
    let n = physical.output_partitions().max(1);
    let mut rows = vec![];
    for p in 0..n {
        let batches: Vec<RecordBatch> = block_on(async {
            let s = physical.execute(p).await.map_err(|e| e.to_string())?;
            s.try_collect::<Vec<_>>().await.map_err(|e| e.to_string())
        })?;
        rows.extend(batches_to_rows(&batches));
    }
    Ok(rows)
}

/// Execute the bound (unoptimized) plan.
pub fn run_unoptimized(ctx: &ExecutionContext, sql: &str) -> RunResult {
    let plan = std::panic::catch_unwind(std::panic::AssertUnwindSafe(|| ctx.logical_plan(sql)))
        .map_err(|p| format!("PANIC: {}", panic_text(p)))?
        .map_err(|e| e.to_string())?;
    execute_logical(ctx, &plan)
}

/// Optimize with a custom rule list (statistics-aware when `stats` given).
pub fn run_with_rules(ctx: &ExecutionContext, sql: &str, rules: Vec<Arc<dyn OptimizerRule>>) -> RunResult {
    let plan = ctx.logical_plan(sql).map_err(|e| e.to_string())?;
    let mut stats = std::collections::HashMap::new();
    for name in ctx.table_names() {
        if let Some(p) = ctx.table_provider(&name) {
            if let Some(s) = p.statistics() {
                stats.insert(name.clone(), s);
            }
        }
    }
    let opt = Optimizer::with_rules(rules).with_table_statistics(stats);
    let optimized = std::panic::catch_unwind(std::panic::AssertUnwindSafe(|| opt.optimize(plan)))
        .map_err(|p| format!("PANIC: {}", panic_text(p)))?
        .map_err(|e| e.to_string())?;
    execute_logical(ctx, &optimized)
}

pub fn config_with_limit(bytes: usize, spill_dir: &std::path::Path) -> ExecutionConfig {
    ExecutionConfig::default()
        .with_memory_limit(bytes)
        .with_spill_path(spill_dir.to_path_buf())
}
