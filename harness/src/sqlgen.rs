//! SQL statement generator.
//!
//! Statements are built from a *choice tape* (`Vec<u16>` produced by a proptest
//! strategy): every decision consumes one selector, mapped monotonically, with
//! 0 / exhausted tape meaning "the simplest choice". All randomness therefore
//! comes from proptest, shrinking the tape shrinks the statement, and the
//! generated `Query` AST (not the tape) is what a replay file stores.
//!
//! Statements are well-typed and name-resolvable by construction against the
//! generated schema. Engine-defined semantics are kept out by construction:
//! no integer division/modulo, small operand magnitudes (no overflow), no
//! NaN/-0.0, doubles are multiples of 0.25 (sums exact in any order).

use crate::data::*;
use crate::sqlast::*;
use proptest::prelude::*;
use serde::{Deserialize, Serialize};

pub struct Tape {
    data: Vec<u16>,
    pos: usize,
}
impl Tape {
    pub fn new(data: Vec<u16>) -> Self {
        Tape { data, pos: 0 }
    }
    fn next(&mut self) -> u16 {
        let v = self.data.get(self.pos).copied().unwrap_or(0);
        self.pos += 1;
        v
    }
    /// uniform-ish index in 0..n, monotone in the selector (0 → 0)
    pub fn pick(&mut self, n: usize) -> usize {
        if n <= 1 {
            let _ = self.next();
            return 0;
        }
        ((self.next() as usize) * n) >> 16
    }
    /// true with probability pct/100; exhausted tape → false
    pub fn chance(&mut self, pct: u32) -> bool {
        let v = self.next() as u32;
        v >= 65536 - (65536 * pct.min(100)) / 100 && pct > 0
    }
    pub fn exhausted(&self) -> bool {
        self.pos >= self.data.len()
    }
}

/// Which statement features the generator may use.
#[derive(Clone, Debug)]
pub struct Profile {
    pub max_from: usize,
    pub explicit_joins: bool,
    pub outer_joins: bool,
    pub semi_anti_joins: bool,
    pub cross_joins: bool,
    pub residual_on: bool,
    pub group_by: bool,
    pub having: bool,
    pub distinct: bool,
    pub count_distinct: bool,
    pub order_by: bool,
    pub limit: bool,
    pub set_ops: bool,
    pub set_all: bool,
    pub subqueries: bool,
    pub correlated: bool,
    pub not_in_subquery: bool,
    pub derived: bool,
    pub ctes: bool,
    pub windows: bool,
    pub grouping_sets: bool,
    pub case_simple: bool,
    pub in_list_null: bool,
    pub is_distinct_from: bool,
    pub like: bool,
    pub bool_literals: bool,
    pub expr_depth: u32,
    pub nulls_order: bool,
    /// `FROM a, b WHERE …` style joins
    pub comma_joins: bool,
    /// AND / OR / NOT connectives in predicates
    pub logic: bool,
    /// generate tables without NULLs
    pub no_nulls: bool,
}
impl Profile {
    pub fn full() -> Self {
        Profile {
            max_from: 3,
            explicit_joins: true,
            outer_joins: true,
            semi_anti_joins: false,
            cross_joins: true,
            residual_on: true,
            group_by: true,
            having: true,
            distinct: true,
            count_distinct: true,
            order_by: true,
            limit: true,
            set_ops: true,
            set_all: true,
            subqueries: true,
            correlated: true,
            not_in_subquery: true,
            derived: true,
            ctes: true,
            windows: false,
            grouping_sets: false,
            case_simple: true,
            in_list_null: true,
            is_distinct_from: true,
            like: true,
            bool_literals: true,
            expr_depth: 3,
            nulls_order: true,
            comma_joins: true,
            logic: true,
            no_nulls: false,
        }
    }
    /// "minimal+group_by+having" / "full-set_ops-ctes" style specs (development
    /// surveys and focused profiles).
    pub fn from_spec(spec: &str) -> Self {
        let mut p = if spec.starts_with("full") { Profile::full() } else { Profile::minimal() };
        let mut on = true;
        let mut tok = String::new();
        let body: String = spec.chars().skip_while(|c| c.is_alphabetic() || *c == '_').collect();
        for ch in body.chars().chain(std::iter::once('+')) {
            if ch == '+' || ch == '-' {
                if !tok.is_empty() {
                    p.set(&tok, on);
                    tok.clear();
                }
                on = ch == '+';
            } else {
                tok.push(ch);
            }
        }
        p
    }
    pub fn set(&mut self, name: &str, v: bool) {
        match name {
            "joins2" => self.max_from = if v { 2 } else { 1 },
            "joins3" => self.max_from = if v { 3 } else { 1 },
            "explicit_joins" => self.explicit_joins = v,
            "outer_joins" => self.outer_joins = v,
            "semi_anti_joins" => self.semi_anti_joins = v,
            "cross_joins" => self.cross_joins = v,
            "residual_on" => self.residual_on = v,
            "group_by" => self.group_by = v,
            "having" => self.having = v,
            "distinct" => self.distinct = v,
            "count_distinct" => self.count_distinct = v,
            "order_by" => self.order_by = v,
            "limit" => self.limit = v,
            "set_ops" => self.set_ops = v,
            "set_all" => self.set_all = v,
            "subqueries" => self.subqueries = v,
            "correlated" => self.correlated = v,
            "not_in_subquery" => self.not_in_subquery = v,
            "derived" => self.derived = v,
            "ctes" => self.ctes = v,
            "windows" => self.windows = v,
            "grouping_sets" => self.grouping_sets = v,
            "case_simple" => self.case_simple = v,
            "in_list_null" => self.in_list_null = v,
            "is_distinct_from" => self.is_distinct_from = v,
            "like" => self.like = v,
            "bool_literals" => self.bool_literals = v,
            "nulls_order" => self.nulls_order = v,
            "deep" => self.expr_depth = if v { 3 } else { 1 },
            "comma_joins" => self.comma_joins = v,
            "no_nulls" => self.no_nulls = v,
            "logic" => self.logic = v,
            other => panic!("unknown profile feature {}", other),
        }
    }
    pub fn minimal() -> Self {
        Profile {
            max_from: 1,
            explicit_joins: false,
            outer_joins: false,
            semi_anti_joins: false,
            cross_joins: false,
            residual_on: false,
            group_by: false,
            having: false,
            distinct: false,
            count_distinct: false,
            order_by: false,
            limit: false,
            set_ops: false,
            set_all: false,
            subqueries: false,
            correlated: false,
            not_in_subquery: false,
            derived: false,
            ctes: false,
            windows: false,
            grouping_sets: false,
            case_simple: false,
            in_list_null: false,
            is_distinct_from: false,
            like: false,
            bool_literals: false,
            expr_depth: 2,
            nulls_order: false,
            comma_joins: false,
            logic: false,
            no_nulls: false,
        }
    }
}

#[derive(Clone, Debug)]
pub struct ScopeCol {
    pub rel: String,
    pub name: String,
    pub ty: ColType,
}

/// What is nameable at some point of a statement.
#[derive(Clone, Debug, Default)]
pub struct GenScope {
    pub cols: Vec<ScopeCol>,
    /// columns of enclosing queries (for correlation)
    pub outer: Vec<ScopeCol>,
}

#[derive(Clone, Debug)]
pub struct Catalog {
    /// (name, columns) — base tables and CTEs currently visible
    pub rels: Vec<(String, Vec<(String, ColType)>)>,
}
impl Catalog {
    pub fn of(tables: &[Table]) -> Self {
        Catalog {
            rels: tables
                .iter()
                .map(|t| (t.name.clone(), t.cols.iter().map(|c| (c.name.clone(), c.ty)).collect()))
                .collect(),
        }
    }
}

pub struct Gen<'a> {
    pub t: Tape,
    pub p: &'a Profile,
    alias_seq: usize,
    /// >0 while generating a derived-table / CTE body
    inner: u32,
    /// feature labels collected while generating
    pub features: Vec<&'static str>,
}

fn same_family(a: ColType, b: ColType) -> bool {
    a == b || (a.is_int() && b.is_int())
}

impl<'a> Gen<'a> {
    pub fn new(tape: Vec<u16>, p: &'a Profile) -> Self {
        Gen { t: Tape::new(tape), p, alias_seq: 0, inner: 0, features: vec![] }
    }
    fn feat(&mut self, f: &'static str) {
        if !self.features.contains(&f) {
            self.features.push(f);
        }
    }
    fn fresh(&mut self, prefix: &str) -> String {
        self.alias_seq += 1;
        format!("{}{}", prefix, self.alias_seq)
    }

    // ------------------------------------------------------------------
    // literals
    // ------------------------------------------------------------------
    pub fn literal(&mut self, ty: ColType) -> Expr {
        Expr::Lit(match ty {
            ColType::Int | ColType::Int32 => Value::Int(self.t.pick(6) as i64),
            ColType::Double => Value::Double((self.t.pick(17) as i64 - 8) as f64 * 0.25),
            ColType::Str => Value::Str(["a", "", "ab", "b", "B", "a%", "é"][self.t.pick(7)].to_string()),
            ColType::Date => Value::Date(10957 + self.t.pick(4) as i32 * 15),
            ColType::Bool => Value::Bool(self.t.pick(2) == 1),
        })
    }

    fn cols_of<'s>(&self, sc: &'s GenScope, ty: ColType, with_outer: bool) -> Vec<&'s ScopeCol> {
        let mut v: Vec<&ScopeCol> = sc.cols.iter().filter(|c| same_family(c.ty, ty)).collect();
        if with_outer {
            v.extend(sc.outer.iter().filter(|c| same_family(c.ty, ty)));
        }
        v
    }

    fn col_expr(c: &ScopeCol) -> Expr {
        Expr::Col { rel: Some(c.rel.clone()), name: c.name.clone() }
    }

    /// A column (preferred) or literal of the type.
    pub fn leaf(&mut self, sc: &GenScope, ty: ColType, corr: bool) -> Expr {
        let local = self.cols_of(sc, ty, false);
        let outer: Vec<&ScopeCol> = if corr { sc.outer.iter().filter(|c| same_family(c.ty, ty)).collect() } else { vec![] };
        // 0 → local column when there is one
        let k = self.t.pick(10);
        if !outer.is_empty() && k == 9 {
            let i = self.t.pick(outer.len());
            self.feat("correlated_ref");
            return Self::col_expr(outer[i]);
        }
        if !local.is_empty() && k < 7 {
            let i = self.t.pick(local.len());
            return Self::col_expr(local[i]);
        }
        self.literal(ty)
    }

    // ------------------------------------------------------------------
    // typed expressions
    // ------------------------------------------------------------------
    pub fn expr(&mut self, sc: &GenScope, ty: ColType, depth: u32, corr: bool) -> Expr {
        if depth == 0 {
            return self.leaf(sc, ty, corr);
        }
        match ty {
            ColType::Bool => self.bool_expr(sc, depth, corr),
            ColType::Int | ColType::Int32 | ColType::Double => {
                match self.t.pick(8) {
                    0 | 1 | 2 => self.leaf(sc, ty, corr),
                    3 => {
                        let op = [BinOp::Add, BinOp::Sub, BinOp::Mul][self.t.pick(3)];
                        self.feat("arith");
                        // keep magnitudes tiny: one side is a leaf
                        let a = self.expr(sc, ty, depth - 1, corr);
                        let b = self.leaf(sc, ty, corr);
                        Expr::bin(a, op, b)
                    }
                    4 => self.case_expr(sc, ty, depth, corr),
                    5 => {
                        self.feat("coalesce");
                        let a = self.expr(sc, ty, depth - 1, corr);
                        let b = self.leaf(sc, ty, corr);
                        Expr::Coalesce(vec![a, b])
                    }
                    6 => {
                        self.feat("nullif");
                        let a = self.leaf(sc, ty, corr);
                        let b = self.leaf(sc, ty, corr);
                        Expr::NullIf(Box::new(a), Box::new(b))
                    }
                    _ => {
                        if ty == ColType::Double || !self.p.subqueries {
                            Expr::Neg(Box::new(self.leaf(sc, ty, corr)))
                        } else {
                            self.leaf(sc, ty, corr)
                        }
                    }
                }
            }
            ColType::Str | ColType::Date => match self.t.pick(6) {
                0 | 1 | 2 | 3 => self.leaf(sc, ty, corr),
                4 => self.case_expr(sc, ty, depth, corr),
                _ => {
                    self.feat("coalesce");
                    let a = self.leaf(sc, ty, corr);
                    let b = self.leaf(sc, ty, corr);
                    Expr::Coalesce(vec![a, b])
                }
            },
        }
    }

    fn case_expr(&mut self, sc: &GenScope, ty: ColType, depth: u32, corr: bool) -> Expr {
        self.feat("case");
        if self.p.case_simple && self.t.chance(30) {
            self.feat("case_simple");
            let oty = self.pick_type(sc);
            let operand = self.leaf(sc, oty, corr);
            let w = self.literal(oty);
            let t = self.leaf(sc, ty, corr);
            let e = if self.t.chance(60) { Some(Box::new(self.leaf(sc, ty, corr))) } else { None };
            return Expr::Case { operand: Some(Box::new(operand)), whens: vec![(w, t)], els: e };
        }
        let n = 1 + self.t.pick(2);
        let mut whens = vec![];
        for _ in 0..n {
            let w = self.bool_expr(sc, depth - 1, corr);
            let t = self.leaf(sc, ty, corr);
            whens.push((w, t));
        }
        let e = if self.t.chance(60) { Some(Box::new(self.leaf(sc, ty, corr))) } else { None };
        Expr::Case { operand: None, whens, els: e }
    }

    /// type of some column in scope (or Int)
    fn pick_type(&mut self, sc: &GenScope) -> ColType {
        if sc.cols.is_empty() {
            return ColType::Int;
        }
        let i = self.t.pick(sc.cols.len());
        let t = sc.cols[i].ty;
        if t == ColType::Int32 {
            ColType::Int
        } else {
            t
        }
    }

    pub fn comparison(&mut self, sc: &GenScope, depth: u32, corr: bool) -> Expr {
        let ty = self.pick_type(sc);
        let ty = if ty == ColType::Bool { ColType::Int } else { ty };
        let op = [BinOp::Eq, BinOp::Lt, BinOp::Ne, BinOp::Le, BinOp::Gt, BinOp::Ge][self.t.pick(6)];
        let a = self.expr(sc, ty, depth.saturating_sub(1).min(1), corr);
        let b = self.expr(sc, ty, depth.saturating_sub(1).min(1), corr);
        Expr::bin(a, op, b)
    }

    pub fn bool_expr(&mut self, sc: &GenScope, depth: u32, corr: bool) -> Expr {
        if depth == 0 {
            return self.comparison(sc, 0, corr);
        }
        match self.t.pick(14) {
            0 | 1 | 2 => self.comparison(sc, depth, corr),
            3 if self.p.logic => {
                self.feat("and");
                let a = self.bool_expr(sc, depth - 1, corr);
                let b = self.bool_expr(sc, depth - 1, corr);
                Expr::bin(a, BinOp::And, b)
            }
            4 if self.p.logic => {
                self.feat("or");
                let a = self.bool_expr(sc, depth - 1, corr);
                let b = self.bool_expr(sc, depth - 1, corr);
                Expr::bin(a, BinOp::Or, b)
            }
            5 if self.p.logic => {
                self.feat("not");
                Expr::Not(Box::new(self.bool_expr(sc, depth - 1, corr)))
            }
            6 => {
                self.feat("is_null");
                let ty = self.pick_type(sc);
                let e = self.leaf(sc, ty, corr);
                Expr::IsNull { e: Box::new(e), neg: self.t.chance(50) }
            }
            7 => {
                self.feat("in_list");
                let ty = self.pick_type(sc);
                let ty = if ty == ColType::Bool { ColType::Int } else { ty };
                let e = self.leaf(sc, ty, corr);
                let n = 1 + self.t.pick(3);
                let mut list: Vec<Expr> = (0..n).map(|_| self.literal(ty)).collect();
                if self.p.in_list_null && self.t.chance(25) {
                    self.feat("in_list_null");
                    list.push(Expr::Lit(Value::Null));
                }
                Expr::InList { e: Box::new(e), list, neg: self.t.chance(40) }
            }
            8 => {
                self.feat("between");
                let ty = self.pick_type(sc);
                let ty = if ty == ColType::Bool { ColType::Int } else { ty };
                let e = self.leaf(sc, ty, corr);
                let lo = self.leaf(sc, ty, corr);
                let hi = self.leaf(sc, ty, corr);
                Expr::Between { e: Box::new(e), lo: Box::new(lo), hi: Box::new(hi), neg: self.t.chance(30) }
            }
            9 if self.p.like => {
                let strs = self.cols_of(sc, ColType::Str, corr);
                if strs.is_empty() {
                    return self.comparison(sc, depth, corr);
                }
                self.feat("like");
                let i = self.t.pick(strs.len());
                let e = Self::col_expr(strs[i]);
                // every pattern class over the tiny string domain: prefix, suffix, infix,
                // exact, single-char, and interior wildcards whose prefix and suffix can
                // overlap in a short string ('a' vs 'a%a', 'ab' vs 'ab%b')
                const PATS: [&str; 20] = [
                    "a%", "%", "_", "%b", "a_", "", "%a%", "ab", "a%a", "a%b", "ab%b", "a%ab", "%a%b", "_%", "%_", "_%_", "a_b", "B%", "é%", "a%%",
                ];
                let pat = PATS[self.t.pick(PATS.len())].to_string();
                Expr::Like { e: Box::new(e), pat, neg: self.t.chance(30) }
            }
            10 if self.p.is_distinct_from => {
                self.feat("is_distinct_from");
                let ty = self.pick_type(sc);
                let a = self.leaf(sc, ty, corr);
                let b = self.leaf(sc, ty, corr);
                Expr::IsDistinct { a: Box::new(a), b: Box::new(b), neg: self.t.chance(50) }
            }
            11 => {
                let bools = self.cols_of(sc, ColType::Bool, corr);
                if bools.is_empty() {
                    if self.p.bool_literals && self.t.chance(30) {
                        self.feat("bool_literal");
                        return if self.t.chance(30) { Expr::Lit(Value::Null) } else { self.literal(ColType::Bool) };
                    }
                    return self.comparison(sc, depth, corr);
                }
                let i = self.t.pick(bools.len());
                Self::col_expr(bools[i])
            }
            _ => self.comparison(sc, depth, corr),
        }
    }

    // ------------------------------------------------------------------
    // FROM
    // ------------------------------------------------------------------

    /// One base relation with a fresh alias; returns (From, its columns)
    fn base(&mut self, cat: &Catalog) -> (From, Vec<ScopeCol>) {
        let i = self.t.pick(cat.rels.len());
        let (name, cols) = &cat.rels[i];
        let alias = self.fresh("t");
        let sc = cols.iter().map(|(n, t)| ScopeCol { rel: alias.clone(), name: n.clone(), ty: *t }).collect();
        (From::Table { name: name.clone(), alias: Some(alias) }, sc)
    }

    /// equality between a column of `l` and a type-compatible column of `r`
    fn equi(&mut self, l: &[ScopeCol], r: &[ScopeCol]) -> Option<Expr> {
        let mut pairs = vec![];
        for a in l {
            for b in r {
                if a.ty == b.ty && a.ty != ColType::Bool && a.ty != ColType::Double {
                    pairs.push((a, b));
                }
            }
        }
        if pairs.is_empty() {
            return None;
        }
        let i = self.t.pick(pairs.len());
        Some(Expr::eq(Self::col_expr(pairs[i].0), Self::col_expr(pairs[i].1)))
    }

    pub fn from_clause(&mut self, cat: &Catalog, outer: &[ScopeCol]) -> (Vec<From>, GenScope, Option<Expr>) {
        self.from_clause_n(cat, outer, self.p.max_from)
    }

    pub fn from_clause_n(&mut self, cat: &Catalog, outer: &[ScopeCol], max_from: usize) -> (Vec<From>, GenScope, Option<Expr>) {
        let n = 1 + self.t.pick(max_from.max(1));
        let (mut cur, mut cols) = self.base(cat);
        let mut comma: Vec<From> = vec![];
        let mut where_eq: Vec<Expr> = vec![];
        for _ in 1..n {
            let (rf, rcols) = self.base(cat);
            let explicit = self.p.explicit_joins && (!self.p.comma_joins || self.t.chance(70));
            if explicit {
                let mut kinds = vec![JoinKind::Inner];
                if self.p.outer_joins {
                    kinds.extend([JoinKind::Left, JoinKind::Right, JoinKind::Full]);
                }
                if self.p.cross_joins {
                    kinds.push(JoinKind::Cross);
                }
                if self.p.semi_anti_joins {
                    kinds.extend([JoinKind::Semi, JoinKind::Anti]);
                }
                let kind = kinds[self.t.pick(kinds.len())];
                self.feat(match kind {
                    JoinKind::Inner => "join_inner",
                    JoinKind::Left => "join_left",
                    JoinKind::Right => "join_right",
                    JoinKind::Full => "join_full",
                    JoinKind::Cross => "join_cross",
                    JoinKind::Semi => "join_semi",
                    JoinKind::Anti => "join_anti",
                });
                let on = if kind == JoinKind::Cross {
                    None
                } else {
                    let mut both = cols.clone();
                    both.extend(rcols.iter().cloned());
                    let jsc = GenScope { cols: both, outer: vec![] };
                    let mut on = match self.equi(&cols, &rcols) {
                        Some(e) => e,
                        None => self.comparison(&jsc, 0, false),
                    };
                    if self.p.residual_on && self.t.chance(35) {
                        self.feat("join_residual");
                        let extra = self.comparison(&jsc, 0, false);
                        on = Expr::and(on, extra);
                    }
                    Some(on)
                };
                cur = From::Join { l: Box::new(cur), r: Box::new(rf), kind, on };
                if !matches!(kind, JoinKind::Semi | JoinKind::Anti) {
                    cols.extend(rcols);
                }
            } else {
                self.feat("join_comma");
                if let Some(e) = self.equi(&cols, &rcols) {
                    if self.t.chance(85) {
                        where_eq.push(e);
                    }
                }
                comma.push(std::mem::replace(&mut cur, rf));
                cols.extend(rcols);
            }
        }
        comma.push(cur);
        let w = where_eq.into_iter().reduce(Expr::and);
        (comma, GenScope { cols, outer: outer.to_vec() }, w)
    }

    // ------------------------------------------------------------------
    // subqueries
    // ------------------------------------------------------------------
    fn subquery_pred(&mut self, cat: &Catalog, sc: &GenScope, depth: u32) -> Expr {
        let mut outer = sc.cols.clone();
        outer.extend(sc.outer.iter().cloned());
        let corr = self.p.correlated && self.t.chance(60);
        let (from, mut isc, w0) = self.from_clause_n(cat, &outer, 1);
        if !corr {
            isc.outer.clear();
        }
        let mut conds: Vec<Expr> = w0.into_iter().collect();
        if corr {
            // correlation predicate: inner col = outer col
            let o: Vec<ScopeCol> = isc.outer.clone();
            if let Some(e) = self.equi(&isc.cols.clone(), &o) {
                self.feat("correlated");
                conds.push(e);
            }
        }
        if self.t.chance(50) {
            conds.push(self.bool_expr(&isc, depth.saturating_sub(1).min(1), corr));
        }
        let where_ = conds.into_iter().reduce(Expr::and);
        match self.t.pick(4) {
            0 => {
                self.feat("exists");
                let sel = Select::simple(vec![Item::Expr(Expr::int(1), None)], from, where_);
                Expr::Exists { q: Box::new(Query::select(sel)), neg: self.t.chance(45) }
            }
            1 | 2 => {
                // x [NOT] IN (SELECT col …)
                let ty = {
                    let t = self.pick_type(&isc);
                    if t == ColType::Bool || t == ColType::Double {
                        ColType::Int
                    } else {
                        t
                    }
                };
                let inner = self.leaf(&GenScope { cols: isc.cols.clone(), outer: vec![] }, ty, false);
                let e = self.leaf(&GenScope { cols: sc.cols.clone(), outer: vec![] }, ty, false);
                let neg = self.p.not_in_subquery && self.t.chance(45);
                self.feat(if neg { "not_in_subquery" } else { "in_subquery" });
                let sel = Select::simple(vec![Item::Expr(inner, None)], from, where_);
                Expr::InSub { e: Box::new(e), q: Box::new(Query::select(sel)), neg }
            }
            _ => {
                // scalar aggregate subquery compared to an outer expression
                self.feat("scalar_subquery");
                let nums: Vec<ScopeCol> = isc.cols.iter().filter(|c| c.ty.is_int()).cloned().collect();
                let (agg, ty) = if nums.is_empty() || self.t.chance(30) {
                    (Expr::count_star(), ColType::Int)
                } else {
                    let i = self.t.pick(nums.len());
                    let f = [AggF::Max, AggF::Min, AggF::Sum, AggF::Count][self.t.pick(4)];
                    (Expr::agg(f, Self::col_expr(&nums[i])), ColType::Int)
                };
                let sel = Select::simple(vec![Item::Expr(agg, None)], from, where_);
                let lhs = self.leaf(&GenScope { cols: sc.cols.clone(), outer: vec![] }, ty, false);
                let op = [BinOp::Eq, BinOp::Lt, BinOp::Ge, BinOp::Ne][self.t.pick(4)];
                Expr::bin(lhs, op, Expr::Scalar(Box::new(Query::select(sel))))
            }
        }
    }

    // ------------------------------------------------------------------
    // SELECT / query
    // ------------------------------------------------------------------

    /// A SELECT producing exactly columns of `want` types (used for set-op
    /// branches) or, when `want` is None, a free shape. Returns output types.
    pub fn select(&mut self, cat: &Catalog, outer: &[ScopeCol], want: Option<&[ColType]>, depth: u32) -> (Select, Vec<(String, ColType)>) {
        let (from, sc, w0) = self.from_clause(cat, outer);
        let corr = !outer.is_empty();
        let mut conds: Vec<Expr> = w0.into_iter().collect();
        if self.t.chance(65) {
            self.feat("where");
            conds.push(self.bool_expr(&sc, self.p.expr_depth, corr));
        }
        if self.p.subqueries && depth > 0 && self.t.chance(25) {
            conds.push(self.subquery_pred(cat, &sc, depth));
        }
        let where_ = conds.into_iter().reduce(Expr::and);

        let grouped = want.is_none() && self.p.group_by && self.t.chance(35);
        if grouped {
            self.feat("group_by");
            // group keys: 0..2 columns (0 = global aggregate)
            let nk = self.t.pick(3);
            let mut keys: Vec<(Expr, ColType)> = vec![];
            for _ in 0..nk {
                if sc.cols.is_empty() {
                    break;
                }
                let i = self.t.pick(sc.cols.len());
                let c = &sc.cols[i];
                let e = Self::col_expr(c);
                if !keys.iter().any(|(k, _)| k == &e) {
                    keys.push((e, c.ty));
                }
            }
            if keys.is_empty() {
                self.feat("global_agg");
            }
            let mut items: Vec<Item> = vec![];
            let mut out: Vec<(String, ColType)> = vec![];
            for (k, ty) in &keys {
                let a = self.fresh("c");
                items.push(Item::Expr(k.clone(), Some(a.clone())));
                out.push((a, *ty));
            }
            let na = 1 + self.t.pick(3);
            let mut aggs: Vec<Expr> = vec![];
            for _ in 0..na {
                let (e, ty) = self.agg_expr(&sc);
                let a = self.fresh("c");
                aggs.push(e.clone());
                items.push(Item::Expr(e, Some(a.clone())));
                out.push((a, ty));
            }
            let having = if self.p.having && self.t.chance(35) {
                self.feat("having");
                let (a, ty) = if self.t.chance(50) { (aggs[0].clone(), ColType::Int) } else { self.agg_expr(&sc) };
                let _ = ty;
                let op = [BinOp::Gt, BinOp::Le, BinOp::Eq, BinOp::Ne][self.t.pick(4)];
                Some(Expr::bin(a, op, Expr::int(self.t.pick(4) as i64)))
            } else {
                None
            };
            let group = if keys.is_empty() { Group::None } else { Group::By(keys.into_iter().map(|(k, _)| k).collect()) };
            return (Select { distinct: false, items, from, where_, group, having }, out);
        }

        // plain projection
        let mut items = vec![];
        let mut out = vec![];
        match want {
            Some(types) => {
                for ty in types {
                    let e = self.expr(&sc, *ty, 1, corr);
                    let a = self.fresh("c");
                    items.push(Item::Expr(e, Some(a.clone())));
                    out.push((a, *ty));
                }
            }
            None => {
                let n = 1 + self.t.pick(4);
                for _ in 0..n {
                    let ty = self.pick_type(&sc);
                    let e = self.expr(&sc, ty, self.p.expr_depth.min(2), corr);
                    let a = self.fresh("c");
                    items.push(Item::Expr(e, Some(a.clone())));
                    out.push((a, ty));
                }
            }
        }
        let distinct = self.p.distinct && self.t.chance(20);
        if distinct {
            self.feat("distinct");
        }
        (Select { distinct, items, from, where_, group: Group::None, having: None }, out)
    }

    fn agg_expr(&mut self, sc: &GenScope) -> (Expr, ColType) {
        let k = self.t.pick(7);
        if k == 0 || sc.cols.is_empty() {
            return (Expr::count_star(), ColType::Int);
        }
        let i = self.t.pick(sc.cols.len());
        let c = sc.cols[i].clone();
        let e = Self::col_expr(&c);
        match k {
            1 => (Expr::agg(AggF::Count, e), ColType::Int),
            2 if self.p.count_distinct && c.ty != ColType::Double => {
                self.feat("count_distinct");
                (Expr::Agg { f: AggF::Count, arg: Some(Box::new(e)), distinct: true }, ColType::Int)
            }
            3 if c.ty.is_numeric() => (Expr::agg(AggF::Sum, e), if c.ty == ColType::Double { ColType::Double } else { ColType::Int }),
            4 if c.ty.is_numeric() => (Expr::agg(AggF::Avg, e), ColType::Double),
            5 if c.ty != ColType::Bool => (Expr::agg(AggF::Min, e), c.ty),
            6 if c.ty != ColType::Bool => (Expr::agg(AggF::Max, e), c.ty),
            _ => (Expr::agg(AggF::Count, e), ColType::Int),
        }
    }

    fn order_limit(&mut self, q: &mut Query, out: &[(String, ColType)]) {
        if !self.p.order_by || out.is_empty() || !self.t.chance(40) {
            return;
        }
        self.feat("order_by");
        let nk = 1 + self.t.pick(out.len().min(3));
        let mut used = vec![];
        for _ in 0..nk {
            let i = self.t.pick(out.len());
            if used.contains(&i) {
                continue;
            }
            used.push(i);
            let e = if self.t.chance(25) { Expr::int(i as i64 + 1) } else { Expr::col(&out[i].0) };
            let desc = self.t.chance(40);
            let nulls_first = if self.p.nulls_order && self.t.chance(40) { Some(self.t.chance(50)) } else { None };
            q.order_by.push(OrderKey { e, desc, nulls_first });
        }
        // LIMIT inside a derived table / CTE picks an arbitrary subset whenever the
        // order has ties: the statement then has several correct answers. Only the
        // outermost query gets LIMIT/OFFSET (compared with the tie-group predicate).
        if self.p.limit && self.inner == 0 && self.t.chance(50) {
            self.feat("limit");
            q.limit = Some(self.t.pick(6) as u64);
            if self.t.chance(40) {
                self.feat("offset");
                q.offset = Some(self.t.pick(4) as u64);
            }
        }
    }

    /// A complete statement.
    pub fn query(&mut self, cat: &Catalog, depth: u32) -> (Query, Vec<(String, ColType)>) {
        let mut cat = cat.clone();
        let mut with = vec![];
        if self.p.ctes && depth > 0 && self.t.chance(15) {
            self.feat("cte");
            self.inner += 1;
            let (cq, cout) = self.query_body(&cat, 0);
            self.inner -= 1;
            let name = self.fresh("w");
            cat.rels.push((name.clone(), cout));
            with.push(Cte { name, cols: None, q: cq });
        }
        let (mut q, out) = self.query_body(&cat, depth);
        q.with = with;
        (q, out)
    }

    fn query_body(&mut self, cat: &Catalog, depth: u32) -> (Query, Vec<(String, ColType)>) {
        // derived table in FROM: generated as a CTE-free inner query registered in a local catalog
        let mut cat = cat.clone();
        let mut derived: Option<(String, Query)> = None;
        if self.p.derived && depth > 0 && self.t.chance(15) {
            self.feat("derived");
            self.inner += 1;
            let (dq, dout) = self.query_body(&cat, 0);
            self.inner -= 1;
            let name = self.fresh("d");
            cat.rels = vec![(name.clone(), dout)].into_iter().chain(cat.rels.into_iter()).collect();
            derived = Some((name, dq));
        }
        let (first, out) = self.select(&cat, &[], None, depth);
        let mut body = SetExpr::Select(Box::new(first));
        if self.p.set_ops && self.t.chance(20) {
            let types: Vec<ColType> = out.iter().map(|(_, t)| *t).collect();
            let n = 1 + self.t.pick(2);
            for _ in 0..n {
                let op = [SetOp::Union, SetOp::Intersect, SetOp::Except][self.t.pick(3)];
                let all = self.p.set_all && self.t.chance(50);
                self.feat(match (op, all) {
                    (SetOp::Union, false) => "union",
                    (SetOp::Union, true) => "union_all",
                    (SetOp::Intersect, false) => "intersect",
                    (SetOp::Intersect, true) => "intersect_all",
                    (SetOp::Except, false) => "except",
                    (SetOp::Except, true) => "except_all",
                });
                let (s, _) = self.select(&cat, &[], Some(&types), 0);
                body = SetExpr::Op { op, all, l: Box::new(body), r: Box::new(SetExpr::Select(Box::new(s))) };
            }
        }
        let mut q = Query::of(body);
        self.order_limit(&mut q, &out);
        if let Some((name, dq)) = derived {
            replace_table_with_derived(&mut q, &name, &dq);
        }
        (q, out)
    }
}

/// Replace `FROM <name> AS a` by `FROM (<dq>) AS a` everywhere in the top level of q.
fn replace_table_with_derived(q: &mut Query, name: &str, dq: &Query) {
    fn in_from(f: &mut From, name: &str, dq: &Query) {
        match f {
            From::Table { name: n, alias } if n == name => {
                let a = alias.clone().unwrap_or_else(|| name.to_string());
                *f = From::Derived { q: Box::new(dq.clone()), alias: a, cols: None };
            }
            From::Join { l, r, .. } => {
                in_from(l, name, dq);
                in_from(r, name, dq);
            }
            _ => {}
        }
    }
    fn in_expr(e: &mut Expr, name: &str, dq: &Query) {
        match e {
            Expr::Exists { q, .. } | Expr::Scalar(q) => in_query(q, name, dq),
            Expr::InSub { e, q, .. } => {
                in_expr(e, name, dq);
                in_query(q, name, dq)
            }
            Expr::Bin(a, _, b) => {
                in_expr(a, name, dq);
                in_expr(b, name, dq);
            }
            Expr::Not(a) => in_expr(a, name, dq),
            _ => {}
        }
    }
    fn in_set(s: &mut SetExpr, name: &str, dq: &Query) {
        match s {
            SetExpr::Select(sel) => {
                for f in sel.from.iter_mut() {
                    in_from(f, name, dq);
                }
                if let Some(w) = sel.where_.as_mut() {
                    in_expr(w, name, dq);
                }
            }
            SetExpr::Op { l, r, .. } => {
                in_set(l, name, dq);
                in_set(r, name, dq);
            }
            SetExpr::Nested(q) => in_query(q, name, dq),
            SetExpr::Values(_) => {}
        }
    }
    fn in_query(q: &mut Query, name: &str, dq: &Query) {
        in_set(&mut q.body, name, dq);
    }
    in_query(q, name, dq);
}

// ---------------------------------------------------------------------------
// tables
// ---------------------------------------------------------------------------

#[derive(Clone, Debug)]
pub struct TableProfile {
    pub min_tables: usize,
    pub max_tables: usize,
    pub max_cols: usize,
    pub max_rows: usize,
    pub types: Vec<ColType>,
    /// NULL percentage choices per column
    pub null_pcts: Vec<u32>,
}
impl Default for TableProfile {
    fn default() -> Self {
        TableProfile {
            min_tables: 1,
            max_tables: 3,
            max_cols: 4,
            max_rows: 12,
            types: vec![ColType::Int, ColType::Int, ColType::Int32, ColType::Double, ColType::Str, ColType::Date, ColType::Bool],
            null_pcts: vec![0, 15, 35],
        }
    }
}

pub fn table_strategy(name: String, tp: TableProfile) -> BoxedStrategy<Table> {
    let types = tp.types.clone();
    let pcts = tp.null_pcts.clone();
    let max_rows = tp.max_rows;
    proptest::collection::vec((proptest::sample::select(types), proptest::sample::select(pcts)), 2..=tp.max_cols.max(2))
        .prop_flat_map(move |spec| {
            let name = name.clone();
            let cols: Vec<Column> = spec
                .iter()
                .enumerate()
                .map(|(i, (ty, _))| Column { name: format!("{}{}", ["a", "b", "c", "d", "e", "f"][i % 6], if i >= 6 { "2" } else { "" }), ty: *ty })
                .collect();
            let row = spec.iter().map(|(ty, pct)| small_value(*ty, *pct)).collect::<Vec<_>>();
            proptest::collection::vec(row, 0..=max_rows).prop_map(move |rows| Table { name: name.clone(), cols: cols.clone(), rows })
        })
        .boxed()
}

pub fn tables_strategy(tp: TableProfile) -> BoxedStrategy<Vec<Table>> {
    let names = ["r", "s", "u"];
    (tp.min_tables..=tp.max_tables.min(3))
        .prop_flat_map(move |n| (0..n).map(|i| table_strategy(names[i].to_string(), tp.clone())).collect::<Vec<_>>())
        .boxed()
}

/// A generated statement over generated tables: the library-independent case.
#[derive(Clone, Debug, Serialize, Deserialize)]
pub struct SqlCase {
    pub tables: Vec<Table>,
    pub query: Query,
    /// row cut points for batch layout, per table (same order as tables)
    pub cuts: Vec<Vec<usize>>,
    pub features: Vec<String>,
}

pub fn sql_case_strategy(tp: TableProfile, profile: Profile, tape_len: usize, depth: u32) -> BoxedStrategy<SqlCase> {
    let max_rows = tp.max_rows;
    let mut tp = tp;
    if profile.no_nulls {
        tp.null_pcts = vec![0];
    }
    (
        tables_strategy(tp),
        proptest::collection::vec(any::<u16>(), 0..tape_len),
        proptest::collection::vec(proptest::collection::vec(0..=max_rows.max(1), 0..3), 3),
    )
        .prop_map(move |(tables, tape, cuts)| {
            let cat = Catalog::of(&tables);
            let mut g = Gen::new(tape, &profile);
            let (query, _) = g.query(&cat, depth);
            let features = g.features.iter().map(|s| s.to_string()).collect();
            SqlCase { cuts: cuts.into_iter().take(tables.len()).collect(), tables, query, features }
        })
        .boxed()
}
