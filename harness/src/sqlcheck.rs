//! Shared machinery of the SQL-vs-reference properties (C01, C02, C21–C28, C44):
//! run a generated statement through the engine and through `refsql`, compare
//! per DESIGN §3.4, classify disagreements against the known-findings
//! signatures, measure non-triviality.

use crate::data::*;
use crate::engine::*;
use crate::refsql::{self, Db, Mode};
use crate::runner::*;
use crate::sqlgen::*;
use proptest::prelude::*;
use std::collections::BTreeSet;

pub struct SqlOutcome {
    pub verdict: Verdict,
    /// reference answer changes under two-valued logic or set semantics
    pub null_or_dup_sensitive: bool,
    /// Some(n) when the engine answered with n rows
    pub engine_rows: Option<usize>,
    pub ref_rows: usize,
    /// facts the reference observed while evaluating (see refsql::Db::events)
    pub events: BTreeSet<&'static str>,
}

pub fn short_err(e: &str) -> String {
    let e = e.lines().next().unwrap_or("");
    let mut s: String = e.chars().take(60).collect();
    if let Some(i) = s.find(':') {
        s.truncate(i);
    }
    s
}

/// A known-finding classifier: (case, events, failure message) -> finding id.
pub type Classifier = fn(&SqlCase, &BTreeSet<&'static str>, &str) -> Option<&'static str>;

pub fn no_classifier(_: &SqlCase, _: &BTreeSet<&'static str>, _: &str) -> Option<&'static str> {
    None
}

pub fn has(c: &SqlCase, f: &str) -> bool {
    c.features.iter().any(|x| x == f)
}
pub fn has_prefix(c: &SqlCase, p: &str) -> bool {
    c.features.iter().any(|x| x.starts_with(p))
}

pub fn fmt_tables(ts: &[Table]) -> String {
    let mut s = String::new();
    for t in ts {
        s.push_str(&format!(
            "\n  {}({}):\n{}",
            t.name,
            t.cols.iter().map(|c| format!("{} {:?}", c.name, c.ty)).collect::<Vec<_>>().join(", "),
            fmt_rows(&t.rows, 30)
        ));
    }
    s
}

/// How the tables are handed to the engine.
pub fn mem_context(c: &SqlCase) -> query_engine::ExecutionContext {
    let mut ctx = query_engine::ExecutionContext::new();
    for (i, t) in c.tables.iter().enumerate() {
        let cuts = c.cuts.get(i).cloned().unwrap_or_default();
        register_mem(&mut ctx, t, &cuts);
    }
    ctx
}

pub fn judge(c: &SqlCase, obs: &mut Obs, tol: f64, classify: Classifier) -> SqlOutcome {
    let sql = c.query.sql();
    for f in &c.features {
        obs.label(format!("feat:{}", f));
    }
    obs.sample(serde_json::json!({
        "sql": sql,
        "tables": c.tables.iter().map(|t| format!("{}({} rows x {} cols)", t.name, t.rows.len(), t.cols.len())).collect::<Vec<_>>()
    }));
    let db = Db::new(&c.tables);
    let reference = match db.run(&c.query) {
        Ok(r) => r,
        Err(e) => {
            return SqlOutcome {
                verdict: Verdict::Discard(format!("ref:{}", short_err(&e))),
                null_or_dup_sensitive: false,
                engine_rows: None,
                ref_rows: 0,
                events: db.events.borrow().clone(),
            }
        }
    };
    let events = db.events.borrow().clone();
    if reference.sorted_full.is_none() && (reference.limit.is_some() || reference.offset.is_some()) {
        return SqlOutcome {
            verdict: Verdict::Discard("limit_without_order".into()),
            null_or_dup_sensitive: false,
            engine_rows: None,
            ref_rows: reference.rows.len(),
            events,
        };
    }
    let mut sensitive = false;
    for m in [Mode::TwoValued, Mode::SetSemantics] {
        if let Ok(alt) = Db::with_mode(&c.tables, m).run(&c.query) {
            if !multiset_eq(&alt.rows, &reference.rows, 0.0) {
                sensitive = true;
                obs.label(if m == Mode::TwoValued { "sensitive:3vl" } else { "sensitive:multiset" });
            }
        }
    }
    let ctx = mem_context(c);
    let got = match run_sql(&ctx, &sql) {
        Ok(rows) => rows,
        Err(e) => {
            obs.label(format!("engine_error:{}", short_err(&e)));
            // an error is an allowed outcome here (panics/hangs belong to C29)
            return SqlOutcome { verdict: Verdict::Pass, null_or_dup_sensitive: sensitive, engine_rows: None, ref_rows: reference.rows.len(), events };
        }
    };
    obs.label("engine_ok");
    let n = got.len();
    let verdict = match refsql::compare_answer(&reference, &got, tol) {
        Ok(()) => Verdict::Pass,
        Err(msg) => {
            let full = format!("{}\n sql: {}\n ref-events: {:?}\n tables: {}", msg, sql, events, fmt_tables(&c.tables));
            match classify(c, &events, &msg) {
                Some(id) => Verdict::Known { id: id.to_string(), msg: full },
                None => Verdict::Fail(full),
            }
        }
    };
    SqlOutcome { verdict, null_or_dup_sensitive: sensitive, engine_rows: Some(n), ref_rows: reference.rows.len(), events }
}

/// A generated SQL-vs-reference check configured by data.
pub struct SqlCheck {
    pub name: &'static str,
    pub rule: &'static str,
    pub profile: fn(Tier) -> Profile,
    pub tables: fn(Tier) -> TableProfile,
    pub quick_cases: u32,
    pub thorough_cases: u32,
    pub tape_len: usize,
    pub depth: u32,
    pub nontrivial: fn(&SqlCase, &SqlOutcome) -> bool,
    pub classify: Classifier,
    /// optional custom strategy (focused generators); overrides profile/tables
    pub strategy: Option<fn(Tier) -> BoxedStrategy<SqlCase>>,
    /// env var that may override the profile spec in development surveys
    pub profile_env: &'static str,
}

impl Check for SqlCheck {
    type Case = SqlCase;
    fn name(&self) -> &'static str {
        self.name
    }
    fn rule(&self) -> &'static str {
        self.rule
    }
    fn cases(&self, tier: Tier) -> u32 {
        tier.pick(self.quick_cases, self.thorough_cases)
    }
    fn max_shrink_iters(&self) -> u32 {
        1500
    }
    fn strategy(&self, tier: Tier) -> BoxedStrategy<SqlCase> {
        if let Some(f) = self.strategy {
            return f(tier);
        }
        let profile = match std::env::var(self.profile_env) {
            Ok(spec) if !self.profile_env.is_empty() => Profile::from_spec(&spec),
            _ => (self.profile)(tier),
        };
        sql_case_strategy((self.tables)(tier), profile, self.tape_len, self.depth)
    }
    fn test(&self, c: &SqlCase, obs: &mut Obs) -> Verdict {
        let out = judge(c, obs, 1e-9, self.classify);
        for e in &out.events {
            obs.label(format!("ev:{}", e));
        }
        obs.nontrivial((self.nontrivial)(c, &out));
        out.verdict
    }
}

pub fn default_tables(tier: Tier) -> TableProfile {
    let mut tp = TableProfile::default();
    tp.max_rows = tier.pick(10, 40);
    tp
}
