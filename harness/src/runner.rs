//! Shared runner: seeds, proptest driving (sharded over worker threads),
//! statistics for evidence, replay files, known findings.
//!
//! A property module contributes one or more `Check`s. The runner
//!  1. replays committed files under /verif/replays/<ID>/ (regressions and
//!     known-finding witnesses),
//!  2. runs each check's exhaustive enumeration (if it has one),
//!  3. runs each check's generated cases with proptest, seeded from
//!     VERIF_SEED ^ fnv(property id / check name / worker),
//!  4. on the first failure lets proptest shrink, writes the shrunk case as a
//!     library-independent JSON replay file and prints the VIOLATION line,
//!  5. writes /verif/evidence/<ID>.json.

use proptest::strategy::{BoxedStrategy, Strategy};
use proptest::test_runner::{Config, RngAlgorithm, TestCaseError, TestError, TestRng, TestRunner};
use serde::de::DeserializeOwned;
use serde::Serialize;
use serde_json::{json, Value as J};
use std::collections::{BTreeMap, HashSet};
use std::fmt::Debug;
use std::path::{Path, PathBuf};
use std::sync::atomic::{AtomicBool, AtomicU64, Ordering};
use std::sync::Mutex;
use std::time::Instant;

/// Root of the verification tree (/verif; overridable with VERIF_ROOT for
/// scratch sandboxes used while developing/mutation-testing checks).
pub fn verif_root() -> PathBuf {
    PathBuf::from(std::env::var("VERIF_ROOT").unwrap_or_else(|_| "/verif".to_string()))
}

#[derive(Clone, Copy, Debug, PartialEq, Eq)]
pub enum Tier {
    Quick,
    Thorough,
}
impl Tier {
    pub fn name(self) -> &'static str {
        match self {
            Tier::Quick => "quick",
            Tier::Thorough => "thorough",
        }
    }
    /// pick by tier
    pub fn pick<T>(self, quick: T, thorough: T) -> T {
        match self {
            Tier::Quick => quick,
            Tier::Thorough => thorough,
        }
    }
}

/// What a single case evaluation concluded.
#[derive(Debug, Clone)]
pub enum Verdict {
    /// property held on this case
    Pass,
    /// property violated; message explains observed vs expected
    Fail(String),
    /// property violated in a way that matches the signature of a finding
    /// listed (status open) in known_findings.json; `id` is that entry's id
    Known { id: String, msg: String },
    /// case outside the check's domain (counted, never a pass or fail)
    Discard(String),
}

/// Per-case observation sink: labels, non-triviality, custom sample.
#[derive(Default)]
pub struct Obs {
    pub labels: Vec<String>,
    pub nontrivial: bool,
    /// structural key for distinctness; default = hash of the case JSON
    pub key: Option<u64>,
    pub sample: Option<J>,
    /// how many executions of the code under test this case stands for (fault
    /// instances, enumerated schedules, …); default 1
    pub weight: Option<u64>,
}
impl Obs {
    pub fn weight(&mut self, n: u64) {
        self.weight = Some(n.max(1));
    }
    pub fn label(&mut self, s: impl Into<String>) {
        self.labels.push(s.into());
    }
    pub fn nontrivial(&mut self, yes: bool) {
        if yes {
            self.nontrivial = true;
        }
    }
    pub fn key(&mut self, k: u64) {
        self.key = Some(k);
    }
    pub fn sample(&mut self, j: J) {
        self.sample = Some(j);
    }
}

/// One executable statement of (part of) a property.
pub trait Check: Send + Sync + 'static {
    type Case: Serialize + DeserializeOwned + Debug + Clone + Send + 'static;
    fn name(&self) -> &'static str;
    /// generated cases
    fn strategy(&self, tier: Tier) -> BoxedStrategy<Self::Case>;
    fn cases(&self, tier: Tier) -> u32;
    /// optional finite enumeration run completely before generated cases
    fn exhaustive(&self, _tier: Tier) -> Option<Box<dyn Iterator<Item = Self::Case> + '_>> {
        None
    }
    /// threads the exhaustive enumeration may be consumed by (1 = in order, on
    /// the calling thread); only for checks whose `test` is thread-safe
    fn exhaustive_workers(&self, _tier: Tier) -> usize {
        1
    }
    /// number of worker threads the generated cases may be sharded over
    fn workers(&self, _tier: Tier) -> usize {
        16
    }
    fn max_shrink_iters(&self) -> u32 {
        400
    }
    /// the non-triviality rule in words (goes to evidence)
    fn rule(&self) -> &'static str;
    fn test(&self, case: &Self::Case, obs: &mut Obs) -> Verdict;
}

pub fn fnv(s: &str) -> u64 {
    let mut h: u64 = 0xcbf29ce484222325;
    for b in s.as_bytes() {
        h ^= *b as u64;
        h = h.wrapping_mul(0x100000001b3);
    }
    h
}
pub fn hash_json(j: &J) -> u64 {
    fnv(&j.to_string())
}

#[derive(Default)]
pub struct CheckStats {
    pub evaluations: u64,
    pub cases: u64,
    pub nontrivial_keys: HashSet<u64>,
    pub labels: BTreeMap<String, u64>,
    pub samples: Vec<J>,
    pub discards: u64,
    pub known_hits: BTreeMap<String, u64>,
    pub exhaustive_cases: u64,
    pub exhaustive_done: bool,
}

pub struct RunCtx {
    pub property: String,
    pub tier: Tier,
    pub seed: u64,
    pub started: Instant,
    pub stats: Mutex<BTreeMap<String, CheckStats>>,
    pub rules: Mutex<BTreeMap<String, String>>,
    pub violations: Mutex<Vec<(String, PathBuf)>>,
    pub known_lines: Mutex<Vec<String>>,
    pub notes: Mutex<Vec<String>>,
    pub known: Vec<KnownFinding>,
    pub max_samples: usize,
}

#[derive(Debug, Clone, serde::Deserialize, Serialize)]
pub struct KnownFinding {
    pub id: String,
    pub property: String,
    /// "open" or "fixed"
    pub status: String,
    pub summary: String,
    /// precise description of the failing class
    #[serde(default)]
    pub signature: String,
    /// replay file (relative to /verif) that reproduces it
    #[serde(default)]
    pub witness: Option<String>,
    #[serde(default)]
    pub commit: Option<String>,
}

pub fn load_known_findings() -> Vec<KnownFinding> {
    let p = verif_root().join("known_findings.json");
    match std::fs::read_to_string(&p) {
        Ok(s) => {
            let v: J = serde_json::from_str(&s).expect("known_findings.json parses");
            serde_json::from_value(v["findings"].clone()).expect("known_findings.json shape")
        }
        Err(_) => vec![],
    }
}

/// ids of the findings listed OPEN for the property being run (set once per process by
/// `RunCtx::new`). A classifier whose signatures overlap uses it to prefer an open finding over
/// a fixed one: a failing case that meets an open finding's signature is that finding, whatever
/// fixed finding's signature it also happens to meet. (It never turns an unlisted class into a
/// known one: `Verdict::Known` is still only accepted by the runner when listed open.)
static OPEN_IDS: std::sync::OnceLock<std::collections::BTreeSet<String>> = std::sync::OnceLock::new();

pub fn is_open_id(id: &str) -> bool {
    OPEN_IDS.get().map(|s| s.contains(id)).unwrap_or(false)
}

impl RunCtx {
    pub fn new(property: &str, tier: Tier, seed: u64) -> Self {
        let known = load_known_findings();
        let _ = OPEN_IDS.set(known.iter().filter(|k| k.property == property && k.status == "open").map(|k| k.id.clone()).collect());
        RunCtx {
            property: property.to_string(),
            tier,
            seed,
            started: Instant::now(),
            stats: Mutex::new(BTreeMap::new()),
            rules: Mutex::new(BTreeMap::new()),
            violations: Mutex::new(vec![]),
            known_lines: Mutex::new(vec![]),
            notes: Mutex::new(vec![]),
            known: load_known_findings(),
            max_samples: 6,
        }
    }
    pub fn is_open(&self, id: &str) -> bool {
        self.known
            .iter()
            .any(|k| k.id == id && k.property == self.property && k.status == "open")
    }
    pub fn note(&self, s: impl Into<String>) {
        let s = s.into();
        println!("NOTE {}", s);
        self.notes.lock().unwrap().push(s);
    }

    fn record(&self, check: &str, case_json: &J, obs: Obs, verdict: &Verdict) {
        let mut g = self.stats.lock().unwrap();
        let st = g.entry(check.to_string()).or_default();
        st.evaluations += obs.weight.unwrap_or(1);
        st.cases += 1;
        for l in obs.labels {
            *st.labels.entry(l).or_insert(0) += 1;
        }
        match verdict {
            Verdict::Discard(why) => {
                st.discards += 1;
                *st.labels.entry(format!("discard:{}", why)).or_insert(0) += 1;
            }
            Verdict::Known { id, .. } => {
                *st.known_hits.entry(id.clone()).or_insert(0) += 1;
            }
            _ => {}
        }
        if obs.nontrivial && !matches!(verdict, Verdict::Discard(_)) {
            let k = obs.key.unwrap_or_else(|| hash_json(case_json));
            let fresh = st.nontrivial_keys.insert(k);
            if fresh && st.samples.len() < self.max_samples {
                st.samples.push(obs.sample.unwrap_or_else(|| truncate_json(case_json, 4000)));
            }
        }
    }

    fn write_replay(&self, check: &str, case: &J, msg: &str, tag: &str) -> PathBuf {
        let dir = verif_root().join("replays").join(&self.property);
        let _ = std::fs::create_dir_all(&dir);
        let h = hash_json(case);
        let p = dir.join(format!("fail-{}-{}-{:016x}.json", check, tag, h));
        let doc = json!({
            "property": self.property,
            "check": check,
            "expect": "pass",
            "found_by": format!("seed={} tier={}", self.seed, self.tier.name()),
            "message": msg,
            "case": case,
        });
        std::fs::write(&p, serde_json::to_string_pretty(&doc).unwrap()).expect("write replay");
        p
    }

    fn violation(&self, check: &str, case: &J, msg: &str, tag: &str) {
        let p = self.write_replay(check, case, msg, tag);
        println!("VIOLATION property={} replay={}", self.property, p.display());
        println!("  check={} message={}", check, first_lines(msg, 30));
        self.violations
            .lock()
            .unwrap()
            .push((check.to_string(), p));
    }
}

fn first_lines(s: &str, n: usize) -> String {
    s.lines().take(n).collect::<Vec<_>>().join("\n    ")
}

pub fn truncate_json(j: &J, max: usize) -> J {
    let s = j.to_string();
    if s.len() <= max {
        j.clone()
    } else {
        let mut cut = max;
        while !s.is_char_boundary(cut) {
            cut -= 1;
        }
        json!({"truncated_case_json": s[..cut].to_string(), "full_len": s.len()})
    }
}

/// VERIF_SURVEY=1: development aid — failing cases are appended to
/// target/survey-<ID>.log and the run continues (never used by registered commands).
pub fn survey_mode() -> bool {
    std::env::var("VERIF_SURVEY").map(|v| v == "1").unwrap_or(false)
}

thread_local! {
    static IN_GUARD: std::cell::Cell<bool> = const { std::cell::Cell::new(false) };
}
pub fn in_guard() -> bool {
    IN_GUARD.with(|g| g.get())
}

/// Run a test on one case, converting panics into failures with the message.
fn guarded_test<C: Check>(check: &C, case: &C::Case, obs: &mut Obs) -> Verdict {
    IN_GUARD.with(|g| g.set(true));
    let r = std::panic::catch_unwind(std::panic::AssertUnwindSafe(|| check.test(case, obs)));
    IN_GUARD.with(|g| g.set(false));
    match r {
        Ok(v) => v,
        Err(e) => {
            let msg = if let Some(s) = e.downcast_ref::<&str>() {
                s.to_string()
            } else if let Some(s) = e.downcast_ref::<String>() {
                s.clone()
            } else {
                "panic (non-string payload)".into()
            };
            Verdict::Fail(format!("PANIC inside check: {}", msg))
        }
    }
}

/// Object-safe face of a Check for the registry.
pub trait DynCheck: Send + Sync {
    fn name(&self) -> &'static str;
    fn run(&self, cx: &RunCtx);
    /// Replay a stored case; returns verdict
    fn replay(&self, case: &J) -> Result<Verdict, String>;
}

impl<C: Check> DynCheck for C {
    fn name(&self) -> &'static str {
        Check::name(self)
    }

    fn replay(&self, case: &J) -> Result<Verdict, String> {
        let c: C::Case = serde_json::from_value(case.clone()).map_err(|e| e.to_string())?;
        let mut obs = Obs::default();
        Ok(guarded_test(self, &c, &mut obs))
    }

    fn run(&self, cx: &RunCtx) {
        let name = Check::name(self);
        cx.rules
            .lock()
            .unwrap()
            .insert(name.to_string(), self.rule().to_string());
        cx.stats.lock().unwrap().entry(name.to_string()).or_default();
        // development aid (never set by a registered command): run one sub-check only
        if std::env::var("VERIF_ONLY").map(|o| o != name).unwrap_or(false) {
            return;
        }

        // classify a verdict -> Some(msg) if it is a violation
        let judge = |v: &Verdict| -> Option<String> {
            match v {
                Verdict::Pass | Verdict::Discard(_) => None,
                Verdict::Fail(m) => Some(m.clone()),
                Verdict::Known { id, msg } => {
                    if cx.is_open(id) {
                        None
                    } else {
                        Some(format!(
                            "[matches finding '{}' which is not listed as open] {}",
                            id, msg
                        ))
                    }
                }
            }
        };

        // 1. exhaustive tier
        if let Some(it) = self.exhaustive(cx.tier) {
            let mut n = 0u64;
            let mut failed = false;
            let par = self.exhaustive_workers(cx.tier).max(1);
            if par > 1 {
                // the enumeration is produced here and consumed by `par` threads;
                // the first violation stops the enumeration (no shrinking: the
                // enumerated case is the reproduction)
                let (tx, rx) = std::sync::mpsc::sync_channel::<C::Case>(par * 4);
                let rx = std::sync::Mutex::new(rx);
                let stop = AtomicBool::new(false);
                std::thread::scope(|s| {
                    for _ in 0..par {
                        let rx = &rx;
                        let stop = &stop;
                        let judge = &judge;
                        s.spawn(move || loop {
                            let case = match rx.lock().unwrap().recv() {
                                Ok(c) => c,
                                Err(_) => break,
                            };
                            if stop.load(Ordering::SeqCst) {
                                continue;
                            }
                            let mut obs = Obs::default();
                            let v = guarded_test(self, &case, &mut obs);
                            let cj = serde_json::to_value(&case).unwrap();
                            cx.record(name, &cj, obs, &v);
                            if survey_mode() {
                                survey_log(&cx.property, name, &v, &cj);
                                continue;
                            }
                            if let Some(msg) = judge(&v) {
                                if !stop.swap(true, Ordering::SeqCst) {
                                    cx.violation(name, &cj, &msg, "exh");
                                }
                            }
                        });
                    }
                    for case in it {
                        if stop.load(Ordering::SeqCst) {
                            break;
                        }
                        n += 1;
                        if tx.send(case).is_err() {
                            break;
                        }
                    }
                    drop(tx);
                });
                failed = stop.load(Ordering::SeqCst);
            } else {
            for case in it {
                n += 1;
                let mut obs = Obs::default();
                let v = guarded_test(self, &case, &mut obs);
                let cj = serde_json::to_value(&case).unwrap();
                cx.record(name, &cj, obs, &v);
                if let Some(msg) = judge(&v) {
                    cx.violation(name, &cj, &msg, "exh");
                    failed = true;
                    break;
                }
            }
            }
            let mut g = cx.stats.lock().unwrap();
            let st = g.get_mut(name).unwrap();
            st.exhaustive_cases = n;
            st.exhaustive_done = !failed;
            if failed {
                return;
            }
        }

        // 2. generated tier, sharded
        let total = self.cases(cx.tier);
        if total == 0 {
            return;
        }
        let workers = self.workers(cx.tier).max(1).min(total as usize).min(
            std::thread::available_parallelism()
                .map(|n| n.get())
                .unwrap_or(4),
        );
        let stop = AtomicBool::new(false);
        let done = AtomicU64::new(0);
        let base_seed = cx.seed ^ fnv(&cx.property) ^ fnv(name).rotate_left(17);

        std::thread::scope(|s| {
            for w in 0..workers {
                let stop = &stop;
                let done = &done;
                let judge = &judge;
                s.spawn(move || {
                    let share = total / workers as u32
                        + if (w as u32) < total % workers as u32 { 1 } else { 0 };
                    if share == 0 {
                        return;
                    }
                    let mut cfg = Config::default();
                    cfg.cases = share;
                    cfg.failure_persistence = None;
                    cfg.max_shrink_iters = self.max_shrink_iters();
                    cfg.max_global_rejects = 65536;
                    cfg.verbose = 0;
                    let mut seed_bytes = [0u8; 32];
                    let s0 = base_seed ^ (w as u64).wrapping_mul(0x9E3779B97F4A7C15);
                    for i in 0..4 {
                        let v = s0
                            .wrapping_add(i as u64)
                            .wrapping_mul(0xD6E8FEB86659FD93)
                            .rotate_left(13 * (i as u32 + 1));
                        seed_bytes[i * 8..i * 8 + 8].copy_from_slice(&v.to_le_bytes());
                    }
                    let rng = TestRng::from_seed(RngAlgorithm::ChaCha, &seed_bytes);
                    let mut runner = TestRunner::new_with_rng(cfg, rng);
                    let strat = self.strategy(cx.tier);
                    // set once this worker has seen its first failure (then we
                    // are shrinking: stop counting)
                    let my_fail = AtomicBool::new(false);
                    let res = runner.run(&strat, |case| {
                        if stop.load(Ordering::SeqCst) && !my_fail.load(Ordering::SeqCst) {
                            return Ok(()); // another worker failed; drain fast
                        }
                        let mut obs = Obs::default();
                        let v = guarded_test(self, &case, &mut obs);
                        let bad = judge(&v);
                        if !my_fail.load(Ordering::SeqCst) {
                            let cj = serde_json::to_value(&case).unwrap();
                            cx.record(name, &cj, obs, &v);
                            done.fetch_add(1, Ordering::Relaxed);
                        }
                        if survey_mode() {
                            // development aid: log every failing case (classified or
                            // not) and keep going; never used by registered commands
                            let logged = match &v {
                                Verdict::Fail(m) => Some(("UNCLASSIFIED".to_string(), m.clone())),
                                Verdict::Known { id, msg } => Some((id.clone(), msg.clone())),
                                _ => None,
                            };
                            if let Some((class, msg)) = logged {
                                use std::io::Write;
                                static SURVEY_LOCK: Mutex<()> = Mutex::new(());
                                let _g = SURVEY_LOCK.lock().unwrap();
                                let p = verif_root().join("target").join(format!("survey-{}.log", cx.property));
                                if let Ok(mut f) = std::fs::OpenOptions::new().create(true).append(true).open(p) {
                                    let _ = writeln!(f, "=== {} [{}]\n{}\n", name, class, msg);
                                }
                                let p = verif_root().join("target").join(format!("survey-{}.jsonl", cx.property));
                                if let Ok(mut f) = std::fs::OpenOptions::new().create(true).append(true).open(p) {
                                    let doc = json!({"property": cx.property, "check": name, "class": class, "expect": "pass", "message": msg, "case": serde_json::to_value(&case).unwrap()});
                                    let _ = writeln!(f, "{}", doc);
                                }
                            }
                            return Ok(());
                        }
                        match bad {
                            None => Ok(()),
                            Some(msg) => {
                                my_fail.store(true, Ordering::SeqCst);
                                stop.store(true, Ordering::SeqCst);
                                Err(TestCaseError::fail(msg))
                            }
                        }
                    });
                    match res {
                        Ok(()) => {}
                        Err(TestError::Fail(reason, case)) => {
                            let cj = serde_json::to_value(&case).unwrap();
                            // re-evaluate shrunk case for an accurate message
                            let mut obs = Obs::default();
                            let v = guarded_test(self, &case, &mut obs);
                            let msg = judge(&v).unwrap_or_else(|| {
                                format!("(shrunk case passed on re-run — flaky) {}", reason)
                            });
                            cx.violation(name, &cj, &msg, &format!("w{}", w));
                        }
                        Err(TestError::Abort(reason)) => {
                            cx.note(format!(
                                "check {} worker {} aborted by proptest: {}",
                                name, w, reason
                            ));
                        }
                    }
                });
            }
        });
    }
}

/// Strategy helper: box any strategy.
pub fn boxed<S: Strategy + 'static>(s: S) -> BoxedStrategy<S::Value>
where
    S::Value: Debug,
{
    s.boxed()
}

// ---------------------------------------------------------------------------
// replay tier + evidence
// ---------------------------------------------------------------------------

pub fn replay_file(cx: Option<&RunCtx>, checks: &[Box<dyn DynCheck>], path: &Path) -> (String, Verdict) {
    let s = std::fs::read_to_string(path).unwrap_or_else(|e| panic!("read {}: {}", path.display(), e));
    let doc: J = serde_json::from_str(&s).unwrap_or_else(|e| panic!("parse {}: {}", path.display(), e));
    let cname = doc["check"].as_str().unwrap_or("").to_string();
    let _ = cx;
    for c in checks {
        if c.name() == cname {
            return match c.replay(&doc["case"]) {
                Ok(v) => (cname, v),
                Err(e) => (
                    cname,
                    Verdict::Discard(format!("replay file does not deserialize: {}", e)),
                ),
            };
        }
    }
    (
        cname.clone(),
        Verdict::Discard(format!("no check named '{}'", cname)),
    )
}

/// Replay everything under replays/<ID>/ ; returns number of files replayed.
pub fn replay_tier(cx: &RunCtx, checks: &[Box<dyn DynCheck>]) -> usize {
    let dir = verif_root().join("replays").join(&cx.property);
    let mut files: Vec<PathBuf> = match std::fs::read_dir(&dir) {
        Ok(rd) => rd
            .filter_map(|e| e.ok().map(|e| e.path()))
            .filter(|p| p.extension().map(|x| x == "json").unwrap_or(false))
            .collect(),
        Err(_) => vec![],
    };
    files.sort();
    let witness_of: BTreeMap<PathBuf, &KnownFinding> = cx
        .known
        .iter()
        .filter(|k| k.property == cx.property)
        .filter_map(|k| {
            k.witness
                .as_ref()
                .map(|w| (verif_root().join(w), k))
        })
        .collect();
    let mut n = 0;
    for f in &files {
        // uncommitted fail-* files from an earlier failing run are not part of
        // the regression tier unless committed; we still replay them (they are
        // in the directory) — a stale one simply passes once the tree is right.
        let t0 = std::time::Instant::now();
        let (cname, mut v) = replay_file(Some(cx), checks, f);
        n += 1;
        let kf = witness_of.get(f);
        // the witness of an OPEN finding whose defect is schedule-dependent (e.g. a wrong answer
        // that needs a particular interleaving of the engine's own threads) may pass on one run:
        // a cheap witness is tried a few more times before it is called stale
        if matches!((&v, kf), (Verdict::Pass, Some(k)) if k.status == "open") && t0.elapsed().as_secs() < 5 {
            for _ in 0..9 {
                let (_, again) = replay_file(Some(cx), checks, f);
                if !matches!(again, Verdict::Pass) {
                    v = again;
                    break;
                }
            }
        }
        match (&v, kf) {
            (Verdict::Pass, Some(k)) if k.status == "open" => {
                cx.note(format!(
                    "known finding {} no longer reproduces from its witness {}",
                    k.id,
                    f.display()
                ));
            }
            (Verdict::Pass, _) => {}
            (Verdict::Discard(why), _) => {
                cx.note(format!("replay {} skipped: {}", f.display(), why));
            }
            (Verdict::Known { id, msg }, _) if cx.is_open(id) => {
                let k = cx.known.iter().find(|k| &k.id == id).unwrap();
                let line = format!(
                    "KNOWN-FINDING: property={} {} — {} [{}]",
                    cx.property,
                    k.id,
                    k.summary,
                    first_lines(msg, 1)
                );
                let mut kl = cx.known_lines.lock().unwrap();
                if !kl.iter().any(|l| l.contains(&format!(" {} — ", k.id))) {
                    println!("{}", line);
                    kl.push(line);
                }
            }
            (Verdict::Fail(msg), Some(k)) if k.status == "open" => {
                // witness fails but check did not classify it; still the listed witness
                let line = format!(
                    "KNOWN-FINDING: property={} {} — {} [{}]",
                    cx.property,
                    k.id,
                    k.summary,
                    first_lines(msg, 1)
                );
                println!("{}", line);
                cx.known_lines.lock().unwrap().push(line);
            }
            (Verdict::Fail(msg), _) | (Verdict::Known { msg, .. }, _) => {
                println!("VIOLATION property={} replay={}", cx.property, f.display());
                println!("  check={} (replay tier) message={}", cname, first_lines(msg, 30));
                cx.violations
                    .lock()
                    .unwrap()
                    .push((cname.clone(), f.clone()));
            }
        }
    }
    n
}

pub fn write_evidence(cx: &RunCtx, level: &str, assumptions: &[&str], replayed: usize, extra: J) {
    let stats = cx.stats.lock().unwrap();
    let rules = cx.rules.lock().unwrap();
    let mut evaluations = 0u64;
    let mut distinct = 0u64;
    let mut samples: Vec<J> = vec![];
    let mut per_check = serde_json::Map::new();
    let mut exhaustive_all = !stats.is_empty();
    let mut excluded_known = 0u64;
    for (name, st) in stats.iter() {
        evaluations += st.evaluations;
        distinct += st.nontrivial_keys.len() as u64;
        for s in &st.samples {
            samples.push(json!({"check": name, "case": s}));
        }
        if !(st.exhaustive_done && st.cases == st.exhaustive_cases) {
            exhaustive_all = false;
        }
        excluded_known += st.known_hits.values().sum::<u64>();
        per_check.insert(
            name.clone(),
            json!({
                "evaluations": st.evaluations,
                "cases": st.cases,
                "distinct_nontrivial": st.nontrivial_keys.len(),
                "discarded": st.discards,
                "exhaustive_cases": st.exhaustive_cases,
                "exhaustive_completed": st.exhaustive_done,
                "labels": st.labels,
                "matched_open_known_findings": st.known_hits,
                "rule": rules.get(name).cloned().unwrap_or_default(),
            }),
        );
    }
    let rule_text = rules
        .iter()
        .map(|(k, v)| format!("[{}] {}", k, v))
        .collect::<Vec<_>>()
        .join(" || ");
    let viol = cx.violations.lock().unwrap();
    let mut coverage = json!({
        "evaluations": evaluations,
        "distinct_nontrivial": distinct,
        "rule": format!("Cases are generated by proptest strategies (ChaCha RNG seeded from VERIF_SEED^fnv(property,check,worker)), plus committed replay files; a case counts as non-trivial when: {} . distinct = distinct structural hash of the case among the non-trivial ones.", rule_text),
        "samples": samples,
        "per_check": per_check,
        "replay_files_replayed": replayed,
        "known_finding_lines": *cx.known_lines.lock().unwrap(),
        "cases_matching_open_known_findings": excluded_known,
        "notes": *cx.notes.lock().unwrap(),
    });
    if exhaustive_all {
        coverage["exhaustive"] = json!(true);
    }
    if let (Some(c), Some(e)) = (coverage.as_object_mut(), extra.as_object()) {
        for (k, v) in e {
            c.insert(k.clone(), v.clone());
        }
    }
    let doc = json!({
        "property_id": cx.property,
        "tier": cx.tier.name(),
        "seed": cx.seed,
        "level": level,
        "coverage": coverage,
        "assumptions": assumptions,
        "wall_s": cx.started.elapsed().as_secs_f64(),
        "violations": viol.len(),
    });
    let dir = verif_root().join("evidence");
    let _ = std::fs::create_dir_all(&dir);
    let p = dir.join(format!("{}.json", cx.property));
    std::fs::write(&p, serde_json::to_string_pretty(&doc).unwrap()).expect("write evidence");
}

/// development aid: append one failing case to target/survey-<ID>.{log,jsonl}
fn survey_log(property: &str, name: &str, v: &Verdict, case: &serde_json::Value) {
    use std::io::Write;
    let (class, msg) = match v {
        Verdict::Fail(m) => ("UNCLASSIFIED".to_string(), m.clone()),
        Verdict::Known { id, msg } => (id.clone(), msg.clone()),
        _ => return,
    };
    static LOCK: Mutex<()> = Mutex::new(());
    let _g = LOCK.lock().unwrap();
    let p = verif_root().join("target").join(format!("survey-{}.log", property));
    if let Ok(mut f) = std::fs::OpenOptions::new().create(true).append(true).open(p) {
        let _ = writeln!(f, "=== {} [{}]\n{}\n", name, class, msg);
    }
    let p = verif_root().join("target").join(format!("survey-{}.jsonl", property));
    if let Ok(mut f) = std::fs::OpenOptions::new().create(true).append(true).open(p) {
        let doc = json!({"property": property, "check": name, "class": class, "expect": "pass", "message": msg, "case": case});
        let _ = writeln!(f, "{}", doc);
    }
}
