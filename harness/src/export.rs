//! Export generated SQL cases + the reference evaluator's answers for the
//! SQLite cross-check of `refsql` itself (tools/sqlite_crosscheck.py).
//! Not part of any property's deciding path.

use crate::data::*;
use crate::refsql::Db;
use crate::sqlgen::*;
use proptest::strategy::{Strategy, ValueTree};
use proptest::test_runner::{Config, RngAlgorithm, TestRng, TestRunner};
use serde_json::json;

fn jv(v: &Value) -> serde_json::Value {
    match v {
        Value::Null => serde_json::Value::Null,
        Value::Int(i) => json!(i),
        Value::Double(d) => json!(d),
        Value::Str(s) => json!(s),
        Value::Date(d) => json!(date_string(*d)),
        Value::Bool(b) => json!(if *b { 1 } else { 0 }),
    }
}

pub fn export(profile_name: &str, n: usize, seed: u64, out: &str) {
    let mut profile = match profile_name {
        "full" => Profile::full(),
        "windows" => {
            let mut p = Profile::minimal();
            p.windows = true;
            p.order_by = true;
            p
        }
        "groupsets" => {
            let mut p = Profile::minimal();
            p.grouping_sets = true;
            p.group_by = true;
            p
        }
        _ => Profile::full(),
    };
    // outside SQLite's dialect or semantics
    profile.semi_anti_joins = false;
    profile.set_all = false; // SQLite has no INTERSECT ALL / EXCEPT ALL
    let mut tp = TableProfile::default();
    tp.max_rows = 8;
    // focused generators of single properties (cross-check of the reference on
    // exactly the statements those properties judge)
    let strat = match profile_name {
        "c28" => crate::props::c28::strategy(crate::runner::Tier::Quick),
        "values" => crate::props::c44::export_strategy(),
        "windows" => crate::props::c26::export_strategy(),
        _ => sql_case_strategy(tp, profile, 220, 2),
    };
    let mut seed_bytes = [0u8; 32];
    seed_bytes[..8].copy_from_slice(&seed.to_le_bytes());
    let mut runner = TestRunner::new_with_rng(Config::default(), TestRng::from_seed(RngAlgorithm::ChaCha, &seed_bytes));
    let mut cases = vec![];
    let mut skipped = 0usize;
    while cases.len() < n {
        let c = strat.new_tree(&mut runner).unwrap().current();
        // SQLite gives the comma the same precedence as JOIN (`a, b RIGHT JOIN c`
        // = `(a, b) RIGHT JOIN c`); the standard (and sqlparser) bind JOIN tighter.
        // Statements mixing a comma with RIGHT/FULL joins are therefore not comparable.
        let has = |f: &str| c.features.iter().any(|x| x == f);
        if has("join_comma") && (has("join_right") || has("join_full")) {
            skipped += 1;
            continue;
        }
        let db = Db::new(&c.tables);
        if std::env::var("EXPORT_DEBUG").is_ok() {
            eprintln!("[{}] {}", cases.len(), c.query.sql());
        }
        let ans = match db.run(&c.query) {
            Ok(a) => a,
            Err(_) => {
                skipped += 1;
                continue;
            }
        };
        set_sqlite_dialect(true);
        let sql = c.query.sql();
        set_sqlite_dialect(false);
        let tables: Vec<_> = c
            .tables
            .iter()
            .map(|t| {
                json!({
                    "name": t.name,
                    "cols": t.cols.iter().map(|c| json!([c.name, format!("{:?}", c.ty)])).collect::<Vec<_>>(),
                    "rows": t.rows.iter().map(|r| r.iter().map(jv).collect::<Vec<_>>()).collect::<Vec<_>>(),
                })
            })
            .collect();
        cases.push(json!({
            "sql": sql,
            "engine_sql": c.query.sql(),
            "tables": tables,
            "ref_rows": ans.rows.iter().map(|r| r.iter().map(jv).collect::<Vec<_>>()).collect::<Vec<_>>(),
            "ordered": ans.sorted_full.is_some(),
            "tie_groups": ans.sorted_full.as_ref().map(|(_, g)| g.clone()),
            "limit": ans.limit, "offset": ans.offset,
            "features": c.features,
        }));
    }
    std::fs::write(out, serde_json::to_string(&json!({"cases": cases, "skipped_ref_errors": skipped})).unwrap()).unwrap();
    println!("exported {} cases to {} ({} skipped: outside refsql's dialect)", n, out, skipped);
}
