//! Signatures of the known findings of the SQL-answer properties.
//!
//! A disagreement with the reference is attributed to a finding only when the
//! case satisfies that finding's *signature predicate* below — a statement
//! shape plus a data condition observed by the reference evaluator — and the
//! finding is listed `open` for the running property in known_findings.json.
//! Anything else is a VIOLATION. Keep every predicate as narrow as the
//! evidence allows; `summary()` texts are what known_findings.json records.

use crate::sqlast::*;
use crate::sqlcheck::{has, has_prefix};
use crate::sqlgen::SqlCase;
use std::collections::BTreeSet;

pub type Ev = BTreeSet<&'static str>;

/// number of base relations / derived tables referenced in the outermost FROM trees
/// The largest number of relations joined by any single query block of the
/// statement (outermost SELECT, set-operation branches, CTE and derived-table
/// bodies, subqueries inside expressions).
pub fn from_items(q: &Query) -> usize {
    // (relations in this FROM tree, max over nested blocks)
    fn in_from(f: &From, best: &mut usize) -> usize {
        match f {
            From::Join { l, r, on, .. } => {
                if let Some(e) = on {
                    in_expr(e, best);
                }
                in_from(l, best) + in_from(r, best)
            }
            // a derived table is flattened into its parent by the optimizer, so it
            // counts as the relations its own outermost block joins
            From::Derived { q, .. } => {
                let inner = from_items(q);
                *best = (*best).max(inner);
                inner.max(1)
            }
            From::Table { .. } => 1,
        }
    }
    fn in_expr(e: &Expr, best: &mut usize) {
        e.walk(&mut |x| match x {
            Expr::Exists { q, .. } | Expr::Scalar(q) | Expr::InSub { q, .. } => {
                *best = (*best).max(from_items(q));
            }
            _ => {}
        });
    }
    fn in_set(s: &SetExpr, best: &mut usize) {
        match s {
            SetExpr::Select(sel) => {
                let n: usize = sel.from.iter().map(|f| in_from(f, best)).sum();
                *best = (*best).max(n);
                for it in &sel.items {
                    if let Item::Expr(e, _) = it {
                        in_expr(e, best);
                    }
                }
                for e in sel.where_.iter().chain(sel.having.iter()) {
                    in_expr(e, best);
                }
            }
            SetExpr::Op { l, r, .. } => {
                in_set(l, best);
                in_set(r, best);
            }
            SetExpr::Nested(q) => *best = (*best).max(from_items(q)),
            SetExpr::Values(_) => {}
        }
    }
    let mut best = 0;
    in_set(&q.body, &mut best);
    for c in &q.with {
        best = best.max(from_items(&c.q));
    }
    best
}

/// Like `from_items`, but a reference to a CTE counts as the relations the
/// CTE's own body joins (CTEs and derived tables are inlined by the planner, so
/// `w JOIN r` with `w AS (SELECT … FROM a JOIN b)` is a 3-way join).
pub fn flat_relations(q: &Query) -> usize {
    fn go(q: &Query, outer: &[(String, usize)]) -> usize {
        let mut ctes: Vec<(String, usize)> = outer.to_vec();
        let mut best = 0usize;
        for c in &q.with {
            let n = go(&c.q, &ctes);
            best = best.max(n);
            ctes.push((c.name.to_lowercase(), n));
        }
        fn in_from(f: &From, ctes: &[(String, usize)], best: &mut usize) -> usize {
            match f {
                From::Join { l, r, .. } => in_from(l, ctes, best) + in_from(r, ctes, best),
                From::Derived { q, .. } => {
                    let n = go(q, ctes);
                    *best = (*best).max(n);
                    n.max(1)
                }
                From::Table { name, .. } => ctes
                    .iter()
                    .rev()
                    .find(|(n, _)| *n == name.to_lowercase())
                    .map(|(_, k)| (*k).max(1))
                    .unwrap_or(1),
            }
        }
        fn in_set(s: &SetExpr, ctes: &[(String, usize)], best: &mut usize) {
            match s {
                SetExpr::Select(sel) => {
                    let n: usize = sel.from.iter().map(|f| in_from(f, ctes, best)).sum();
                    *best = (*best).max(n);
                }
                SetExpr::Op { l, r, .. } => {
                    in_set(l, ctes, best);
                    in_set(r, ctes, best);
                }
                SetExpr::Nested(q) => *best = (*best).max(go(q, ctes)),
                SetExpr::Values(_) => {}
            }
        }
        in_set(&q.body, &ctes, &mut best);
        // subqueries inside expressions
        walk_query_exprs(q, &mut |e| match e {
            Expr::Exists { q, .. } | Expr::Scalar(q) | Expr::InSub { q, .. } => {
                best = best.max(go(q, &ctes));
            }
            _ => {}
        });
        best
    }
    go(q, &[])
}

/// Does some query block reference the same CTE twice, or contain two
/// structurally identical derived tables?
pub fn shared_subplan_twice(q: &Query) -> bool {
    fn collect(f: &From, names: &mut Vec<String>, derived: &mut Vec<String>) {
        match f {
            From::Table { name, .. } => names.push(name.to_lowercase()),
            From::Derived { q, .. } => derived.push(q.sql()),
            From::Join { l, r, .. } => {
                collect(l, names, derived);
                collect(r, names, derived);
            }
        }
    }
    fn dup(v: &[String]) -> bool {
        (0..v.len()).any(|i| v[i + 1..].contains(&v[i]))
    }
    fn in_set(s: &SetExpr, ctes: &[String]) -> bool {
        match s {
            SetExpr::Select(sel) => {
                let (mut names, mut derived) = (vec![], vec![]);
                for f in &sel.from {
                    collect(f, &mut names, &mut derived);
                }
                let cte_refs: Vec<String> = names.into_iter().filter(|n| ctes.contains(n)).collect();
                dup(&cte_refs) || dup(&derived)
            }
            SetExpr::Op { l, r, .. } => in_set(l, ctes) || in_set(r, ctes),
            SetExpr::Nested(q) => shared_subplan_twice(q),
            SetExpr::Values(_) => false,
        }
    }
    let ctes: Vec<String> = q.with.iter().map(|c| c.name.to_lowercase()).collect();
    in_set(&q.body, &ctes) || q.with.iter().any(|c| shared_subplan_twice(&c.q))
}

/// Visit every expression of every query block (items, WHERE, HAVING, ON,
/// ORDER BY keys, subqueries, derived tables, CTE bodies).
pub fn walk_query_exprs<'a>(q: &'a Query, f: &mut dyn FnMut(&'a Expr)) {
    fn expr<'a>(e: &'a Expr, f: &mut dyn FnMut(&'a Expr)) {
        e.walk(&mut |x| {
            f(x);
            match x {
                Expr::Exists { q, .. } | Expr::Scalar(q) | Expr::InSub { q, .. } => walk_query_exprs(q, f),
                _ => {}
            }
        });
    }
    fn from<'a>(fr: &'a From, f: &mut dyn FnMut(&'a Expr)) {
        match fr {
            From::Join { l, r, on, .. } => {
                if let Some(e) = on {
                    expr(e, f);
                }
                from(l, f);
                from(r, f);
            }
            From::Derived { q, .. } => walk_query_exprs(q, f),
            From::Table { .. } => {}
        }
    }
    fn set<'a>(s: &'a SetExpr, f: &mut dyn FnMut(&'a Expr)) {
        match s {
            SetExpr::Select(sel) => {
                for it in &sel.items {
                    if let Item::Expr(e, _) = it {
                        expr(e, f);
                    }
                }
                for fr in &sel.from {
                    from(fr, f);
                }
                for e in sel.where_.iter().chain(sel.having.iter()) {
                    expr(e, f);
                }
            }
            SetExpr::Op { l, r, .. } => {
                set(l, f);
                set(r, f);
            }
            SetExpr::Nested(q) => walk_query_exprs(q, f),
            SetExpr::Values(rows) => {
                for r in rows {
                    for e in r {
                        expr(e, f);
                    }
                }
            }
        }
    }
    for c in &q.with {
        walk_query_exprs(&c.q, f);
    }
    set(&q.body, f);
    for k in &q.order_by {
        expr(&k.e, f);
    }
}

/// An EXISTS / IN / scalar subquery whose own FROM contains a derived table.
pub fn subquery_over_derived(c: &SqlCase) -> bool {
    // a FROM item that is a derived table or names something that is not a base
    // table (i.e. a CTE)
    fn has_derived(f: &From, base: &[String]) -> bool {
        match f {
            From::Derived { .. } => true,
            From::Join { l, r, .. } => has_derived(l, base) || has_derived(r, base),
            From::Table { name, .. } => !base.contains(&name.to_lowercase()),
        }
    }
    fn body_has_derived(s: &SetExpr, base: &[String]) -> bool {
        match s {
            SetExpr::Select(sel) => sel.from.iter().any(|f| has_derived(f, base)),
            SetExpr::Op { l, r, .. } => body_has_derived(l, base) || body_has_derived(r, base),
            SetExpr::Nested(q) => body_has_derived(&q.body, base),
            SetExpr::Values(_) => false,
        }
    }
    let base: Vec<String> = c.tables.iter().map(|t| t.name.to_lowercase()).collect();
    let mut hit = false;
    walk_query_exprs(&c.query, &mut |e| match e {
        Expr::Exists { q, .. } | Expr::Scalar(q) | Expr::InSub { q, .. } => {
            if body_has_derived(&q.body, &base) {
                hit = true;
            }
        }
        _ => {}
    });
    hit
}

/// A query block that joins two or more relations and whose WHERE contains an
/// EXISTS / IN / scalar subquery.
pub fn subquery_predicate_over_join(c: &SqlCase) -> bool {
    fn count(f: &From) -> usize {
        match f {
            From::Join { l, r, .. } => count(l) + count(r),
            _ => 1,
        }
    }
    fn block(sel: &Select) -> bool {
        let n: usize = sel.from.iter().map(count).sum();
        n >= 2 && sel.where_.as_ref().map(|w| w.contains_subquery()).unwrap_or(false)
    }
    fn set(s: &SetExpr) -> bool {
        match s {
            SetExpr::Select(sel) => block(sel),
            SetExpr::Op { l, r, .. } => set(l) || set(r),
            SetExpr::Nested(q) => query(q),
            SetExpr::Values(_) => false,
        }
    }
    fn query(q: &Query) -> bool {
        set(&q.body) || q.with.iter().any(|c| query(&c.q))
    }
    query(&c.query)
}

/// MIN/MAX over a column that is VARCHAR in some table of the case
pub fn minmax_over_string(c: &SqlCase) -> bool {
    let mut hit = false;
    walk_query_exprs(&c.query, &mut |e| {
        if let Expr::Agg { f: AggF::Min | AggF::Max, arg: Some(a), .. } = e {
            if let Expr::Col { name, .. } = &**a {
                if c.tables.iter().any(|t| t.cols.iter().any(|col| col.name.eq_ignore_ascii_case(name) && col.ty == crate::data::ColType::Str)) {
                    hit = true;
                }
            }
        }
    });
    hit
}

pub struct Sig {
    pub id: &'static str,
    pub summary: &'static str,
    pub signature: &'static str,
    pub pred: fn(&SqlCase, &Ev) -> bool,
}

/// Ordered: the first matching signature names the finding.
pub const SIGS: &[Sig] = &[
    Sig {
        id: "case-simple-operand-ignored",
        summary: "simple CASE (`CASE x WHEN v THEN …`) ignores its operand: the WHEN value is evaluated as a condition, so a wrong branch value is returned instead of an error or the SQL value",
        signature: "statement contains a simple CASE expression (CASE <operand> WHEN …) that is evaluated for at least one row",
        pred: |_, ev| ev.contains("case_simple"),
    },
    Sig {
        id: "agg-null-group-key",
        summary: "grouped aggregation over a key that is NULL for some input row drops or splits the NULL group (fused streaming / raw integer-key aggregation paths)",
        signature: "GROUP BY statement in which some grouping key evaluates to NULL for at least one input row of the aggregation",
        pred: |_, ev| ev.contains("null_group_key"),
    },
    Sig {
        id: "agg-empty-input",
        summary: "a global aggregate (no GROUP BY) over zero input rows returns a sentinel (i64::MIN/MAX, date(-2147483648)) or a wrong row instead of NULL for MIN/MAX/SUM/AVG",
        signature: "statement (or one of its subqueries) evaluates an aggregate without GROUP BY over an empty input, or SUM/AVG/MIN/MAX over a group none of whose inputs is non-NULL",
        pred: |_, ev| ev.contains("global_agg_empty_input") || ev.contains("agg_no_nonnull_input"),
    },
    Sig {
        id: "agg-sum-over-derived-column-null",
        summary: "a grouped SUM/AVG over a column of a derived table / CTE returns NULL (`SELECT c2, SUM(c2) FROM (SELECT a AS c2 FROM r) t GROUP BY c2` gives (0, NULL)); the same aggregate over a base-table column is correct — the fused aggregation cannot resolve the aliased column's type",
        signature: "GROUP BY statement over a derived table or CTE that contains a SUM or AVG aggregate",
        pred: |c, _| has(c, "group_by") && (has(c, "derived") || has(c, "cte")) && {
            let mut hit = false;
            walk_query_exprs(&c.query, &mut |e| {
                if matches!(e, Expr::Agg { f: AggF::Sum | AggF::Avg, .. }) {
                    hit = true;
                }
            });
            hit
        },
    },
    Sig {
        id: "setop-all-multiplicity",
        summary: "INTERSECT ALL / EXCEPT ALL are planned as semi/anti joins, so result multiplicities are wrong",
        signature: "statement contains INTERSECT ALL or EXCEPT ALL",
        pred: |_, ev| ev.contains("intersect_or_except_all"),
    },
    Sig {
        id: "setop-null-row",
        summary: "UNION/INTERSECT/EXCEPT treat NULLs as distinct (join-key comparison): NULL-containing rows are not de-duplicated / matched",
        signature: "set operation one of whose inputs contains a row with a NULL",
        pred: |_, ev| ev.contains("null_in_setop_row"),
    },
    Sig {
        id: "in-subquery-null",
        summary: "[NOT] IN (subquery) does not follow three-valued logic when the left operand or a subquery value is NULL (NOT IN over a set containing NULL keeps rows)",
        signature: "[NOT] IN subquery where the left operand or an element of the subquery result is NULL for some outer row",
        pred: |_, ev| ev.contains("in_subquery_null") || ev.contains("not_in_subquery_null"),
    },
    Sig {
        id: "correlated-subquery",
        summary: "correlated IN / EXISTS / scalar subqueries return wrong rows after decorrelation (duplicates, rows that do not match, or missing rows), even without NULLs",
        signature: "statement contains a subquery whose WHERE references a column of the enclosing query",
        pred: |c, _| has(c, "correlated") || has(c, "correlated_ref"),
    },
    Sig {
        id: "in-list-null-operand",
        summary: "IN-list with a NULL left operand (string hash-set fast path) yields FALSE/TRUE instead of NULL",
        signature: "IN / NOT IN list whose left operand is NULL (or which has a NULL element) for some evaluated row",
        pred: |_, ev| ev.contains("in_list_null"),
    },
    Sig {
        id: "join-3way",
        summary: "statements joining three or more relations return wrong rows (predicate pushdown through OR, join reordering with outer joins, NULL-extended rows lost)",
        signature: "some query block joins three or more base relations, counting the relations of CTEs and derived tables it references (they are inlined)",
        pred: |c, _| flat_relations(&c.query) >= 3,
    },
    Sig {
        id: "subquery-over-derived-table",
        summary: "an uncorrelated EXISTS / IN / scalar subquery whose FROM is a derived table evaluates to a wrong value (e.g. COUNT(*) over a derived LEFT JOIN, NOT EXISTS over a grouped derived table)",
        signature: "EXISTS / IN / scalar subquery whose own FROM clause contains a derived table or a CTE reference",
        pred: |c, _| subquery_over_derived(c),
    },
    Sig {
        id: "subquery-predicate-over-join",
        summary: "an IN / EXISTS / scalar subquery predicate in the WHERE of a query block that joins two or more relations filters wrongly (semi-join placed against the wrong input; all rows lost)",
        signature: "query block whose FROM joins two or more relations and whose WHERE contains an EXISTS / IN / scalar subquery",
        pred: |c, _| subquery_predicate_over_join(c),
    },
    Sig {
        id: "agg-minmax-string-after-join",
        summary: "MIN/MAX over a VARCHAR column above a join returns NULL (the join hands the aggregate a dictionary-encoded string column the accumulator ignores)",
        signature: "MIN or MAX whose argument is a VARCHAR column, in a query block whose FROM joins two or more relations",
        pred: |c, ev| (minmax_over_string(c) || ev.contains("minmax_string")) && flat_relations(&c.query) >= 2,
    },
    Sig {
        id: "shared-subplan-self-join",
        summary: "a CTE (or the same derived table) referenced twice in one FROM clause — a self-join of a shared sub-plan — returns wrong rows (NULL-extension lost, rows duplicated or dropped)",
        signature: "one query block references the same CTE name twice, or contains two structurally identical derived tables",
        pred: |c, _| shared_subplan_twice(&c.query),
    },
    Sig {
        id: "distinct-after-join-null",
        summary: "DISTINCT above a join does not merge rows that contain NULLs",
        signature: "SELECT DISTINCT over a join where some projected row contains a NULL",
        pred: |c, ev| ev.contains("null_in_distinct_row") && (has_prefix(c, "join_")),
    },
];

pub fn classify_sql(c: &SqlCase, ev: &Ev, _msg: &str) -> Option<&'static str> {
    // every signature the case meets; an OPEN finding wins over a fixed one (see runner::is_open_id)
    let hits: Vec<&Sig> = SIGS.iter().filter(|s| (s.pred)(c, ev)).collect();
    hits.iter().find(|s| crate::runner::is_open_id(s.id)).or(hits.first()).map(|s| s.id)
}
