//! qe_verif — property-based testing / fuzzing harness for iceberg-query-engine.
//! See /verif/DESIGN.md.
pub mod data;
pub mod engine;
pub mod props;
pub mod runner;
pub mod worker;
pub mod refsql;
pub mod sqlast;
pub mod sqlgen;
pub mod export;
pub mod kf_sql;
pub mod sqlcheck;
