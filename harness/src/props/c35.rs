//! C35 — The SQL front door decides and encodes consistently.
//!
//! A case is a node lifecycle history: how node 0's table loader behaves
//! (immediate / sleepy / gated by the check / failing), which peers it is told
//! about (up, down = an address nobody listens on, never-probed, up but never
//! loaded, up and later killed without a re-probe), and three request phases
//! (`pre`: while the loader is still held back; `main`: after load and one
//! probe round; `after`: after a peer was killed behind the prober's back).
//! Every request names a statement (scatter-able / gather-only / nothing to
//! distribute / invalid), a mode (auto, 1, 0) and a format (arrow, json, csv).
//!
//! Oracle (decision table from server.rs' documented contract), evaluated
//! against the membership view the node itself reports before and after the
//! request (a changed view discards the case — no wall-clock assumptions):
//!  * before the load finishes `/sql` and `/fragment` answer 503 ("still
//!    loading"), `/readyz` 503, `/healthz` 200; a failed load answers 503
//!    forever and the explanation carries the loader's own message;
//!  * `distributed=0` answers locally; auto distributes iff >= 2 members are
//!    up and `plan_distributed` accepts the statement, otherwise answers
//!    locally with `x-qe-distributed: false` and a non-empty
//!    `x-qe-distributed-skipped`;
//!  * `distributed=1` never yields 200 with `x-qe-distributed: false`; when a
//!    member the node believes up cannot do its share, the only acceptable 200
//!    is a distributed one with the right rows — never a local fallback;
//!  * a local answer's Arrow / JSON / CSV body decodes (arrow IPC reader,
//!    serde_json, csv crate) to exactly the rows `ctx.sql` returns on one node
//!    over the same files; a distributed JSON/CSV body decodes to the rows of
//!    the same request's Arrow body; `x-qe-rows` = rows in the body.
#[path = "c34_util.rs"]
mod util;

use super::Property;
use crate::data::{self, batches_to_rows, multiset_eq, rows_eq, Rows, TempDir, Value};
use crate::engine::block_on;
use crate::runner::*;
use arrow::datatypes::DataType;
use proptest::prelude::*;
use query_engine::distributed::{HttpResponse, ServerHandle};
use query_engine::error::QueryError;
use serde::{Deserialize, Serialize};
use serde_json::Value as J;
use util::*;

#[derive(Clone, Copy, Debug, Serialize, Deserialize, PartialEq, Eq)]
pub enum Mode {
    Auto,
    Force,
    Off,
}
#[derive(Clone, Copy, Debug, Serialize, Deserialize, PartialEq, Eq)]
pub enum Format {
    Arrow,
    Json,
    Csv,
}
#[derive(Clone, Copy, Debug, Serialize, Deserialize, PartialEq, Eq)]
pub enum Loader {
    Immediate,
    /// sleeps this many ms before loading; requests race it
    Sleepy(u16),
    /// held back until the check has made its `pre` requests
    Gated,
    Fails,
    GatedFails,
}
#[derive(Clone, Copy, Debug, Serialize, Deserialize, PartialEq, Eq)]
pub enum Peer {
    Up,
    /// an address nobody listens on
    Down,
    /// listed as a member but never probed
    Unknown,
    /// answers /healthz (so it is seen up) but its tables never load
    UpNotLoaded,
    /// up for the `main` phase, shut down before the `after` phase while node 0 still believes it up
    UpThenKilled,
}

#[derive(Clone, Debug, Serialize, Deserialize)]
pub struct Req {
    pub sql: String,
    pub kind: String,
    pub total_order: bool,
    pub mode: Mode,
    /// value of `?distributed=`; None = absent
    pub mode_text: Option<String>,
    pub format: Format,
    /// value of `?format=`; None = absent (arrow)
    pub format_text: Option<String>,
}

#[derive(Clone, Debug, Serialize, Deserialize)]
pub struct C35Case {
    pub spec: TableSpec,
    pub dim_rows: u8,
    pub loader: Loader,
    pub peers: Vec<Peer>,
    pub pre: Vec<Req>,
    pub pre_fragment: bool,
    pub main: Vec<Req>,
    pub main_fragment: bool,
    pub after: Vec<Req>,
}

// ---------------------------------------------------------------------------
// generator
// ---------------------------------------------------------------------------

fn render(tpl: u8, a: usize, b: usize) -> (String, &'static str, bool) {
    match tpl {
        // ---- exactly-mergeable shapes (concat / top-n / two-phase)
        0 => (format!("SELECT id, k, v, s, dt FROM t WHERE id < {a}"), "concat", false),
        1 => (format!("SELECT id, s FROM t WHERE id >= {a} ORDER BY id"), "sorted", true),
        2 => (format!("SELECT id, v FROM t ORDER BY id DESC LIMIT {}", a % 50), "topn", true),
        3 => ("SELECT k, COUNT(*) AS c, SUM(v) AS sv, MIN(id) AS lo, MAX(s) AS hs FROM t GROUP BY k".into(), "group_agg", false),
        4 => (format!("SELECT COUNT(*) AS c, SUM(id) AS si, MIN(dt) AS ld, MAX(s) AS hs FROM t WHERE id <= {a}"), "global_agg", true),
        5 => (format!("SELECT k, AVG(v) AS av, COUNT(v) AS cv FROM t WHERE id < {a} GROUP BY k ORDER BY k"), "group_avg_sorted", true),
        6 => ("SELECT d.name AS dn, COUNT(*) AS c FROM t JOIN d ON t.k = d.k GROUP BY d.name".into(), "join_dim_agg", false),
        7 => (format!("SELECT id, UPPER(s) AS u, v * 2 AS w, dt FROM t WHERE k = {} AND id < {a}", b % 4), "concat_exprs", false),
        // ---- gather-only shapes
        8 => ("SELECT DISTINCT k FROM t ORDER BY k".into(), "distinct", true),
        9 => ("SELECT COUNT(DISTINCT k) AS n FROM t".into(), "count_distinct", true),
        10 => (format!("WITH x AS (SELECT id, k FROM t WHERE id < {a}) SELECT k, COUNT(*) AS c FROM x GROUP BY k"), "cte_agg", false),
        11 => (format!("SELECT id AS x FROM t WHERE id < {a} UNION ALL SELECT k AS x FROM d"), "union_all", false),
        12 => (format!("SELECT id, ROW_NUMBER() OVER (ORDER BY id) AS rn FROM t WHERE id < {a} ORDER BY id"), "window", true),
        13 => (format!("SELECT x.id AS xid, y.k AS yk FROM t x JOIN t y ON x.id = y.id WHERE x.id < {a} ORDER BY x.id"), "self_join", true),
        // ---- nothing to distribute
        14 => ("SELECT 1 AS one".into(), "no_table", true),
        // ---- invalid
        15 => (["SELEC 1", "SELECT id FROM t WHERE", "SELECT (id FROM t"][a % 3].into(), "err_parse", true),
        16 => ("SELECT * FROM nope".into(), "err_table", true),
        17 => ("SELECT nope FROM t".into(), "err_column", true),
        18 => (["DROP TABLE t", "INSERT INTO t VALUES (1)"][a % 2].into(), "err_not_select", true),
        _ => ("SELECT CAST(s AS BIGINT) AS x FROM t WHERE s IS NOT NULL".into(), "err_runtime", false),
    }
}

fn req_strategy(rows: usize) -> impl Strategy<Value = Req> {
    let tpl = prop_oneof![8 => 0u8..8, 4 => 8u8..14, 1 => Just(14u8), 3 => 15u8..20];
    let mode = prop_oneof![4 => Just(Mode::Auto), 3 => Just(Mode::Force), 2 => Just(Mode::Off)];
    let format = prop_oneof![Just(Format::Arrow), Just(Format::Json), Just(Format::Csv)];
    (tpl, any::<u16>(), any::<u16>(), mode, format, any::<u8>()).prop_map(move |(tpl, fa, fb, mode, format, sp)| {
        let a = if fa & 1 == 0 { rows + 1 - data::pick_idx(fa, rows / 4 + 1) } else { data::pick_idx(fa, rows + 2) };
        let (sql, kind, total_order) = render(tpl, a, fb as usize);
        let mode_text = match mode {
            Mode::Auto => [None, Some("auto")][sp as usize % 2],
            Mode::Force => [Some("1"), Some("true"), Some("force"), Some("yes")][sp as usize % 4],
            Mode::Off => [Some("0"), Some("false"), Some("local"), Some("no")][sp as usize % 4],
        }
        .map(String::from);
        let format_text = match format {
            Format::Arrow => [None, Some("arrow"), Some("ipc")][(sp / 4) as usize % 3],
            Format::Json => Some("json"),
            Format::Csv => Some("csv"),
        }
        .map(String::from);
        Req { sql, kind: kind.to_string(), total_order, mode, mode_text, format, format_text }
    })
}

fn case_strategy(_tier: Tier) -> BoxedStrategy<C35Case> {
    let rows = prop_oneof![1 => Just(0usize), 4 => 1usize..40, 10 => 40usize..400];
    let spec = (
        rows,
        1u32..6,
        prop_oneof![Just(0u32), Just(2), Just(5)],
        0u16..24,
        prop_oneof![3 => Just((0u32, 0u32)), 1 => (7u32..50, 100u32..3000)],
        any::<u32>(),
        prop_oneof![Just(8usize), Just(64), Just(1 << 20)],
        1u8..4,
        prop::bool::weighted(0.9),
    )
        .prop_map(|(rows, kmod, null_every, str_width, (wide_every, wide_len), salt, rg_size, files, k_not_null)| TableSpec {
            rows,
            kmod,
            null_every,
            str_width,
            wide_every,
            wide_len,
            salt,
            rg_size,
            files,
            k_not_null,
        });
    let loader = prop_oneof![
        2 => Just(Loader::Immediate),
        2 => (0u16..40).prop_map(Loader::Sleepy),
        7 => Just(Loader::Gated),
        1 => Just(Loader::Fails),
        1 => Just(Loader::GatedFails),
    ];
    let any_peer = prop_oneof![
        6 => Just(Peer::Up),
        2 => Just(Peer::Down),
        2 => Just(Peer::Unknown),
        1 => Just(Peer::UpNotLoaded),
        3 => Just(Peer::UpThenKilled),
    ];
    let peers = prop_oneof![
        1 => Just(vec![]),
        3 => any_peer.clone().prop_map(|p| vec![p]),
        4 => (any_peer.clone(), any_peer.clone()).prop_map(|(p, q)| vec![p, q]),
        3 => any_peer.prop_map(|p| vec![Peer::Up, p]),
    ];
    (spec, 0u8..6, loader, peers, any::<bool>(), any::<bool>())
        .prop_flat_map(|(spec, dim_rows, loader, peers, pre_fragment, main_fragment)| {
            let rows = spec.rows;
            (
                Just(spec),
                Just(dim_rows),
                Just(loader),
                Just(peers),
                proptest::collection::vec(req_strategy(rows), 1..3),
                Just(pre_fragment),
                proptest::collection::vec(req_strategy(rows), 1..6),
                Just(main_fragment),
                proptest::collection::vec(req_strategy(rows), 1..4),
            )
        })
        .prop_map(|(spec, dim_rows, loader, peers, pre, pre_fragment, main, main_fragment, after)| C35Case {
            spec,
            dim_rows,
            loader,
            peers,
            pre,
            pre_fragment,
            main,
            main_fragment,
            after,
        })
        .boxed()
}

// ---------------------------------------------------------------------------
// decoding the three body formats
// ---------------------------------------------------------------------------

type Sig = Vec<(String, DataType)>;

fn parse_date(s: &str) -> Option<i32> {
    let d = chrono::NaiveDate::parse_from_str(s, "%Y-%m-%d").ok()?;
    Some((d - chrono::NaiveDate::from_ymd_opt(1970, 1, 1)?).num_days() as i32)
}

fn json_cell(v: &J, t: &DataType) -> Result<Value, String> {
    if v.is_null() {
        return Ok(Value::Null);
    }
    let bad = || format!("JSON value {v} does not encode a {t:?}");
    Ok(match t {
        DataType::Int8 | DataType::Int16 | DataType::Int32 | DataType::Int64 | DataType::UInt8 | DataType::UInt16 | DataType::UInt32 | DataType::UInt64 => {
            Value::Int(v.as_i64().ok_or_else(bad)?)
        }
        DataType::Float32 | DataType::Float64 => Value::Double(v.as_f64().ok_or_else(bad)?),
        DataType::Utf8 | DataType::LargeUtf8 | DataType::Utf8View => Value::Str(v.as_str().ok_or_else(bad)?.to_string()),
        DataType::Boolean => Value::Bool(v.as_bool().ok_or_else(bad)?),
        DataType::Date32 => Value::Date(v.as_str().and_then(parse_date).ok_or_else(bad)?),
        other => return Err(format!("UNSUPPORTED column type {other:?}")),
    })
}

fn csv_cell(s: &str, t: &DataType) -> Result<Value, String> {
    // the Arrow CSV writer renders NULL as the empty field
    if s.is_empty() {
        return Ok(Value::Null);
    }
    let bad = || format!("CSV field {s:?} does not encode a {t:?}");
    Ok(match t {
        DataType::Int8 | DataType::Int16 | DataType::Int32 | DataType::Int64 | DataType::UInt8 | DataType::UInt16 | DataType::UInt32 | DataType::UInt64 => {
            Value::Int(s.parse::<i64>().map_err(|_| bad())?)
        }
        DataType::Float32 | DataType::Float64 => Value::Double(s.parse::<f64>().map_err(|_| bad())?),
        DataType::Utf8 | DataType::LargeUtf8 | DataType::Utf8View => Value::Str(s.to_string()),
        DataType::Boolean => Value::Bool(match s {
            "true" => true,
            "false" => false,
            _ => return Err(bad()),
        }),
        DataType::Date32 => Value::Date(parse_date(s).ok_or_else(bad)?),
        other => return Err(format!("UNSUPPORTED column type {other:?}")),
    })
}

/// Decode a 200 body into rows, reading text formats against `sig`.
fn decode_body(format: Format, body: &[u8], sig: &Sig) -> Result<Rows, String> {
    match format {
        Format::Arrow => {
            let (schema, batches) = decode_ipc(body)?;
            let got = schema_sig(&schema);
            if &got != sig {
                return Err(format!("Arrow body has schema [{}], expected [{}]", fmt_sig(&got), fmt_sig(sig)));
            }
            Ok(batches_to_rows(&batches))
        }
        Format::Json => {
            let v: J = serde_json::from_slice(body).map_err(|e| format!("JSON body does not parse ({e}): {:?}", String::from_utf8_lossy(&body[..body.len().min(80)])))?;
            let arr = v.as_array().ok_or_else(|| format!("JSON body is not an array: {}", &v.to_string()[..v.to_string().len().min(80)]))?;
            let mut rows = vec![];
            for o in arr {
                let obj = o.as_object().ok_or_else(|| format!("JSON row is not an object: {o}"))?;
                if let Some(extra) = obj.keys().find(|k| !sig.iter().any(|(n, _)| n == *k)) {
                    return Err(format!("JSON row has a key {extra:?} that is no column of [{}]", fmt_sig(sig)));
                }
                let mut row = vec![];
                for (n, t) in sig {
                    // the Arrow JSON writer omits the key of a NULL value
                    row.push(match obj.get(n) {
                        None => Value::Null,
                        Some(x) => json_cell(x, t)?,
                    });
                }
                rows.push(row);
            }
            Ok(rows)
        }
        Format::Csv => {
            if body.is_empty() {
                return Ok(vec![]);
            }
            let mut rd = csv::ReaderBuilder::new().has_headers(true).flexible(true).from_reader(body);
            let hdr: Vec<String> = rd.headers().map_err(|e| format!("CSV header does not parse: {e}"))?.iter().map(String::from).collect();
            let want: Vec<String> = sig.iter().map(|(n, _)| n.clone()).collect();
            if hdr != want {
                return Err(format!("CSV header {hdr:?}, expected {want:?}"));
            }
            let mut rows = vec![];
            for rec in rd.records() {
                let rec = rec.map_err(|e| format!("CSV record does not parse: {e}"))?;
                if rec.len() != sig.len() {
                    return Err(format!("CSV record has {} fields, header has {}", rec.len(), sig.len()));
                }
                let mut row = vec![];
                for (f, (_, t)) in rec.iter().zip(sig) {
                    row.push(csv_cell(f, t)?);
                }
                rows.push(row);
            }
            Ok(rows)
        }
    }
}

/// CSV cannot tell NULL from the empty string: compare modulo that.
fn csv_canon(rows: &Rows) -> Rows {
    rows.iter()
        .map(|r| r.iter().map(|v| if matches!(v, Value::Str(s) if s.is_empty()) { Value::Null } else { v.clone() }).collect())
        .collect()
}

/// JSON has no NaN / infinity: the Arrow JSON writer renders them as null.
fn json_canon(rows: &Rows) -> Rows {
    rows.iter()
        .map(|r| r.iter().map(|v| if matches!(v, Value::Double(d) if !d.is_finite()) { Value::Null } else { v.clone() }).collect())
        .collect()
}

fn same_rows(want: &Rows, got: &Rows, ordered: bool, format: Format, tol: f64) -> bool {
    let (w, g) = match format {
        Format::Csv => (csv_canon(want), csv_canon(got)),
        Format::Json => (json_canon(want), json_canon(got)),
        Format::Arrow => (want.clone(), got.clone()),
    };
    if ordered {
        rows_eq(&w, &g, tol)
    } else {
        multiset_eq(&w, &g, tol)
    }
}

// ---------------------------------------------------------------------------
// the check
// ---------------------------------------------------------------------------

#[derive(Default)]
struct Report {
    labels: Vec<String>,
    window_observed: bool,
    distributed_answer: bool,
    known: Option<(String, String)>,
}

enum Stop {
    Fail(String),
    Discard(String),
}

struct PeerNode {
    kind: Peer,
    addr: String,
    handle: Option<ServerHandle>,
    gate: Option<std::sync::mpsc::Sender<()>>,
    _dead: Option<DeadPort>,
    /// alive and loaded right now (can do its share)
    able: bool,
}

fn path_of(r: &Req) -> String {
    let mut q = vec![];
    if let Some(f) = &r.format_text {
        q.push(format!("format={f}"));
    }
    if let Some(m) = &r.mode_text {
        q.push(format!("distributed={m}"));
    }
    if q.is_empty() {
        "/sql".into()
    } else {
        format!("/sql?{}", q.join("&"))
    }
}

async fn post(addr: &str, path: &str, body: &str) -> Result<HttpResponse, Stop> {
    match http_post(addr, path, body).await {
        Ok(r) => Ok(r),
        Err(e) if is_timeout(&e) => Err(Stop::Discard("http timeout".into())),
        Err(e1) => match http_post(addr, path, body).await {
            Ok(_) => Err(Stop::Discard(format!("transient http transport error: {e1}"))),
            Err(e2) if is_timeout(&e2) => Err(Stop::Discard("http timeout".into())),
            Err(e2) => Err(Stop::Fail(format!("POST {path} gets no HTTP response at all (twice): {e1}; {e2}"))),
        },
    }
}
async fn get(addr: &str, path: &str) -> Result<HttpResponse, Stop> {
    match http_get(addr, path).await {
        Ok(r) => Ok(r),
        Err(e) if is_timeout(&e) => Err(Stop::Discard("http timeout".into())),
        Err(e) => Err(Stop::Discard(format!("GET {path}: {e}"))),
    }
}

fn fragment_body(local: &query_engine::ExecutionContext) -> Option<String> {
    let set = query_engine::distributed::splits_of(local, "t", 1).ok()?;
    Some(
        serde_json::json!({
            "sql": "SELECT id, s FROM t",
            "table": "t",
            "shard_index": 0,
            "shard_count": 1,
            "splits_digest": set.digest(),
        })
        .to_string(),
    )
}

struct World<'a> {
    n0: &'a ServerHandle,
    addr: String,
    local: &'a query_engine::ExecutionContext,
    peers: &'a [PeerNode],
}

/// Judge one `/sql` response of a LOADED node 0 against the decision table.
async fn judge_loaded(w: &World<'_>, r: &Req, resp: &HttpResponse, before: &[(String, String, bool)], rep: &mut Report) -> Result<(), Stop> {
    let fail = |m: String| Err(Stop::Fail(m));
    let up = up_count(before);
    // can every member the node believes up do its share?
    let healthy = before
        .iter()
        .filter(|(_, st, me)| !*me && st == "up")
        .all(|(a, _, _)| w.peers.iter().any(|p| &p.addr == a && p.able));

    let local = w.local.sql(&r.sql).await;
    let plan = query_engine::distributed::plan_distributed(w.local, &r.sql);
    let plan_class = match &plan {
        Ok(p) => format!("{:?}", p.shape).to_lowercase(),
        Err(QueryError::NotImplemented(_)) => "not_mergeable".to_string(),
        Err(_) => "plan_error".to_string(),
    };
    rep.labels.push(format!("plan:{plan_class}"));
    let expect_distributed = match r.mode {
        Mode::Off => false,
        Mode::Force => true,
        Mode::Auto => up >= 2 && plan.is_ok(),
    };
    rep.labels.push(format!("expect:{}:up{}:{}", if expect_distributed { "distributed" } else { "local" }, up.min(3), if healthy { "healthy" } else { "broken_member" }));

    let status = resp.status;
    let dist_hdr = resp.header("x-qe-distributed");
    if status != 200 {
        rep.labels.push(format!("status:{status}:{}", r.kind));
        if status == 503 {
            return fail(format!("a loaded node answers 503: {}", error_text(resp)));
        }
        if !expect_distributed {
            // local decision: the outcome is ctx.sql's
            return match &local {
                Ok(q) => fail(format!("the node must answer locally and `ctx.sql` succeeds ({} rows), but /sql fails with {status}: {}", q.row_count, error_text(resp))),
                Err(_) => Ok(()),
            };
        }
        // distributed decision
        if !healthy {
            rep.labels.push("fanout_failure_is_error".into());
            return Ok(());
        }
        // A distributed execution that fails on a healthy cluster is an error,
        // not a fallback: the property allows it (whether the distributed
        // engine SHOULD have answered is C09's subject). Recorded for the report.
        if local.is_ok() && r.kind != "no_table" {
            rep.labels.push(format!("note:distributed_fails_on_healthy_cluster:{}:{:?}:up{}", r.kind, r.mode, up.min(3)).to_lowercase());
            if std::env::var("C35_TRACE").is_ok() {
                eprintln!("TRACE distributed fails on a healthy cluster `{}` mode {:?} up {up}: {status} {}", r.sql, r.mode, error_text(resp));
            }
        }
        return Ok(());
    }

    // ---- 200
    let distributed = match dist_hdr {
        Some("true") => true,
        Some("false") => false,
        other => return fail(format!("200 with x-qe-distributed = {other:?}")),
    };
    rep.labels.push(format!("answer:{}", if distributed { "distributed" } else { "local" }));
    if r.mode == Mode::Force && !distributed {
        return fail("distributed=1 answered 200 with x-qe-distributed: false".into());
    }
    if r.mode == Mode::Off && distributed {
        return fail("distributed=0 answered with x-qe-distributed: true".into());
    }
    if distributed != expect_distributed {
        return fail(format!(
            "auto mode with {up} member(s) up and plan_distributed {} must answer {}, but x-qe-distributed = {distributed} (skipped: {:?}){}",
            match &plan {
                Ok(p) => format!("accepting ({:?})", p.shape),
                Err(e) => format!("refusing ({})", &e.to_string()[..e.to_string().len().min(90)]),
            },
            if expect_distributed { "distributed" } else { "locally" },
            resp.header("x-qe-distributed-skipped"),
            if !healthy && !distributed { " — a member believed up cannot do its share: this is a silent local fallback" } else { "" }
        ));
    }
    if !distributed && resp.header("x-qe-distributed-skipped").map(|s| s.trim().is_empty()).unwrap_or(true) {
        return fail("a local answer carries no reason in x-qe-distributed-skipped".into());
    }
    let xrows = resp.header("x-qe-rows").and_then(|v| v.parse::<usize>().ok());

    if !distributed {
        // exactly ctx.sql's rows
        let q = match &local {
            Ok(q) => q,
            Err(e) => return fail(format!("the node answers 200 locally but `ctx.sql` over the same files fails: {e}")),
        };
        let sig = schema_sig(&q.batches.first().map(|b| b.schema()).unwrap_or_else(|| q.schema.clone()));
        let want = batches_to_rows(&q.batches);
        let got = match decode_body(r.format, &resp.body, &sig) {
            Ok(g) => g,
            Err(e) if e.starts_with("UNSUPPORTED") => return Err(Stop::Discard(e)),
            Err(e) => return fail(format!("{:?} body does not decode to the engine's rows: {e}", r.format)),
        };
        let tol = if r.format == Format::Json { 1e-12 } else { 0.0 };
        if !same_rows(&want, &got, r.total_order, r.format, tol) {
            return fail(format!(
                "{:?} body does not encode the rows `ctx.sql` returns ({} vs {} rows)\nctx.sql:\n{}body:\n{}",
                r.format,
                want.len(),
                got.len(),
                data::fmt_rows(&want, 6),
                data::fmt_rows(&got, 6)
            ));
        }
        if xrows != Some(got.len()) {
            return fail(format!("x-qe-rows = {:?} but the body holds {} rows", resp.header("x-qe-rows"), got.len()));
        }
        rep.labels.push(format!("encoded:{:?}:local", r.format));
        return Ok(());
    }

    // ---- distributed 200
    rep.distributed_answer = true;
    // the lossless Arrow rendering of the same request is the reference for the text formats
    let (ref_sig, ref_rows) = if r.format == Format::Arrow {
        let (schema, batches) = decode_ipc(&resp.body).map_err(|e| Stop::Fail(format!("Arrow body does not decode: {e}")))?;
        (schema_sig(&schema), batches_to_rows(&batches))
    } else {
        let mut p = "/sql?format=arrow".to_string();
        if let Some(m) = &r.mode_text {
            p.push_str(&format!("&distributed={m}"));
        }
        let again = post(&w.addr, &p, &r.sql).await?;
        if view(w.n0) != before {
            return Err(Stop::Discard("membership view changed while the statement ran".into()));
        }
        if again.status != 200 || again.header("x-qe-distributed") != Some("true") {
            return fail(format!(
                "the same statement, mode and membership view answered 200/distributed as {:?} and then {} (x-qe-distributed {:?}) as arrow: {}",
                r.format,
                again.status,
                again.header("x-qe-distributed"),
                if again.status == 200 { String::new() } else { error_text(&again) }
            ));
        }
        let (schema, batches) = decode_ipc(&again.body).map_err(|e| Stop::Fail(format!("Arrow body does not decode: {e}")))?;
        let sig = schema_sig(&schema);
        let want = batches_to_rows(&batches);
        let got = match decode_body(r.format, &resp.body, &sig) {
            Ok(g) => g,
            Err(e) if e.starts_with("UNSUPPORTED") => return Err(Stop::Discard(e)),
            Err(e) => return fail(format!("{:?} body of a distributed answer does not decode: {e}", r.format)),
        };
        if !same_rows(&want, &got, r.total_order, r.format, 1e-9) {
            return fail(format!(
                "{:?} body of a distributed answer does not encode the rows of its Arrow rendering ({} vs {} rows)\narrow:\n{}{:?}:\n{}",
                r.format,
                want.len(),
                got.len(),
                data::fmt_rows(&want, 6),
                r.format,
                data::fmt_rows(&got, 6)
            ));
        }
        (sig, want)
    };
    if xrows != Some(ref_rows.len()) {
        return fail(format!("x-qe-rows = {:?} but the body holds {} rows", resp.header("x-qe-rows"), ref_rows.len()));
    }
    rep.labels.push(format!("encoded:{:?}:distributed", r.format));
    // not part of this property (C09's subject), recorded for the report only
    if let Ok(q) = &local {
        let want = batches_to_rows(&q.batches);
        let lsig = schema_sig(&q.batches.first().map(|b| b.schema()).unwrap_or_else(|| q.schema.clone()));
        if !same_rows(&want, &ref_rows, r.total_order, Format::Arrow, 1e-9) {
            if !healthy {
                return fail(format!(
                    "a member believed up cannot do its share, yet the node answers 200 with rows that are not the full answer ({} rows, ctx.sql has {})",
                    ref_rows.len(),
                    want.len()
                ));
            }
            rep.labels.push(format!("note:distributed_rows_differ_from_local:{}", r.kind));
            if std::env::var("C35_TRACE").is_ok() {
                let mut a = want.clone();
                let mut b = ref_rows.clone();
                data::canon_sort(&mut a);
                data::canon_sort(&mut b);
                let firstdiff = a.iter().zip(b.iter()).position(|(x, y)| x != y).unwrap_or(a.len().min(b.len()));
                eprintln!(
                    "TRACE distributed!=local `{}` mode {:?} up {up}: local {} rows, distributed {} rows; first difference at sorted index {firstdiff}:\n local: {:?}\n dist:  {:?}\n x-qe-distribution: {:?}",
                    r.sql,
                    r.mode,
                    a.len(),
                    b.len(),
                    a.get(firstdiff),
                    b.get(firstdiff),
                    resp.header("x-qe-distribution").map(|s| &s[..s.len().min(700)])
                );
            }
        } else if lsig != ref_sig {
            rep.labels.push(format!("note:distributed_schema_differs_from_local:{}", r.kind));
        }
    }
    Ok(())
}

async fn request_loaded(w: &World<'_>, r: &Req, rep: &mut Report, phase: &str) -> Result<(), Stop> {
    rep.labels.push(format!("{phase}:{}:{:?}:{:?}", r.kind, r.mode, r.format).to_lowercase());
    let before = view(w.n0);
    let resp = post(&w.addr, &path_of(r), &r.sql).await?;
    if view(w.n0) != before {
        return Err(Stop::Discard("membership view changed while the statement ran".into()));
    }
    judge_loaded(w, r, &resp, &before, rep).await.map_err(|e| match e {
        Stop::Fail(m) => Stop::Fail(format!(
            "[{phase}] POST {} `{}`\nnode 0 view: {}\n{m}",
            path_of(r),
            r.sql,
            before.iter().map(|(a, s, me)| format!("{a}={}{}", s, if *me { "(self)" } else { "" })).collect::<Vec<_>>().join(" ")
        )),
        d => d,
    })
}

async fn fragment_loaded(w: &World<'_>, rep: &mut Report) -> Result<(), Stop> {
    let Some(body) = fragment_body(w.local) else {
        return Ok(());
    };
    let resp = match http_post_json(&w.addr, "/fragment", &body).await {
        Ok(r) => r,
        Err(e) => return Err(Stop::Discard(format!("fragment transport: {e}"))),
    };
    if resp.status != 200 {
        return Err(Stop::Fail(format!("a loaded node refuses a well-formed /fragment (1 shard of 1, matching digest) with {}: {}", resp.status, error_text(&resp))));
    }
    let (_, batches) = decode_ipc(&resp.body).map_err(|e| Stop::Fail(format!("/fragment body: {e}")))?;
    let got = batches_to_rows(&batches);
    let want = match w.local.sql("SELECT id, s FROM t").await {
        Ok(q) => batches_to_rows(&q.batches),
        Err(e) => return Err(Stop::Discard(format!("local: {e}"))),
    };
    if !multiset_eq(&want, &got, 0.0) {
        return Err(Stop::Fail(format!("/fragment (the only shard) returns {} rows, the table scan has {}", got.len(), want.len())));
    }
    rep.labels.push("fragment:ok".into());
    Ok(())
}

async fn http_post_json(addr: &str, path: &str, body: &str) -> Result<HttpResponse, String> {
    query_engine::distributed::http_client::post_json(addr, path, body.as_bytes(), OP_TIMEOUT).await.map_err(|e| e.to_string())
}

/// What a request may look like while the load has not been observed to finish.
/// `must_refuse`: the loader is still held by the check, so 503 is the only
/// acceptable answer; otherwise the request races the loader and may also get
/// the loaded node's answer.
async fn request_unloaded(w: &World<'_>, r: &Req, rep: &mut Report, must_refuse: bool, failing: bool) -> Result<(), Stop> {
    rep.labels.push(format!("pre:{}:{:?}:{:?}", r.kind, r.mode, r.format).to_lowercase());
    let before = view(w.n0);
    let resp = post(&w.addr, &path_of(r), &r.sql).await?;
    let ctx = format!("[before the load finished] POST {} `{}`", path_of(r), r.sql);
    if resp.status == 503 {
        rep.window_observed = true;
        rep.labels.push("pre:503".into());
        let text = error_text(&resp);
        if !(text.contains("still loading") || (failing && text.contains("failed to load"))) {
            return Err(Stop::Fail(format!("{ctx}\n503 without the documented explanation: {text:?}")));
        }
        return Ok(());
    }
    if must_refuse || failing {
        return Err(Stop::Fail(format!(
            "{ctx}\nthe table load has not finished (the loader is {}), yet /sql answers {} (x-qe-rows {:?}, {} body bytes) instead of 503",
            if failing { "failing" } else { "still held back" },
            resp.status,
            resp.header("x-qe-rows"),
            resp.body.len()
        )));
    }
    rep.labels.push("pre:raced_loaded".into());
    judge_loaded(w, r, &resp, &before, rep).await.map_err(|e| match e {
        Stop::Fail(m) => Stop::Fail(format!("{ctx}\n{m}")),
        d => d,
    })
}

async fn fragment_unloaded(w: &World<'_>, rep: &mut Report, must_refuse: bool, failing: bool) -> Result<(), Stop> {
    let body = fragment_body(w.local).unwrap_or_else(|| "{}".into());
    let resp = match http_post_json(&w.addr, "/fragment", &body).await {
        Ok(r) => r,
        Err(e) => return Err(Stop::Discard(format!("fragment transport: {e}"))),
    };
    if resp.status == 503 {
        rep.window_observed = true;
        rep.labels.push("pre:fragment503".into());
        return Ok(());
    }
    if must_refuse || failing {
        return Err(Stop::Fail(format!(
            "[before the load finished] POST /fragment answers {} instead of 503: {}",
            resp.status,
            String::from_utf8_lossy(&resp.body[..resp.body.len().min(160)])
        )));
    }
    Ok(())
}

async fn run_case(c: &C35Case, rep: &mut Report) -> Result<(), Stop> {
    let tmp = TempDir::new("c35");
    let t = gen_table("t", &c.spec);
    let d = gen_dim("d", c.dim_rows as usize);
    let dirs = vec![
        ("t".to_string(), write_table(tmp.path(), &t, c.spec.rg_size, c.spec.files)),
        ("d".to_string(), write_table(tmp.path(), &d, 1 << 20, 1)),
    ];
    let local = local_ctx(&dirs).map_err(|e| Stop::Discard(format!("local context: {e}")))?;

    // ---- peers
    let mut peers: Vec<PeerNode> = vec![];
    let mut spawn_err = None;
    for (i, k) in c.peers.iter().take(2).enumerate() {
        let node = match k {
            Peer::Up | Peer::UpThenKilled => spawn_node(i as u64 + 1, ok_loader(dirs.clone())).await.map(|h| PeerNode {
                kind: *k,
                addr: h.address().to_string(),
                handle: Some(h),
                gate: None,
                _dead: None,
                able: true,
            }),
            Peer::UpNotLoaded => {
                let (loader, gate) = staged_loader(dirs.clone(), true, 0, None);
                spawn_node(i as u64 + 1, loader).await.map(|h| PeerNode {
                    kind: *k,
                    addr: h.address().to_string(),
                    handle: Some(h),
                    gate: Some(gate),
                    _dead: None,
                    able: false,
                })
            }
            Peer::Down | Peer::Unknown => dead_port().map(|dp| PeerNode { kind: *k, addr: dp.addr.clone(), handle: None, gate: None, _dead: Some(dp), able: false }),
        };
        match node {
            Ok(n) => peers.push(n),
            Err(e) => {
                spawn_err = Some(e);
                break;
            }
        }
    }
    // ---- node 0
    let failure_text = format!("c35 loader refuses to load (salt {})", c.spec.salt);
    let (gated, sleep_ms, fail) = match c.loader {
        Loader::Immediate => (false, 0, None),
        Loader::Sleepy(ms) => (false, ms as u64, None),
        Loader::Gated => (true, 0, None),
        Loader::Fails => (false, 0, Some(failure_text.clone())),
        Loader::GatedFails => (true, 0, Some(failure_text.clone())),
    };
    let mut n0 = None;
    let mut gate0 = None;
    if spawn_err.is_none() {
        let (loader, gate) = staged_loader(dirs.clone(), gated, sleep_ms, fail);
        match spawn_node(0, loader).await {
            Ok(h) => {
                n0 = Some(h);
                gate0 = Some(gate);
            }
            Err(e) => spawn_err = Some(e),
        }
    }
    let result = match (&n0, spawn_err) {
        (Some(h), None) => drive(c, rep, h, &mut gate0, &mut peers, &local, &failure_text).await,
        (_, e) => Err(Stop::Discard(format!("spawn: {}", e.unwrap_or_default()))),
    };
    // ---- teardown: release every held loader, stop every node
    drop(gate0);
    let mut handles = vec![];
    for p in peers.iter_mut() {
        p.gate.take();
        if let Some(h) = p.handle.take() {
            handles.push(h);
        }
    }
    if let Some(h) = n0 {
        handles.push(h);
    }
    shutdown_all(handles).await;
    drop(peers);
    drop(tmp);
    result
}

async fn drive(
    c: &C35Case,
    rep: &mut Report,
    n0: &ServerHandle,
    gate0: &mut Option<std::sync::mpsc::Sender<()>>,
    peers: &mut Vec<PeerNode>,
    local: &query_engine::ExecutionContext,
    failure_text: &str,
) -> Result<(), Stop> {
    let addr = n0.local_addr().to_string();
    rep.labels.push(format!("loader:{:?}", c.loader).split('(').next().unwrap().to_string());
    for p in peers.iter() {
        rep.labels.push(format!("peer:{:?}", p.kind));
    }
    if peers.is_empty() {
        rep.labels.push("peer:none".into());
    }
    let gated = matches!(c.loader, Loader::Gated | Loader::GatedFails);
    let failing = matches!(c.loader, Loader::Fails | Loader::GatedFails);

    // ---- phase `pre`: the load has not been observed to finish
    {
        let w = World { n0, addr: addr.clone(), local, peers: peers.as_slice() };
        if gated {
            let h = get(&addr, "/healthz").await?;
            if h.status != 200 {
                return Err(Stop::Fail(format!("/healthz answers {} while the tables load", h.status)));
            }
            let r = get(&addr, "/readyz").await?;
            let body: J = serde_json::from_slice(&r.body).unwrap_or(J::Null);
            if r.status != 503 || body["ready"] != J::Bool(false) || body["tables_loaded"] != J::Bool(false) {
                return Err(Stop::Fail(format!("/readyz before the load finished: {} {}", r.status, r.text())));
            }
        }
        for r in &c.pre {
            request_unloaded(&w, r, rep, gated, failing).await?;
        }
        if c.pre_fragment {
            fragment_unloaded(&w, rep, gated, failing).await?;
        }
    }
    // ---- release the loader and wait for the outcome
    if let Some(g) = gate0.take() {
        let _ = g.send(());
    }
    let done = wait_until(|| n0.state().tables_loaded() || n0.state().load_error().is_some(), || {}, STATE_TIMEOUT).await;
    if !done {
        return Err(Stop::Discard("loader outcome not observed in time".into()));
    }
    if failing {
        if n0.state().tables_loaded() {
            return Err(Stop::Fail("the loader returned an error, yet the node reports its tables loaded".into()));
        }
        // unavailable, with the explanation, and it stays so
        for round in 0..2 {
            let r = get(&addr, "/readyz").await?;
            let body: J = serde_json::from_slice(&r.body).unwrap_or(J::Null);
            if r.status != 503 || body["ready"] != J::Bool(false) || !body["load_error"].as_str().map(|s| s.contains(failure_text)).unwrap_or(false) {
                return Err(Stop::Fail(format!("/readyz after a failed load (round {round}): {} {}", r.status, r.text())));
            }
            for q in c.main.iter().chain(c.after.iter()) {
                rep.labels.push(format!("failed:{}:{:?}:{:?}", q.kind, q.mode, q.format).to_lowercase());
                let resp = post(&addr, &path_of(q), &q.sql).await?;
                let text = error_text(&resp);
                if resp.status != 503 || !text.contains("failed to load") || !text.contains(failure_text) {
                    return Err(Stop::Fail(format!(
                        "after a failed table load POST {} `{}` must answer 503 explaining the failure ({failure_text:?}); got {} {text:?}",
                        path_of(q),
                        q.sql,
                        resp.status
                    )));
                }
            }
            let body = fragment_body(local).unwrap_or_else(|| "{}".into());
            if let Ok(resp) = http_post_json(&addr, "/fragment", &body).await {
                let text = error_text(&resp);
                if resp.status != 503 || !text.contains(failure_text) {
                    return Err(Stop::Fail(format!("after a failed table load /fragment must answer 503 explaining the failure; got {} {text:?}", resp.status)));
                }
            }
            let h = get(&addr, "/healthz").await?;
            if h.status != 200 {
                return Err(Stop::Fail(format!("/healthz answers {} after a failed load (liveness is not readiness)", h.status)));
            }
        }
        rep.labels.push("failed_load_stays_unavailable".into());
        return Ok(());
    }

    // ---- membership: one probe round, then frozen
    let up_peers_loaded = wait_until(
        || peers.iter().all(|p| !matches!(p.kind, Peer::Up | Peer::UpThenKilled) || p.handle.as_ref().map(|h| h.state().tables_loaded()).unwrap_or(false)),
        || {},
        STATE_TIMEOUT,
    )
    .await;
    if !up_peers_loaded {
        return Err(Stop::Discard("a peer did not load in time".into()));
    }
    let probed: Vec<String> = peers.iter().filter(|p| p.kind != Peer::Unknown).map(|p| p.addr.clone()).collect();
    if !probed.is_empty() {
        n0.set_peers(probed.clone());
        let want = |p: &PeerNode| if p.kind == Peer::Down { "down" } else { "up" };
        let ok = wait_until(
            || {
                let v = view(n0);
                peers.iter().filter(|p| p.kind != Peer::Unknown).all(|p| v.iter().any(|(a, st, _)| a == &p.addr && st == want(p)))
            },
            || n0.set_peers(probed.clone()),
            STATE_TIMEOUT,
        )
        .await;
        if !ok {
            return Err(Stop::Discard("membership view did not reach the intended state".into()));
        }
    }
    // the node's own first discovery pass (no wall-clock assumption: wait for it)
    if !wait_until(|| n0.state().membership.resolved(), || {}, STATE_TIMEOUT).await {
        return Err(Stop::Discard("discovery did not resolve in time".into()));
    }
    let unknown: Vec<String> = peers.iter().filter(|p| p.kind == Peer::Unknown).map(|p| p.addr.clone()).collect();
    if !unknown.is_empty() {
        // what a discovery pass does: the member is listed, nobody has probed it yet
        let mut all = probed.clone();
        all.extend(unknown);
        n0.state().membership.set_members(all);
    }

    // ---- phase `main`
    {
        let w = World { n0, addr: addr.clone(), local, peers: peers.as_slice() };
        let r = get(&addr, "/readyz").await?;
        if r.status != 200 {
            return Err(Stop::Fail(format!("/readyz after load and discovery: {} {}", r.status, r.text())));
        }
        for r in &c.main {
            request_loaded(&w, r, rep, "main").await?;
        }
        if c.main_fragment {
            fragment_loaded(&w, rep).await?;
        }
    }

    // ---- kill a peer behind the prober's back, then phase `after`
    let mut killed = false;
    for p in peers.iter_mut() {
        if p.kind == Peer::UpThenKilled {
            if let Some(h) = p.handle.take() {
                let _ = tokio::time::timeout(std::time::Duration::from_secs(30), h.shutdown()).await;
                p.able = false;
                killed = true;
            }
        }
    }
    if killed {
        rep.labels.push("peer_killed_after_probe".into());
        let w = World { n0, addr: addr.clone(), local, peers: peers.as_slice() };
        for r in &c.after {
            request_loaded(&w, r, rep, "after").await?;
        }
    }
    Ok(())
}

pub struct FrontDoor;
impl Check for FrontDoor {
    type Case = C35Case;
    fn name(&self) -> &'static str {
        "front_door_history"
    }
    fn rule(&self) -> &'static str {
        "the history contains an observed not-ready window (a 503 from /sql or /fragment before the load finished) and, later, a 200 answered distributed"
    }
    fn cases(&self, tier: Tier) -> u32 {
        tier.pick(400, 6000)
    }
    fn workers(&self, _tier: Tier) -> usize {
        4
    }
    fn max_shrink_iters(&self) -> u32 {
        120
    }
    fn strategy(&self, tier: Tier) -> BoxedStrategy<C35Case> {
        case_strategy(tier)
    }
    fn test(&self, c: &C35Case, obs: &mut Obs) -> Verdict {
        let mut rep = Report::default();
        let r = block_on(run_case(c, &mut rep));
        for l in rep.labels.drain(..) {
            obs.label(l);
        }
        if rep.window_observed {
            obs.label("window_observed");
        }
        if rep.distributed_answer {
            obs.label("distributed_answer");
        }
        obs.nontrivial(rep.window_observed && rep.distributed_answer);
        match r {
            Ok(()) => match rep.known {
                Some((id, msg)) => Verdict::Known { id, msg },
                None => Verdict::Pass,
            },
            Err(Stop::Discard(d)) => Verdict::Discard(d),
            Err(Stop::Fail(m)) => Verdict::Fail(m),
        }
    }
}

pub fn property() -> Property {
    Property {
        id: "C35",
        level: "exploration",
        assumptions: &[
            "`plan_distributed` (the engine's own planner entry point) defines which shapes are exactly mergeable, as the property text says",
            "membership is read from the node before and after every request; only an unchanged view is judged (a changed one discards the case)",
            "CSV cannot distinguish NULL from the empty string (Arrow CSV writer renders NULL as an empty field): compared modulo that; the Arrow JSON writer omits NULL keys and renders NaN/infinity (which JSON cannot carry) as null",
            "a distributed JSON/CSV body is compared with the Arrow body of the same request (the lossless rendering of the same engine result); distributed-vs-local row equality is C09's subject and only labelled here",
            "a slow box can only turn a case into a Discard (every wait is bounded generously and a timeout is inconclusive)",
        ],
        checks: vec![Box::new(FrontDoor)],
    }
}
