//! C35 — not implemented yet.
use super::Property;

pub fn property() -> Property {
    Property { id: "C35", level: "exploration", assumptions: &[], checks: vec![] }
}
