//! Registry: one module per property.
use crate::runner::DynCheck;

pub struct Property {
    pub id: &'static str,
    /// evidence level (MANIFEST level_claimed.category)
    pub level: &'static str,
    pub assumptions: &'static [&'static str],
    pub checks: Vec<Box<dyn DynCheck>>,
}

pub mod c01;
pub mod c02;
pub mod c03;
pub mod c04;
pub mod c05;
pub mod c06;
pub mod c07;
pub mod c08;
pub mod c09;
pub mod c10;
pub mod c11;
pub mod c12;
pub mod c13;
pub mod c14;
pub mod c15;
pub mod c16;
pub mod c17;
pub mod c18;
pub mod c19;
pub mod c20;
pub mod c21;
pub mod c22;
pub mod c23;
pub mod c24;
pub mod c25;
pub mod c26;
pub mod c27;
pub mod c28;
pub mod c29;
pub mod c30;
pub mod c31;
pub mod c32;
pub mod c33;
pub mod c34;
pub mod c35;
pub mod c36;
pub mod c37;
pub mod c38;
pub mod c39;
pub mod c40;
pub mod c41;
pub mod c42;
pub mod c43;
pub mod c44;
pub mod c45;

pub const ALL_IDS: [&str; 45] = ["C01", "C02", "C03", "C04", "C05", "C06", "C07", "C08", "C09", "C10", "C11", "C12", "C13", "C14", "C15", "C16", "C17", "C18", "C19", "C20", "C21", "C22", "C23", "C24", "C25", "C26", "C27", "C28", "C29", "C30", "C31", "C32", "C33", "C34", "C35", "C36", "C37", "C38", "C39", "C40", "C41", "C42", "C43", "C44", "C45"];

pub fn get(id: &str) -> Option<Property> {
    match id {
        "C01" => Some(c01::property()),
        "C02" => Some(c02::property()),
        "C03" => Some(c03::property()),
        "C04" => Some(c04::property()),
        "C05" => Some(c05::property()),
        "C06" => Some(c06::property()),
        "C07" => Some(c07::property()),
        "C08" => Some(c08::property()),
        "C09" => Some(c09::property()),
        "C10" => Some(c10::property()),
        "C11" => Some(c11::property()),
        "C12" => Some(c12::property()),
        "C13" => Some(c13::property()),
        "C14" => Some(c14::property()),
        "C15" => Some(c15::property()),
        "C16" => Some(c16::property()),
        "C17" => Some(c17::property()),
        "C18" => Some(c18::property()),
        "C19" => Some(c19::property()),
        "C20" => Some(c20::property()),
        "C21" => Some(c21::property()),
        "C22" => Some(c22::property()),
        "C23" => Some(c23::property()),
        "C24" => Some(c24::property()),
        "C25" => Some(c25::property()),
        "C26" => Some(c26::property()),
        "C27" => Some(c27::property()),
        "C28" => Some(c28::property()),
        "C29" => Some(c29::property()),
        "C30" => Some(c30::property()),
        "C31" => Some(c31::property()),
        "C32" => Some(c32::property()),
        "C33" => Some(c33::property()),
        "C34" => Some(c34::property()),
        "C35" => Some(c35::property()),
        "C36" => Some(c36::property()),
        "C37" => Some(c37::property()),
        "C38" => Some(c38::property()),
        "C39" => Some(c39::property()),
        "C40" => Some(c40::property()),
        "C41" => Some(c41::property()),
        "C42" => Some(c42::property()),
        "C43" => Some(c43::property()),
        "C44" => Some(c44::property()),
        "C45" => Some(c45::property()),
        _ => None,
    }
}

/// `check --worker <kind> <args…>` dispatch for sub-process based checks.
pub fn worker_dispatch(args: &[String]) {
    let kind = args.first().map(|s| s.as_str()).unwrap_or("");
    match kind {
        "c29" => c29::worker(&args[1..]),
        "c06" => c06::worker(&args[1..]),
        "c07" => c07::worker(&args[1..]),
        "c19" => c19::worker(&args[1..]),
        "c20" => c20::worker(&args[1..]),
        _ => {
            eprintln!("unknown worker kind {:?}", kind);
            std::process::exit(2);
        }
    }
}
