//! C31 — not implemented yet.
use super::Property;

pub fn property() -> Property {
    Property { id: "C31", level: "exploration", assumptions: &[], checks: vec![] }
}
