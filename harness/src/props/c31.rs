//! C31 — Every optimizer rule returns a well-formed plan.
//!
//! Generator: C03's statements (sqlgen's full grammar + the focused shapes of
//! `c03_util` that make each production rule fire) over tables registered as
//! memory (no statistics) and as Parquet (footer statistics).
//! Oracle, for every production rule alone, every prefix of the production
//! order and the production pipeline, with and without statistics, applied to
//! the bound plan of the statement:
//!  1. `optimize` returns Ok (when the bound plan itself executes, an error
//!     here is an optimizer-internal failure of a valid query);
//!  2. the output `schema()` has the same column names and types as the input
//!     plan's;
//!  3. every `Expr::Column` of every node resolves against that node's
//!     children's schemas (or an enclosing query's, inside a subquery) — a
//!     harness walker over the public `LogicalPlan` / `Expr` enums, using the
//!     engine's own run-time lookup rule (exact qualified name, else bare
//!     name, else `.name` suffix); only counted when the *bound* plan passes
//!     the same walker;
//!  4. the rewritten plan lowers and executes whenever the bound plan did.
use super::Property;
use crate::data::*;
use crate::engine::*;
use crate::runner::*;
use proptest::strategy::BoxedStrategy;
use query_engine::planner as qp;
use query_engine::planner::LogicalPlan;
use query_engine::ExecutionContext;
use std::collections::{BTreeSet, HashMap, HashSet};

#[path = "c03_util.rs"]
mod util;
use util::*;

// ---------------------------------------------------------------------------
// plan walker
// ---------------------------------------------------------------------------

#[derive(Clone, Copy, PartialEq, Eq, Debug)]
pub enum Mode {
    /// the qualifier, when present, must match the field's relation
    Strict,
    /// the engine's run-time rule (filter.rs find_column_index)
    Lenient,
}

fn resolves(col: &qp::Column, schema: &qp::PlanSchema, mode: Mode) -> bool {
    let fields = schema.fields();
    if let Some(rel) = &col.relation {
        if fields.iter().any(|f| f.relation.as_deref().map(|r| r.eq_ignore_ascii_case(rel)).unwrap_or(false) && f.name.eq_ignore_ascii_case(&col.name)) {
            return true;
        }
        // a field literally named "rel.name"
        let q = format!("{}.{}", rel, col.name);
        if fields.iter().any(|f| f.relation.is_none() && f.name.eq_ignore_ascii_case(&q)) {
            return true;
        }
        if mode == Mode::Strict {
            // an unqualified field of that name (outputs of projections/aggregates
            // carry no relation) is the documented fallback; a field of that name
            // under ANOTHER relation is not
            return fields.iter().any(|f| f.relation.is_none() && f.name.eq_ignore_ascii_case(&col.name));
        }
    }
    let suffix = format!(".{}", col.name.to_lowercase());
    fields.iter().any(|f| f.name.eq_ignore_ascii_case(&col.name) || f.qualified_name().to_lowercase().ends_with(&suffix))
}

pub struct Walker<'a> {
    pub mode: Mode,
    pub ctx: &'a ExecutionContext,
    pub issues: Vec<String>,
}

impl<'a> Walker<'a> {
    fn col(&mut self, c: &qp::Column, scopes: &[qp::PlanSchema], at: &str) {
        if scopes.iter().any(|s| resolves(c, s, self.mode)) {
            return;
        }
        self.issues.push(format!("{}: column {} does not resolve", at, c.qualified_name()));
    }

    fn expr(&mut self, e: &qp::Expr, scopes: &[qp::PlanSchema], at: &str) {
        use qp::Expr as E;
        match e {
            E::Column(c) => self.col(c, scopes, at),
            E::Literal(_) | E::Wildcard | E::QualifiedWildcard(_) => {}
            E::BinaryExpr { left, right, .. } => {
                self.expr(left, scopes, at);
                self.expr(right, scopes, at);
            }
            E::UnaryExpr { expr, .. } | E::Cast { expr, .. } | E::Alias { expr, .. } => self.expr(expr, scopes, at),
            E::Aggregate { args, .. } | E::ScalarFunc { args, .. } => {
                for a in args {
                    self.expr(a, scopes, at);
                }
            }
            E::Case { operand, when_then, else_expr } => {
                if let Some(o) = operand {
                    self.expr(o, scopes, at);
                }
                for (w, t) in when_then {
                    self.expr(w, scopes, at);
                    self.expr(t, scopes, at);
                }
                if let Some(x) = else_expr {
                    self.expr(x, scopes, at);
                }
            }
            E::InList { expr, list, .. } => {
                self.expr(expr, scopes, at);
                for x in list {
                    self.expr(x, scopes, at);
                }
            }
            E::Between { expr, low, high, .. } => {
                self.expr(expr, scopes, at);
                self.expr(low, scopes, at);
                self.expr(high, scopes, at);
            }
            E::ScalarSubquery(p) => self.plan(p, scopes),
            E::Exists { subquery, .. } => self.plan(subquery, scopes),
            E::InSubquery { expr, subquery, .. } => {
                self.expr(expr, scopes, at);
                self.plan(subquery, scopes);
            }
            E::WindowFunction(w) => self.window(w, scopes, at),
        }
    }

    fn window(&mut self, w: &qp::WindowExpr, scopes: &[qp::PlanSchema], at: &str) {
        for a in w.args.iter().chain(w.partition_by.iter()) {
            self.expr(a, scopes, at);
        }
        for s in &w.order_by {
            self.expr(&s.expr, scopes, at);
        }
    }

    /// `outer`: schemas of enclosing query blocks (innermost first) that a
    /// correlated reference may name.
    pub fn plan(&mut self, p: &LogicalPlan, outer: &[qp::PlanSchema]) {
        let with = |s: qp::PlanSchema| -> Vec<qp::PlanSchema> {
            let mut v = vec![s];
            v.extend(outer.iter().cloned());
            v
        };
        match p {
            LogicalPlan::Scan(n) => {
                if let Some(f) = &n.filter {
                    // a pushed filter may name table columns the projection dropped
                    let mut fields: Vec<qp::SchemaField> = n.schema.fields().to_vec();
                    if let Some(ts) = self.ctx.table_schema(&n.table_name) {
                        for fld in ts.fields() {
                            fields.push(qp::SchemaField::new(fld.name().clone(), fld.data_type().clone()));
                        }
                    }
                    let sc = with(qp::PlanSchema::new(fields));
                    self.expr(f, &sc, &format!("Scan({}).filter", n.table_name));
                }
            }
            LogicalPlan::Filter(n) => {
                let sc = with(n.input.schema());
                self.expr(&n.predicate, &sc, "Filter");
            }
            LogicalPlan::Project(n) => {
                let sc = with(n.input.schema());
                for e in &n.exprs {
                    self.expr(e, &sc, "Project");
                }
            }
            LogicalPlan::Join(n) => {
                let sc = with(n.left.schema().merge(&n.right.schema()));
                for (l, r) in &n.on {
                    self.expr(l, &sc, "Join.on");
                    self.expr(r, &sc, "Join.on");
                }
                if let Some(f) = &n.filter {
                    self.expr(f, &sc, "Join.filter");
                }
            }
            LogicalPlan::Aggregate(n) => {
                let sc = with(n.input.schema());
                for e in n.group_by.iter().chain(n.aggregates.iter()) {
                    self.expr(e, &sc, "Aggregate");
                }
            }
            LogicalPlan::Window(n) => {
                let sc = with(n.input.schema());
                for (_, w) in &n.window_exprs {
                    self.window(w, &sc, "Window");
                }
            }
            LogicalPlan::Sort(n) => {
                let sc = with(n.input.schema());
                for s in &n.order_by {
                    self.expr(&s.expr, &sc, "Sort");
                }
            }
            LogicalPlan::Values(n) => {
                let sc = with(qp::PlanSchema::empty());
                for row in &n.values {
                    for e in row {
                        self.expr(e, &sc, "Values");
                    }
                }
            }
            LogicalPlan::DelimJoin(n) => {
                let sc = with(n.left.schema().merge(&n.right.schema()));
                for (l, r) in &n.on {
                    self.expr(l, &sc, "DelimJoin.on");
                    self.expr(r, &sc, "DelimJoin.on");
                }
                let lsc = with(n.left.schema());
                for e in &n.delim_columns {
                    self.expr(e, &lsc, "DelimJoin.delim_columns");
                }
            }
            LogicalPlan::VectorSearch(n) => {
                let sc = with(n.input.schema());
                self.expr(&n.sort_key.expr, &sc, "VectorSearch.sort_key");
            }
            LogicalPlan::Limit(_) | LogicalPlan::Distinct(_) | LogicalPlan::Union(_) | LogicalPlan::SubqueryAlias(_) | LogicalPlan::EmptyRelation(_) | LogicalPlan::DelimGet(_) => {}
        }
        // the right input of a DelimJoin sees the left input's columns through DelimGet
        match p {
            LogicalPlan::DelimJoin(n) => {
                self.plan(&n.left, outer);
                let mut o = vec![n.left.schema()];
                o.extend(outer.iter().cloned());
                self.plan(&n.right, &o);
            }
            _ => {
                for ch in p.children() {
                    self.plan(ch, outer);
                }
            }
        }
    }
}

pub fn dangling(ctx: &ExecutionContext, p: &LogicalPlan, mode: Mode) -> Vec<String> {
    let mut w = Walker { mode, ctx, issues: vec![] };
    w.plan(p, &[]);
    w.issues
}

pub fn schema_sig(p: &LogicalPlan) -> Vec<(String, String)> {
    p.schema().fields().iter().map(|f| (f.name.clone(), format!("{:?}", f.data_type))).collect()
}

// ---------------------------------------------------------------------------
// the check
// ---------------------------------------------------------------------------

/// Signatures of C31's open findings: (configuration name, failure kind, message) -> id
fn classify(c: &OptCase, config: &str, kind: &str, msg: &str, out: Option<&LogicalPlan>) -> Option<&'static str> {
    if kind == KIND_EXEC {
        let p = out?;
        let err = msg.lines().next().unwrap_or("");
        // the rewrite turned a mixed-type comparison (evaluated with coercion by
        // a Filter) into a hash-join key pair, whose typed fast paths break
        let typed_path_failure = err.contains("runtime filter column is not Int64") || err.contains("index out of bounds");
        if typed_path_failure && mixed_type_join_key(p).is_some() {
            return Some("join-key-mixed-int-types");
        }
        // EagerAggregation's pre-aggregate / rewritten SUM is rejected by the dense aggregation path
        let pt = plan_text(p);
        if err.contains("dense agg:") && (pt.contains("__ea_") || pt.contains("__topk_key") || pt.contains("__pk")) {
            return Some("dense-agg-rejects-rule-made-aggregate");
        }
        // outer / anti joins assemble their output (NULL-extension side, projected scans below)
        // with another width or other names than the declared schema
        if (err.contains("number of columns(") || err.contains("Column not found")) && ["join_type: Full", "join_type: Left", "join_type: Right", "join_type: Anti"].iter().any(|k| pt.contains(k)) && !pt.contains("Union(") {
            return Some("full-join-over-projected-scan");
        }
        // a predicate FilterExec evaluates leniently fails with a type error at the
        // site (scan filter / join condition) a rule moved it to
        let type_error = err.contains("Type error:") || err.contains("arguments need to have the same data type") || err.contains("Cannot coerce") || err.contains("not supported for types") || err.contains("filter predicate must evaluate to boolean");
        if type_error && relocated_predicate(p) {
            return Some("relocated-predicate-type-error");
        }
        // UNION ALL keeps each branch's own integer width; whether the consumer above it has to
        // concatenate an Int32 with an Int64 batch depends on the join order the rule picked
        if (err.contains("concatenate arrays of different data types (Int64, Int32)") || err.contains("concatenate arrays of different data types (Int32, Int64)")) && format!("{}", p).contains("Union") {
            return Some("union-branch-integer-width");
        }
        // the integer SUM x CAST(__ea_cnt AS Float64) defect of EagerAggregation (see C03)
        if err.contains("expected Int64 but found Float64") && pt.contains("__ea_cnt") {
            return Some("eager-aggregation-int-sum-float-count");
        }
        // UNION de-duplicates by the result's column names but a branch's batches carry the
        // branch's own names (C30 set-operation-branch-column-names): when the rewritten first
        // branch returns no batch at all, the lookup fails
        if err.contains("Column not found: c") && pt.contains("Union(") {
            return Some("union-branch-column-names");
        }
        // join operators hand dictionary-encoded strings to an operator whose declared schema says Utf8
        if err.contains("expected Utf8 but found Dictionary(Int32, Utf8)") || err.contains("Unsupported type for scalar subquery: Dictionary(Int32, Utf8)") {
            return Some("join-dictionary-string-schema-mismatch");
        }
    }
    if kind == KIND_OPT && msg.contains("attempt to multiply with overflow") && c.sql_case.tables.iter().any(|t| t.rows.is_empty()) {
        // JoinReorder: 10000 - log2(0 rows) as i32 * 500 (debug builds panic, release builds wrap)
        return Some("join-reorder-empty-table-score-overflow");
    }
    if kind == KIND_STRICT {
        if let Some(p) = out {
            let pt = plan_text(p);
            // GroupKeyReduction's restore projection keeps the original qualifier (t1.rc) above a
            // decoration join that scans the base table unaliased
            if pt.contains("__fd_") || pt.contains("__topk_key") {
                return Some("group-key-reduction-decoration-qualifier");
            }
        }
    }
    if kind == KIND_DANGLING || kind == KIND_STRICT {
        // decorrelation moved the subquery below a join but left a predicate that
        // names only outer columns inside it
        let correlated = c.sql_case.features.iter().any(|f| f == "correlated" || f == "correlated_ref");
        let decorrelating = ["SubqueryDecorrelation", "FlattenDependentJoin"].iter().any(|r| config.ends_with(r)) || config.starts_with("prefix:") || config == "production";
        if correlated && decorrelating {
            return Some("decorrelation-leaves-outer-reference");
        }
    }
    None
}

const KIND_OPT: &str = "optimize failed on a statement whose bound plan executes";
const KIND_DANGLING: &str = "dangling column reference";
const KIND_STRICT: &str = "column reference resolves only to a field of another relation";

/// the plan evaluates some predicate inside a scan or a join
fn relocated_predicate(p: &LogicalPlan) -> bool {
    let mut hit = false;
    for_each_node(p, &mut |n| match n {
        LogicalPlan::Scan(s) if s.filter.is_some() => hit = true,
        LogicalPlan::Join(j) if j.filter.is_some() || !j.on.is_empty() => hit = true,
        _ => {}
    });
    hit
}

const KIND_EXEC: &str = "rewritten plan does not execute although the bound plan does";

pub struct RulesWellFormed;

impl RulesWellFormed {
    fn side(&self, c: &OptCase, ctx: &ExecutionContext, with_stats: bool, sql: &str, obs: &mut Obs) -> Result<(), (Option<&'static str>, String)> {
        let tag = if with_stats { "stats" } else { "nostats" };
        let bound = match bind(ctx, sql) {
            Ok(p) => p,
            Err(e) => {
                obs.label(format!("bind_error:{}", crate::sqlcheck::short_err(&e)));
                return Ok(());
            }
        };
        let stats = if with_stats { stats_of(ctx) } else { HashMap::new() };
        if with_stats && stats.is_empty() {
            obs.label("no_statistics_available");
        }
        let bound_text = plan_text(&bound);
        let in_sig = schema_sig(&bound);
        let strict_in = dangling(ctx, &bound, Mode::Strict);
        let lenient_in = dangling(ctx, &bound, Mode::Lenient);
        if !lenient_in.is_empty() {
            obs.label("bound_plan_has_unresolved_columns");
        } else if !strict_in.is_empty() {
            obs.label("bound_plan_resolves_only_leniently");
        }
        let base = execute_logical(ctx, &bound);
        obs.label(format!("{}:bound_{}", tag, if base.is_ok() { "executes" } else { "does_not_execute" }));

        // harness copy of the production list == the engine's
        let mut configs = configurations();
        configs.push(("production".to_string(), production()));
        let mut seen: HashSet<String> = HashSet::new();
        seen.insert(bound_text.clone());
        for (name, rules) in configs {
            let fail = |kind: &str, msg: String, out: Option<&LogicalPlan>| -> Result<(), (Option<&'static str>, String)> {
                let full = format!(
                    "[{} / {}] {}: {}\n sql: {}\n bound plan:\n{}\n tables: {}",
                    name,
                    tag,
                    kind,
                    msg,
                    sql,
                    bound,
                    crate::sqlcheck::fmt_tables(&c.sql_case.tables)
                );
                Err((classify(c, &name, kind, &msg, out), full))
            };
            let out = match optimize_with(rules, &stats, &bound) {
                Ok(p) => p,
                Err(e) => {
                    obs.label(format!("optimize_error:{}", name.split(':').next().unwrap_or("")));
                    if base.is_ok() {
                        return fail(KIND_OPT, e, None);
                    }
                    continue;
                }
            };
            if name == "production" {
                match optimize_production(&stats, &bound) {
                    Ok(p2) if plan_text(&p2) != plan_text(&out) => {
                        return Err((None, format!("HARNESS: c03_util::production() differs from Optimizer::new() — update the copied rule list\n sql: {}", sql)));
                    }
                    _ => {}
                }
            }
            let text = plan_text(&out);
            if text == bound_text {
                continue;
            }
            obs.nontrivial(true);
            if name.starts_with("alone:") || name == "production" {
                obs.label(format!("changed:{}", name));
            }
            if with_stats {
                // did statistics matter for this configuration?
                if let Some((_, rs)) = configurations().into_iter().chain(std::iter::once(("production".to_string(), production()))).find(|(n, _)| *n == name) {
                    if let Ok(p0) = optimize_with(rs, &HashMap::new(), &bound) {
                        if plan_text(&p0) != text {
                            obs.label(format!("stats_rule_fired:{}", name.rsplit(':').next().unwrap_or("")));
                        }
                    }
                }
            }
            if !seen.insert(text) {
                continue;
            }
            if name.starts_with("prefix:") {
                obs.label(format!("changed_in_pipeline:{}", name.rsplit(':').next().unwrap_or("")));
            }
            // 2. schema
            let out_sig = schema_sig(&out);
            if out_sig != in_sig {
                return fail("output schema differs from the input plan's", format!("input {:?} output {:?}\n rewritten plan:\n{}", in_sig, out_sig, out), Some(&out));
            }
            // 3. column references
            if lenient_in.is_empty() {
                let d = dangling(ctx, &out, Mode::Lenient);
                if !d.is_empty() {
                    return fail(KIND_DANGLING, format!("{}\n rewritten plan:\n{}", d.join("; "), out), Some(&out));
                }
            }
            if strict_in.is_empty() {
                let d = dangling(ctx, &out, Mode::Strict);
                if !d.is_empty() {
                    obs.label(format!("strict_dangling:{}", name.rsplit(':').next().unwrap_or("")));
                    return fail(KIND_STRICT, format!("{}\n rewritten plan:\n{}", d.join("; "), out), Some(&out));
                }
            }
            // 4. executes whenever the bound plan did
            if base.is_ok() {
                if let Err(e) = execute_logical(ctx, &out) {
                    if e.contains("Arithmetic overflow") || e.contains("attempt to multiply with overflow") || e.contains("attempt to add with overflow") {
                        // integer overflow is engine-defined: a rewrite may evaluate an
                        // expression on rows the bound plan filtered out first
                        obs.label("rewritten_plan_overflows");
                        continue;
                    }
                    return fail(KIND_EXEC, format!("{}\n rewritten plan:\n{}", e, out), Some(&out));
                }
            }
        }
        Ok(())
    }
}

impl Check for RulesWellFormed {
    type Case = OptCase;
    fn name(&self) -> &'static str {
        "rules_well_formed"
    }
    fn rule(&self) -> &'static str {
        "the statement binds and at least one rule configuration (rule alone / prefix / production; with or without statistics) returned a plan different from the bound plan"
    }
    fn cases(&self, tier: Tier) -> u32 {
        tier.pick(500, 50_000)
    }
    fn max_shrink_iters(&self) -> u32 {
        150
    }
    fn strategy(&self, tier: Tier) -> BoxedStrategy<OptCase> {
        opt_case_strategy(tier)
    }
    fn test(&self, c: &OptCase, obs: &mut Obs) -> Verdict {
        let sql = c.sql_case.query.sql();
        for f in &c.sql_case.features {
            if f.starts_with("shape:") {
                obs.label(f.clone());
            }
        }
        obs.sample(serde_json::json!({"sql": sql}));
        let mem = mem_context(c);
        let dir = TempDir::new("c31");
        let pq = match parquet_context(c, &dir) {
            Ok(x) => x,
            Err(e) => return Verdict::Discard(format!("parquet_registration:{}", crate::sqlcheck::short_err(&e))),
        };
        let _ = BTreeSet::<u8>::new();
        for (ctx, with_stats) in [(&mem, false), (&pq, true)] {
            if let Err((id, msg)) = self.side(c, ctx, with_stats, &sql, obs) {
                return match id {
                    Some(id) => Verdict::Known { id: id.to_string(), msg },
                    None => Verdict::Fail(msg),
                };
            }
        }
        Verdict::Pass
    }
}

pub fn property() -> Property {
    Property {
        id: "C31",
        level: "exploration",
        assumptions: &[
            "a column reference 'resolves' under the engine's own run-time lookup rule (exact qualified name, else bare name, else .name suffix), additionally never to a field that only exists under a different relation qualifier; counted only when the bound plan itself passes the same walker",
            "'executes whenever the bound plan did' compares success only; answer equality is C03",
            "the production rule list is copied from Optimizer::new() and compared with it on every case",
        ],
        checks: vec![Box::new(RulesWellFormed)],
    }
}
