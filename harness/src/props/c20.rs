//! C20 — IPC sidecars are invisible and safe to build concurrently.
//!
//! `QE_IPC_CACHE` is read once per process, so every configuration is a
//! sub-process: `check --worker c20 <jobfile>` with the variable set by the
//! parent. Two checks:
//!
//! * `sidecar_configs` — one generated Parquet table (1..3 files, several row
//!   groups, dictionary-eligible / nullable / wide string columns, optional
//!   dictionary fallback pages), a list of queries; answered by four
//!   processes in sequence on the same directory: `=0` (the reference),
//!   `=1` on a cold directory (builds), `=1` again (reuses), unset (uses what
//!   exists). Every answer must equal the `=0` answer; after the first `=1`
//!   process the sidecar directory must be complete (stamp present, one IPC
//!   file per row group, identical cell-for-cell to the Parquet row group as
//!   read by the harness with the parquet crate).
//! * `sidecar_races` — on a cold directory 1..8 builder processes (`=1`) and
//!   1..4 reader processes (unset; they loop the queries) are released
//!   together by a go-file. Every `Ok` answer of every process must equal the
//!   `=0` answer; afterwards the sidecar directory must be complete and a
//!   fresh reader must agree. A reader/builder *error* during the race is
//!   recorded as a label (the property forbids partial observations and wrong
//!   answers, an error is neither), a differing answer is a violation.
//!
//! LIMIT (stated): the harness does not own the OS schedule between
//! processes. `sidecar_races` is repeated-race exploration: it samples
//! schedules, it does not enumerate them; overlap is measured (staging
//! directories seen by a polling monitor) and reported, not forced.
use super::Property;
use crate::data::*;
use crate::engine::*;
use crate::runner::*;
use proptest::prelude::*;
use query_engine::ExecutionContext;
use serde::{Deserialize, Serialize};
use std::path::{Path, PathBuf};

// ---------------------------------------------------------------------------
// table
// ---------------------------------------------------------------------------

#[derive(Clone, Debug, Serialize, Deserialize)]
pub struct TableSpec {
    pub n_rows: usize,
    pub n_files: usize,
    pub rg_size: usize,
    /// cardinality of the dictionary-eligible column d (1..)
    pub d_card: u32,
    pub d_null_pct: u32,
    /// distinct values of w: 0 = every row distinct (wide), else that many
    pub w_card: u32,
    pub dictionary: bool,
    /// parquet dictionary page size limit (small => fallback to plain pages mid-chunk)
    pub dict_page_limit: usize,
    pub seed: u64,
}

fn mix(a: u64, b: u64) -> u64 {
    let mut x = a ^ b.wrapping_mul(0x9E3779B97F4A7C15);
    x ^= x >> 30;
    x = x.wrapping_mul(0xBF58476D1CE4E5B9);
    x ^= x >> 27;
    x = x.wrapping_mul(0x94D049BB133111EB);
    x ^= x >> 31;
    x
}

fn cols() -> Vec<Column> {
    vec![
        Column { name: "k".into(), ty: ColType::Int },
        Column { name: "d".into(), ty: ColType::Str },
        Column { name: "d2".into(), ty: ColType::Str },
        Column { name: "w".into(), ty: ColType::Str },
        Column { name: "v".into(), ty: ColType::Int },
        Column { name: "f".into(), ty: ColType::Double },
    ]
}

fn table_rows(t: &TableSpec) -> Rows {
    (0..t.n_rows)
        .map(|i| {
            let h = mix(t.seed, i as u64);
            let d = if (h % 100) < t.d_null_pct as u64 {
                Value::Null
            } else {
                Value::Str(format!("d{}", (h >> 8) % t.d_card.max(1) as u64))
            };
            let d2 = Value::Str(format!("e{}", (h >> 16) % 3));
            let w = if t.w_card == 0 {
                Value::Str(format!("w{:06}-{:08x}-padding-to-make-it-wide", i, (h >> 20) as u32))
            } else {
                Value::Str(format!("w{:04}", (h >> 24) % t.w_card as u64))
            };
            let v = if (h >> 32) % 5 == 0 { Value::Null } else { Value::Int(((h >> 36) % 50) as i64) };
            let f = Value::Double((((h >> 44) % 17) as i64 - 8) as f64 * 0.25);
            vec![Value::Int(i as i64), d, d2, w, v, f]
        })
        .collect()
}

fn write_table(t: &TableSpec, dir: &Path) -> Vec<PathBuf> {
    use parquet::arrow::ArrowWriter;
    use parquet::file::properties::WriterProperties;
    std::fs::create_dir_all(dir).unwrap();
    let rows = table_rows(t);
    let nf = t.n_files.clamp(1, 4);
    let per = rows.len().div_ceil(nf).max(1);
    let mut out = vec![];
    for (fi, chunk) in rows.chunks(per).enumerate() {
        let props = WriterProperties::builder()
            .set_max_row_group_size(t.rg_size.max(1))
            .set_dictionary_enabled(t.dictionary)
            .set_dictionary_page_size_limit(t.dict_page_limit.max(16))
            .build();
        let p = dir.join(format!("part-{:03}.parquet", fi));
        let batch = rows_to_batch(&cols(), chunk);
        let mut w = ArrowWriter::try_new(std::fs::File::create(&p).unwrap(), batch.schema(), Some(props)).unwrap();
        w.write(&batch).unwrap();
        w.close().unwrap();
        out.push(p);
    }
    out
}

// ---------------------------------------------------------------------------
// queries
// ---------------------------------------------------------------------------

#[derive(Clone, Debug, Serialize, Deserialize)]
pub struct Q {
    pub kind: u8,
    pub p1: u16,
    pub p2: u16,
}

pub const N_KINDS: u8 = 12;

fn sql_of(q: &Q, t: &TableSpec) -> String {
    let n = t.n_rows.max(1) as u64;
    let lo = (q.p1 as u64 * n) >> 16;
    let hi = lo + 1 + ((q.p2 as u64 * n) >> 16);
    let dval = format!("d{}", q.p1 as u32 % t.d_card.max(1));
    match q.kind % N_KINDS {
        0 => "SELECT * FROM t".into(),
        1 => "SELECT k, d FROM t".into(),
        2 => "SELECT COUNT(*) FROM t".into(),
        3 => "SELECT d, COUNT(*), COUNT(v), MIN(k) FROM t GROUP BY d".into(),
        4 => "SELECT w, COUNT(*) FROM t GROUP BY w".into(),
        5 => format!("SELECT k, w FROM t WHERE k >= {} AND k < {}", lo, hi),
        6 => format!("SELECT k, v FROM t WHERE d = '{}'", dval),
        7 => "SELECT MIN(k), MAX(k), SUM(f), COUNT(v) FROM t".into(),
        8 => "SELECT d, w FROM t WHERE v IS NULL".into(),
        9 => "SELECT d, d2, COUNT(*) FROM t GROUP BY d, d2".into(),
        10 => format!("SELECT d2, SUM(f), MAX(v) FROM t WHERE k < {} GROUP BY d2", hi),
        _ => format!("SELECT w, d FROM t WHERE d2 = 'e1' AND k >= {}", lo),
    }
}

#[derive(Clone, Debug, Serialize, Deserialize, PartialEq)]
pub struct Digest {
    pub n: usize,
    pub hash: u64,
    pub head: Rows,
}

fn digest(rows: &Rows) -> Digest {
    let mut r = rows.clone();
    canon_sort(&mut r);
    let mut h: u64 = 0xcbf29ce484222325;
    for row in &r {
        for v in row {
            for b in fmt_value(v).as_bytes() {
                h ^= *b as u64;
                h = h.wrapping_mul(0x100000001b3);
            }
            h = h.wrapping_mul(31).wrapping_add(7);
        }
        h = h.rotate_left(5) ^ 0x55;
    }
    Digest { n: r.len(), hash: h, head: r.into_iter().take(6).collect() }
}

// ---------------------------------------------------------------------------
// worker
// ---------------------------------------------------------------------------

#[derive(Clone, Debug, Serialize, Deserialize)]
pub struct Job {
    pub table_dir: PathBuf,
    pub table: TableSpec,
    pub out: PathBuf,
    pub queries: Vec<Q>,
    pub force_big: bool,
    /// write `<out>.ready`, then wait until this file exists
    pub go: Option<PathBuf>,
    /// loop the query list until this file exists (or max_iters); None = once
    pub until: Option<PathBuf>,
    pub max_iters: u32,
}

#[derive(Clone, Debug, Serialize, Deserialize)]
pub struct Ans {
    pub q: usize,
    pub iter: u32,
    pub res: Result<Digest, String>,
    /// a `.building` staging directory existed right before or after this query
    pub staging_seen: bool,
}

fn staging_dirs(dir: &Path) -> usize {
    std::fs::read_dir(dir)
        .map(|rd| {
            rd.filter_map(|e| e.ok())
                .filter(|e| e.file_name().to_string_lossy().ends_with(".building"))
                .count()
        })
        .unwrap_or(0)
}

pub fn worker(args: &[String]) {
    let job: Job = serde_json::from_str(&std::fs::read_to_string(&args[0]).expect("job file")).expect("job json");
    query_engine::verif_hooks::set_force_big(job.force_big);
    let mut answers: Vec<Ans> = vec![];
    let mut ctx = ExecutionContext::new();
    let reg = ctx.register_parquet("t", &job.table_dir).map_err(|e| e.to_string());
    if let Some(go) = &job.go {
        std::fs::write(format!("{}.ready", job.out.display()), b"1").unwrap();
        let t0 = std::time::Instant::now();
        while !go.exists() && t0.elapsed().as_secs() < 60 {
            std::hint::spin_loop();
        }
    }
    if let Err(e) = reg {
        answers.push(Ans { q: usize::MAX, iter: 0, res: Err(format!("register: {}", e)), staging_seen: false });
    } else {
        let mut iter = 0;
        loop {
            for (qi, q) in job.queries.iter().enumerate() {
                let before = staging_dirs(&job.table_dir) > 0;
                let res = run_sql(&ctx, &sql_of(q, &job.table)).map(|r| digest(&r));
                let after = staging_dirs(&job.table_dir) > 0;
                answers.push(Ans { q: qi, iter, res, staging_seen: before || after });
            }
            iter += 1;
            match &job.until {
                None => break,
                Some(f) => {
                    if f.exists() || iter >= job.max_iters {
                        break;
                    }
                }
            }
        }
    }
    let tmp = format!("{}.tmp", job.out.display());
    std::fs::write(&tmp, serde_json::to_string(&answers).unwrap()).unwrap();
    std::fs::rename(&tmp, &job.out).unwrap();
}

// ---------------------------------------------------------------------------
// parent helpers
// ---------------------------------------------------------------------------

#[derive(Clone, Copy, PartialEq, Debug)]
enum Cfg {
    Off,
    Auto,
    Build,
}
impl Cfg {
    fn name(self) -> &'static str {
        match self {
            Cfg::Off => "QE_IPC_CACHE=0",
            Cfg::Auto => "QE_IPC_CACHE unset",
            Cfg::Build => "QE_IPC_CACHE=1",
        }
    }
}

fn spawn(job: &Job, cfg: Cfg) -> std::process::Child {
    let jobfile = PathBuf::from(format!("{}.job", job.out.display()));
    std::fs::write(&jobfile, serde_json::to_string(job).unwrap()).unwrap();
    let mut cmd = std::process::Command::new(std::env::current_exe().unwrap());
    cmd.args(["--worker", "c20", jobfile.to_str().unwrap()]);
    match cfg {
        Cfg::Off => cmd.env("QE_IPC_CACHE", "0"),
        Cfg::Auto => cmd.env_remove("QE_IPC_CACHE"),
        Cfg::Build => cmd.env("QE_IPC_CACHE", "1"),
    };
    cmd.env_remove("QE_IPC_SLICE").env_remove("QE_IPC_WILLNEED").env("RAYON_NUM_THREADS", "4");
    cmd.stdout(std::process::Stdio::null()).stderr(std::process::Stdio::null());
    cmd.spawn().expect("spawn worker")
}

fn collect(job: &Job, mut child: std::process::Child) -> Result<Vec<Ans>, String> {
    let st = child.wait().map_err(|e| e.to_string())?;
    match std::fs::read_to_string(&job.out) {
        Ok(s) => serde_json::from_str(&s).map_err(|e| format!("worker output: {}", e)),
        Err(_) => Err(format!("worker died ({}) without a result", st)),
    }
}

fn run_once(ctl: &Path, tag: &str, table_dir: &Path, table: &TableSpec, queries: &[Q], force_big: bool, cfg: Cfg) -> Result<Vec<Ans>, String> {
    let job = Job {
        table_dir: table_dir.to_path_buf(),
        table: table.clone(),
        out: ctl.join(format!("{}.out", tag)),
        queries: queries.to_vec(),
        force_big,
        go: None,
        until: None,
        max_iters: 1,
    };
    let child = spawn(&job, cfg);
    collect(&job, child)
}

/// error text without paths and numbers (for labels)
fn error_class(e: &str) -> String {
    let mut out = String::new();
    for w in e.split_whitespace() {
        if w.contains('/') {
            out.push_str("<path> ");
        } else if w.chars().any(|c| c.is_ascii_digit()) {
            out.push_str("<n> ");
        } else {
            out.push_str(w);
            out.push(' ');
        }
    }
    out.chars().take(110).collect()
}

/// compare one process's answers with the reference; Err(msg) = differing answer
fn compare(
    who: &str,
    reference: &[Ans],
    got: &[Ans],
    queries: &[Q],
    table: &TableSpec,
    errors_are_violations: bool,
    obs: &mut Obs,
) -> Result<(), String> {
    for a in got {
        if a.q == usize::MAX {
            if errors_are_violations {
                return Err(format!("{}: {:?}", who, a.res));
            }
            obs.label(format!("error during race: {}", who.split('#').next().unwrap_or(who)));
            continue;
        }
        let r = match reference.iter().find(|r| r.q == a.q) {
            Some(r) => r,
            None => continue,
        };
        match (&r.res, &a.res) {
            (Err(_), _) => {
                obs.label("query fails with QE_IPC_CACHE=0 too (nothing to compare)");
            }
            (Ok(_), Err(e)) => {
                if errors_are_violations {
                    return Err(format!(
                        "{}: `{}` failed: {}\nwith QE_IPC_CACHE=0 it answers {} rows",
                        who,
                        sql_of(&queries[a.q], table),
                        e,
                        r.res.as_ref().unwrap().n
                    ));
                }
                obs.label(format!("error during race: {}: {}", who.split('#').next().unwrap_or(who), error_class(e)));
            }
            (Ok(want), Ok(got)) => {
                if want != got {
                    return Err(format!(
                        "{} (iteration {}): `{}` answered {} rows (digest {:016x}), first rows\n{}QE_IPC_CACHE=0 answers {} rows (digest {:016x}), first rows\n{}",
                        who,
                        a.iter,
                        sql_of(&queries[a.q], table),
                        got.n,
                        got.hash,
                        fmt_rows(&got.head, 6),
                        want.n,
                        want.hash,
                        fmt_rows(&want.head, 6)
                    ));
                }
            }
        }
    }
    Ok(())
}

/// After building: every sidecar directory that exists is complete and holds
/// exactly its file's row groups. A sidecar is built only for a file some
/// query actually reads (a pruned file gets none), so `require_all` — every
/// file must have one — is demanded only when an unfiltered scan was among
/// the queries. Returns the number of complete sidecars.
fn sidecars_complete(files: &[PathBuf], require_all: bool) -> Result<usize, String> {
    use parquet::arrow::arrow_reader::ParquetRecordBatchReaderBuilder;
    let mut complete = 0;
    for f in files {
        let mut name = f.file_name().unwrap().to_os_string();
        name.push(".qeipc");
        let dir = f.with_file_name(name);
        if !require_all && !dir.exists() {
            continue;
        }
        let stamp = std::fs::read_to_string(dir.join(".complete"))
            .map_err(|e| format!("{}: no .complete stamp after the build ({})", dir.display(), e))?;
        let len = std::fs::metadata(f).unwrap().len();
        let fields: Vec<&str> = stamp.split(':').collect();
        if fields.len() >= 2 {
            if let Ok(l) = fields[1].parse::<u64>() {
                if l != len {
                    return Err(format!("{}: stamp {:?} does not carry the source length {}", dir.display(), stamp, len));
                }
            }
        }
        let b = ParquetRecordBatchReaderBuilder::try_new(std::fs::File::open(f).unwrap()).unwrap();
        let n_rg = b.metadata().num_row_groups();
        for rg in 0..n_rg {
            let want: Rows = {
                let b = ParquetRecordBatchReaderBuilder::try_new(std::fs::File::open(f).unwrap()).unwrap();
                let batches: Vec<_> = b.with_row_groups(vec![rg]).build().unwrap().map(|x| x.unwrap()).collect();
                batches_to_rows(&batches)
            };
            let p = dir.join(format!("rg_{:05}.arrow", rg));
            let file = std::fs::File::open(&p).map_err(|e| format!("{}: missing after the build ({})", p.display(), e))?;
            let reader = arrow::ipc::reader::FileReader::try_new(file, None)
                .map_err(|e| format!("{}: not a readable IPC file: {}", p.display(), e))?;
            let mut batches = vec![];
            for b in reader {
                batches.push(b.map_err(|e| format!("{}: {}", p.display(), e))?);
            }
            let got = batches_to_rows(&batches);
            if !rows_eq(&got, &want, 0.0) {
                return Err(format!(
                    "{} holds {} rows that differ from row group {} of {} ({} rows)",
                    p.display(),
                    got.len(),
                    rg,
                    f.display(),
                    want.len()
                ));
            }
        }
        let extra = std::fs::read_dir(&dir)
            .unwrap()
            .filter_map(|e| e.ok())
            .filter(|e| {
                let n = e.file_name().to_string_lossy().to_string();
                n.starts_with("rg_") && n[3..8].parse::<usize>().map(|i| i >= n_rg).unwrap_or(false)
            })
            .count();
        if extra > 0 {
            return Err(format!("{} has {} row-group files beyond the source's {}", dir.display(), extra, n_rg));
        }
        complete += 1;
    }
    Ok(complete)
}

/// an unfiltered scan succeeded in the reference => every file is read by every process
fn has_full_scan(queries: &[Q], reference: &[Ans]) -> bool {
    queries
        .iter()
        .enumerate()
        .any(|(i, q)| q.kind % N_KINDS == 0 && reference.iter().any(|a| a.q == i && a.res.is_ok()))
}

// ---------------------------------------------------------------------------
// strategies
// ---------------------------------------------------------------------------

fn table_strategy(small_weight: u32, big_weight: u32, big: std::ops::Range<usize>) -> impl Strategy<Value = TableSpec> {
    let shape = prop_oneof![
        small_weight => (1usize..40, 1usize..4, prop_oneof![Just(7usize), Just(64), Just(1usize << 20)]),
        small_weight => (40usize..700, 1usize..4, prop_oneof![Just(7usize), Just(64), Just(1000), Just(1usize << 20)]),
        // big: row groups can exceed 4096 distinct strings (dictionary demotion)
        big_weight => (big, 1usize..3, prop_oneof![Just(1000usize), Just(5000), Just(1usize << 20)]),
        // one large row group whose row count sits around a multiple of the sidecar's
        // 8192-row re-slicing unit (k*8192 + r, r near 0 / 1 / 1023 / 1024 / 8191): the
        // ragged tail of a re-sliced batch is where rows get lost or duplicated
        big_weight => (
            (2usize..5, prop_oneof![Just(0usize), Just(1), Just(7), Just(500), Just(1023), Just(1024), Just(4096), Just(8191)]).prop_map(|(k, r)| k * 8192 + r),
            Just(1usize),
            Just(1usize << 20)
        ),
    ];
    (
        shape,
        1u32..7,
        prop_oneof![Just(0u32), Just(10), Just(50), Just(100)],
        prop_oneof![2 => Just(0u32), 1 => Just(3u32), 1 => Just(40u32)],
        proptest::bool::weighted(0.85),
        prop_oneof![1 => Just(64usize), 3 => Just(1usize << 20)],
        any::<u64>(),
    )
        .prop_map(|((n_rows, n_files, rg_size), d_card, d_null_pct, w_card, dictionary, dict_page_limit, seed)| TableSpec {
            n_rows,
            n_files,
            rg_size,
            d_card,
            d_null_pct,
            w_card,
            dictionary,
            dict_page_limit,
            seed,
        })
}

/// usually begins with an unfiltered scan (then every file is read and must get a sidecar)
fn queries_strategy(lo: usize, hi: usize) -> impl Strategy<Value = Vec<Q>> {
    (
        proptest::bool::weighted(0.8),
        proptest::collection::vec((0u8..N_KINDS, any::<u16>(), any::<u16>()).prop_map(|(kind, p1, p2)| Q { kind, p1, p2 }), lo..hi),
    )
        .prop_map(|(scan_first, mut qs)| {
            if scan_first {
                qs.insert(0, Q { kind: 0, p1: 0, p2: 0 });
            }
            qs
        })
}

fn table_labels(t: &TableSpec, files: &[PathBuf], obs: &mut Obs) {
    use parquet::arrow::arrow_reader::ParquetRecordBatchReaderBuilder;
    let mut rgs = 0;
    for f in files {
        rgs += ParquetRecordBatchReaderBuilder::try_new(std::fs::File::open(f).unwrap()).unwrap().metadata().num_row_groups();
    }
    if files.len() > 1 {
        obs.label("multi-file");
    }
    if rgs > files.len() {
        obs.label("multi-row-group");
    }
    if t.w_card == 0 && t.rg_size > 4096 && t.n_rows / t.n_files.max(1) > 4096 {
        obs.label("wide dictionary (>4096 values in a row group)");
    }
    if !t.dictionary {
        obs.label("no dictionary encoding");
    }
    if t.dict_page_limit < 1000 && t.dictionary {
        obs.label("dictionary fallback pages");
    }
    if t.d_null_pct == 100 {
        obs.label("all-NULL dict column");
    }
}

// ---------------------------------------------------------------------------
// check (a): configurations
// ---------------------------------------------------------------------------

#[derive(Clone, Debug, Serialize, Deserialize)]
pub struct ConfigCase {
    pub table: TableSpec,
    pub queries: Vec<Q>,
    pub force_big: bool,
}

pub struct SidecarConfigs;
impl Check for SidecarConfigs {
    type Case = ConfigCase;
    fn name(&self) -> &'static str {
        "sidecar_configs"
    }
    fn rule(&self) -> &'static str {
        "the table has >=2 row groups, at least two queries succeed with QE_IPC_CACHE=0, and the =1 process left a complete sidecar that the later processes could use"
    }
    fn cases(&self, tier: Tier) -> u32 {
        tier.pick(40, 1000)
    }
    fn workers(&self, _tier: Tier) -> usize {
        8
    }
    fn max_shrink_iters(&self) -> u32 {
        40
    }
    fn strategy(&self, _tier: Tier) -> BoxedStrategy<ConfigCase> {
        (table_strategy(6, 3, 4200..24_000), queries_strategy(3, 8), proptest::bool::weighted(0.3))
            .prop_map(|(table, queries, force_big)| ConfigCase { table, queries, force_big })
            .boxed()
    }
    fn test(&self, c: &ConfigCase, obs: &mut Obs) -> Verdict {
        let tmp = TempDir::new("c20a");
        let tdir = tmp.path().join("t");
        let ctl = tmp.path().join("ctl");
        std::fs::create_dir_all(&ctl).unwrap();
        let files = write_table(&c.table, &tdir);
        table_labels(&c.table, &files, obs);
        let run = |tag: &str, cfg: Cfg| run_once(&ctl, tag, &tdir, &c.table, &c.queries, c.force_big, cfg);
        let reference = match run("off", Cfg::Off) {
            Ok(a) => a,
            Err(e) => return Verdict::Fail(format!("[QE_IPC_CACHE=0] {}", e)),
        };
        if std::fs::read_dir(&tdir).unwrap().filter_map(|e| e.ok()).any(|e| e.file_name().to_string_lossy().contains(".qeipc")) {
            return Verdict::Fail("QE_IPC_CACHE=0 created a sidecar directory".into());
        }
        // unset on a cold directory must not build anything either
        let cold_auto = match run("auto-cold", Cfg::Auto) {
            Ok(a) => a,
            Err(e) => return Verdict::Fail(format!("[unset, cold] {}", e)),
        };
        if let Err(m) = compare("QE_IPC_CACHE unset on a cold directory", &reference, &cold_auto, &c.queries, &c.table, true, obs) {
            return Verdict::Fail(m);
        }
        if std::fs::read_dir(&tdir).unwrap().filter_map(|e| e.ok()).any(|e| e.file_name().to_string_lossy().contains(".qeipc")) {
            return Verdict::Fail("QE_IPC_CACHE unset built a sidecar directory (documented: never builds)".into());
        }
        let mut built = 0;
        for (tag, cfg, who) in [
            ("build-fresh", Cfg::Build, "QE_IPC_CACHE=1 on a cold directory"),
            ("build-reuse", Cfg::Build, "QE_IPC_CACHE=1 reusing the sidecars"),
            ("auto-reuse", Cfg::Auto, "QE_IPC_CACHE unset after a build"),
        ] {
            let got = match run(tag, cfg) {
                Ok(a) => a,
                Err(e) => return Verdict::Fail(format!("[{}] {}", who, e)),
            };
            if let Err(m) = compare(who, &reference, &got, &c.queries, &c.table, true, obs) {
                return Verdict::Fail(m);
            }
            if tag == "build-fresh" {
                match sidecars_complete(&files, has_full_scan(&c.queries, &reference)) {
                    Err(m) => return Verdict::Fail(format!("after `{}`: {}", who, m)),
                    Ok(n) => {
                        built = n;
                        if n == files.len() {
                            obs.label("every file got a sidecar");
                        } else {
                            obs.label("some file got no sidecar (no query read it)");
                        }
                    }
                }
            }
        }
        let ok_queries = reference.iter().filter(|a| a.res.is_ok()).count();
        let multi_rg = {
            use parquet::arrow::arrow_reader::ParquetRecordBatchReaderBuilder;
            files
                .iter()
                .map(|f| ParquetRecordBatchReaderBuilder::try_new(std::fs::File::open(f).unwrap()).unwrap().metadata().num_row_groups())
                .sum::<usize>()
                >= 2
        };
        obs.nontrivial(multi_rg && ok_queries >= 2 && built >= 1);
        Verdict::Pass
    }
}

// ---------------------------------------------------------------------------
// check (b): races
// ---------------------------------------------------------------------------

#[derive(Clone, Debug, Serialize, Deserialize)]
pub struct RaceCase {
    pub table: TableSpec,
    pub queries: Vec<Q>,
    pub builders: usize,
    pub readers: usize,
    pub reader_iters: u32,
    pub force_big: bool,
}

pub struct SidecarRaces;
impl Check for SidecarRaces {
    type Case = RaceCase;
    fn name(&self) -> &'static str {
        "sidecar_races"
    }
    fn rule(&self) -> &'static str {
        ">=2 builder processes had staging directories at the same time (seen by the polling monitor) and a reader answered a query while a staging directory existed"
    }
    fn cases(&self, tier: Tier) -> u32 {
        tier.pick(20, 500)
    }
    fn workers(&self, _tier: Tier) -> usize {
        2
    }
    fn max_shrink_iters(&self) -> u32 {
        12
    }
    fn strategy(&self, _tier: Tier) -> BoxedStrategy<RaceCase> {
        (
            // big tables only: the build must take long enough to overlap
            table_strategy(1, 30, 12_000..40_000),
            queries_strategy(2, 5),
            prop_oneof![1 => 1usize..3, 6 => 3usize..9],
            1usize..5,
            2u32..6,
            proptest::bool::weighted(0.3),
        )
            .prop_map(|(table, queries, builders, readers, reader_iters, force_big)| RaceCase {
                table,
                queries,
                builders,
                readers,
                reader_iters,
                force_big,
            })
            .boxed()
    }
    fn test(&self, c: &RaceCase, obs: &mut Obs) -> Verdict {
        let tmp = TempDir::new("c20b");
        let tdir = tmp.path().join("t");
        let ctl = tmp.path().join("ctl");
        std::fs::create_dir_all(&ctl).unwrap();
        let files = write_table(&c.table, &tdir);
        table_labels(&c.table, &files, obs);
        let reference = match run_once(&ctl, "off", &tdir, &c.table, &c.queries, c.force_big, Cfg::Off) {
            Ok(a) => a,
            Err(e) => return Verdict::Fail(format!("[QE_IPC_CACHE=0] {}", e)),
        };
        let go = ctl.join("go");
        let done = ctl.join("done");
        let mk = |tag: String, until: Option<PathBuf>| Job {
            table_dir: tdir.clone(),
            table: c.table.clone(),
            out: ctl.join(format!("{}.out", tag)),
            queries: c.queries.clone(),
            force_big: c.force_big,
            go: Some(go.clone()),
            until,
            max_iters: c.reader_iters.max(1) * 50,
        };
        let mut builders = vec![];
        for i in 0..c.builders.clamp(1, 8) {
            let j = mk(format!("builder{}", i), None);
            let ch = spawn(&j, Cfg::Build);
            builders.push((j, ch));
        }
        let mut readers = vec![];
        for i in 0..c.readers.clamp(1, 4) {
            let j = mk(format!("reader{}", i), Some(done.clone()));
            let ch = spawn(&j, Cfg::Auto);
            readers.push((j, ch));
        }
        // wait until every process is initialised, then release them together
        let t0 = std::time::Instant::now();
        loop {
            let ready = builders.iter().map(|(j, _)| j).chain(readers.iter().map(|(j, _)| j)).all(|j| PathBuf::from(format!("{}.ready", j.out.display())).exists());
            if ready || t0.elapsed().as_secs() > 90 {
                break;
            }
            std::thread::sleep(std::time::Duration::from_millis(2));
        }
        // monitor: how many staging directories exist at once
        let stop = std::sync::Arc::new(std::sync::atomic::AtomicBool::new(false));
        let max_staging = std::sync::Arc::new(std::sync::atomic::AtomicUsize::new(0));
        let mon = {
            let (stop, max_staging, tdir) = (stop.clone(), max_staging.clone(), tdir.clone());
            std::thread::spawn(move || {
                while !stop.load(std::sync::atomic::Ordering::SeqCst) {
                    let n = staging_dirs(&tdir);
                    max_staging.fetch_max(n, std::sync::atomic::Ordering::SeqCst);
                    std::thread::yield_now();
                }
            })
        };
        std::fs::write(&go, b"1").unwrap();
        let mut results: Vec<(String, Result<Vec<Ans>, String>)> = vec![];
        for (i, (j, ch)) in builders.into_iter().enumerate() {
            results.push((format!("builder#{}", i), collect(&j, ch)));
        }
        std::fs::write(&done, b"1").unwrap();
        for (i, (j, ch)) in readers.into_iter().enumerate() {
            results.push((format!("reader#{}", i), collect(&j, ch)));
        }
        stop.store(true, std::sync::atomic::Ordering::SeqCst);
        let _ = mon.join();

        let mut reader_during_build = false;
        for (who, r) in &results {
            let answers = match r {
                Ok(a) => a,
                Err(e) => {
                    // a crashed process is not an answer; record it
                    obs.label(format!("process died during race: {} ({})", who.split('#').next().unwrap(), e.chars().take(40).collect::<String>()));
                    continue;
                }
            };
            if who.starts_with("reader") && answers.iter().any(|a| a.staging_seen && a.res.is_ok()) {
                reader_during_build = true;
            }
            if let Err(m) = compare(who, &reference, answers, &c.queries, &c.table, false, obs) {
                return Verdict::Fail(format!(
                    "race of {} builders and {} readers: {}",
                    c.builders, c.readers, m
                ));
            }
        }
        let leftovers = staging_dirs(&tdir);
        if leftovers > 0 {
            obs.label("staging directory left behind after the race");
        }
        if let Err(m) = sidecars_complete(&files, has_full_scan(&c.queries, &reference)) {
            return Verdict::Fail(format!("after a race of {} builders and {} readers: {}", c.builders, c.readers, m));
        }
        match run_once(&ctl, "after", &tdir, &c.table, &c.queries, c.force_big, Cfg::Auto) {
            Ok(a) => {
                if let Err(m) = compare("QE_IPC_CACHE unset after the race", &reference, &a, &c.queries, &c.table, true, obs) {
                    return Verdict::Fail(m);
                }
            }
            Err(e) => return Verdict::Fail(format!("[unset after the race] {}", e)),
        }
        let ms = max_staging.load(std::sync::atomic::Ordering::SeqCst);
        obs.label(format!("max simultaneous staging dirs={}", ms.min(4)));
        if reader_during_build {
            obs.label("reader answered during a build");
        }
        obs.nontrivial(ms >= 2 && reader_during_build);
        // schedules differ between runs of the same case: distinctness by case only
        Verdict::Pass
    }
}

pub fn property() -> Property {
    Property {
        id: "C20",
        level: "exploration",
        assumptions: &[
            "LIMIT: cross-process schedules are sampled by repeated races, not controlled; overlap is measured (staging directories seen while polling) and reported",
            "an error answer during a race is recorded, not counted as a violation (the property forbids wrong answers and partial observations); outside races an error that only appears with sidecars on is a violation",
            "the reference answer is the same query in a QE_IPC_CACHE=0 process on the same files (differential; absolute correctness of the Parquet path belongs to C04/C19)",
        ],
        checks: vec![Box::new(SidecarConfigs), Box::new(SidecarRaces)],
    }
}
