//! C20 — not implemented yet.
use super::Property;

pub fn property() -> Property {
    Property { id: "C20", level: "exploration", assumptions: &[], checks: vec![] }
}
