//! C22 — not implemented yet.
use super::Property;

pub fn property() -> Property {
    Property { id: "C22", level: "exploration", assumptions: &[], checks: vec![] }
}
