//! C22 — Joins follow SQL join semantics.
//!
//! Generator: two (`join2`) or three (`join3`) relations r, s, u that share 1–3
//! key columns k1..k3 (types drawn from BIGINT/INTEGER/VARCHAR/DATE; optionally
//! INTEGER on one side and BIGINT on the other) plus payload columns p (small
//! BIGINT) and q (any type); key NULL density 0/20/40 %, tiny domains
//! (duplicates on both sides), row counts from {0, 1, 2–5, 6–12, 25–40} per
//! table so the left:right ratio crosses the planner's `left > 2×right`
//! build-side flip in both directions. Statement: `SELECT <subset of visible
//! columns> FROM r t1 <kind> JOIN s t2 ON <1..K equi-keys, either orientation>
//! [AND residual over left / right / both sides] [WHERE p]` with kind ∈ {INNER,
//! LEFT, RIGHT, FULL, LEFT SEMI, LEFT ANTI, CROSS, comma}; rarely an ON with no
//! equi-key at all. Three relations: left-deep `(t1 ⋈ t2) ⋈ t3` or right-nested
//! `t1 ⋈ (t2 ⋈ t3)`, the second ON referencing t3 and t1 or t2.
//! Every case runs through: in-memory tables (random batch cuts); a tiny
//! memory limit (spilled hash join); Parquet (random files / row groups /
//! statistics → statistics-driven join reordering); Parquet with the
//! streaming-scan gate forced (runtime join-key filters); and the *swapped*
//! statement (inputs of an INNER/FULL/CROSS join exchanged, LEFT↔RIGHT) whose
//! select list is the same, so the same reference answer applies (the
//! metamorphic relation of DESIGN §5).
//!
//! Oracle: `refsql` nested-loop join, multiset comparison. An engine error is
//! an allowed outcome (e.g. the spill path refuses non-inner joins).
use super::Property;
use crate::data::*;
use crate::refsql::Db;
use crate::runner::*;
use crate::sqlast::*;
use crate::sqlgen::*;
use proptest::prelude::*;
use serde::{Deserialize, Serialize};

#[path = "c25_util.rs"]
mod util;
use util::*;

#[derive(Clone, Debug, Serialize, Deserialize)]
pub struct JoinCase {
    pub sql_case: SqlCase,
    pub cfgs: Vec<EngineCfg>,
}

const KEY_TYPES: [ColType; 5] = [ColType::Int, ColType::Int32, ColType::Str, ColType::Date, ColType::Int];
const PAY_TYPES: [ColType; 6] = [ColType::Double, ColType::Str, ColType::Bool, ColType::Date, ColType::Int, ColType::Int32];
const TNAMES: [&str; 3] = ["r", "s", "u"];

#[derive(Clone, Debug)]
struct TableSpec {
    key_null_pct: u32,
    q_ty: ColType,
    size_class: usize,
}

fn size_range(class: usize) -> std::ops::RangeInclusive<usize> {
    match class {
        0 => 0..=0,
        1 => 1..=1,
        2 => 2..=5,
        3 => 6..=12,
        4 => 25..=40,
        // above the 1000-probe-row gate of the parallel semi/anti probe
        _ => 1001..=1060,
    }
}

/// tables r, s[, u] sharing key columns k1..kK
fn tables_strategy(ntables: usize) -> BoxedStrategy<Vec<Table>> {
    let spec = (
        proptest::sample::select(vec![0u32, 20, 40]),
        proptest::sample::select(PAY_TYPES.to_vec()),
        proptest::sample::select(vec![0usize, 1, 2, 2, 3, 3, 4, 4]),
    )
        .prop_map(|(key_null_pct, q_ty, size_class)| TableSpec { key_null_pct, q_ty, size_class });
    (
        proptest::collection::vec(proptest::sample::select(KEY_TYPES.to_vec()), 1..=3),
        proptest::collection::vec(spec, ntables),
        // mixed integer widths: table index whose integer keys take the other width
        proptest::option::weighted(0.15, 0usize..ntables),
        // rarely: a 1000+ row right table (2-relation statements only)
        proptest::bool::weighted(if ntables == 2 { 0.05 } else { 0.0 }),
    )
        .prop_flat_map(move |(key_types, specs, mixed, big_right)| {
            let mut tables = vec![];
            for (ti, sp) in specs.iter().enumerate() {
                let mut cols: Vec<Column> = vec![];
                let mut vals: Vec<BoxedStrategy<Value>> = vec![];
                for (ki, kt) in key_types.iter().enumerate() {
                    let ty = match (mixed == Some(ti), kt) {
                        (true, ColType::Int) => ColType::Int32,
                        (true, ColType::Int32) => ColType::Int,
                        _ => *kt,
                    };
                    cols.push(Column { name: format!("k{}", ki + 1), ty });
                    vals.push(small_value(ty, sp.key_null_pct));
                }
                cols.push(Column { name: "p".into(), ty: ColType::Int });
                vals.push(small_value(ColType::Int, 15));
                cols.push(Column { name: "q".into(), ty: sp.q_ty });
                vals.push(small_value(sp.q_ty, 20));
                let name = TNAMES[ti].to_string();
                tables.push(proptest::collection::vec(vals, size_range(if big_right && ti == 1 { 5 } else { sp.size_class })).prop_map(move |rows| Table { name: name.clone(), cols: cols.clone(), rows }));
            }
            tables
        })
        .boxed()
}

fn lit(t: &mut Tape, ty: ColType) -> Expr {
    Expr::Lit(match ty {
        ColType::Int | ColType::Int32 => Value::Int(t.pick(5) as i64),
        ColType::Double => Value::Double((t.pick(17) as i64 - 8) as f64 * 0.25),
        ColType::Str => Value::Str(["a", "", "ab", "b", "B", "a%", "é"][t.pick(7)].to_string()),
        ColType::Date => Value::Date(10957 + t.pick(4) as i32 * 15),
        ColType::Bool => Value::Bool(t.pick(2) == 1),
    })
}

const CMP: [BinOp; 6] = [BinOp::Eq, BinOp::Lt, BinOp::Ne, BinOp::Le, BinOp::Gt, BinOp::Ge];

/// one relation in scope: alias + its table
#[derive(Clone)]
struct RelIn<'a> {
    alias: String,
    t: &'a Table,
}

fn col(r: &RelIn, name: &str) -> Expr {
    Expr::qcol(&r.alias, name)
}

/// single-side predicate over relation `r`
fn side_pred(t: &mut Tape, r: &RelIn) -> Expr {
    match t.pick(4) {
        0 | 1 => Expr::bin(col(r, "p"), CMP[t.pick(6)], lit(t, ColType::Int)),
        2 => Expr::IsNull { e: Box::new(col(r, ["p", "q", "k1"][t.pick(3)])), neg: t.chance(50) },
        _ => {
            let qty = r.t.cols.iter().find(|c| c.name == "q").map(|c| c.ty).unwrap_or(ColType::Int);
            if qty == ColType::Bool {
                col(r, "q")
            } else {
                let lt = if qty == ColType::Int32 { ColType::Int } else { qty };
                Expr::bin(col(r, "q"), CMP[t.pick(6)], lit(t, lt))
            }
        }
    }
}

/// predicate over both sides
fn both_pred(t: &mut Tape, l: &RelIn, r: &RelIn) -> Expr {
    match t.pick(4) {
        0 | 1 => Expr::bin(col(l, "p"), CMP[t.pick(6)], col(r, "p")),
        2 => Expr::bin(Expr::bin(col(l, "p"), BinOp::Add, col(r, "p")), CMP[t.pick(6)], Expr::int(t.pick(8) as i64)),
        // a disjunction of two single-side predicates: true for a pair when either side qualifies
        _ => {
            let a = side_pred(t, l);
            let b = side_pred(t, r);
            Expr::bin(a, BinOp::Or, b)
        }
    }
}

struct Built {
    from: From,
    /// relations visible after the join (semi/anti hide their right side)
    visible: Vec<usize>,
}

/// ON condition between `l` (one of the relations visible on the left) and `r`
#[allow(clippy::too_many_arguments)]
fn on_cond(t: &mut Tape, nkeys: usize, l: &RelIn, r: &RelIn, feats: &mut Vec<String>, residual_pct: u32) -> Expr {
    let mut conj: Vec<Expr> = vec![];
    let no_equi = t.chance(5);
    if !no_equi {
        let m = 1 + t.pick(nkeys);
        for k in 0..m {
            let name = format!("k{}", k + 1);
            // mostly the same-named key; sometimes another key column of the same type
            let mut rname = name.clone();
            if nkeys >= 2 && t.chance(15) {
                let other = format!("k{}", 1 + t.pick(nkeys));
                let ty = |rel: &RelIn, n: &str| rel.t.cols.iter().find(|c| c.name == n).map(|c| c.ty);
                if ty(r, &other) == ty(l, &name) {
                    rname = other;
                    feats.push("equi_diff_names".into());
                }
            }
            let (a, b) = (col(l, &name), col(r, &rname));
            conj.push(if t.chance(30) { Expr::eq(b, a) } else { Expr::eq(a, b) });
        }
        feats.push(format!("equi_keys:{}", m));
    } else {
        feats.push("no_equi".into());
    }
    if no_equi || t.chance(residual_pct) {
        let (e, f) = match t.pick(10) {
            0..=2 => (side_pred(t, l), "residual_left"),
            3..=5 => (side_pred(t, r), "residual_right"),
            6 if !no_equi => (Expr::Lit(Value::Bool(t.chance(50))), "residual_const"),
            _ => (both_pred(t, l, r), "residual_both"),
        };
        feats.push(f.into());
        feats.push("join_residual".into());
        conj.push(e);
    }
    // random position of the residual among the equalities
    if conj.len() > 1 && t.chance(30) {
        let last = conj.pop().unwrap();
        conj.insert(0, last);
    }
    conj.into_iter().reduce(Expr::and).unwrap()
}

const KINDS: [JoinKind; 8] = [JoinKind::Inner, JoinKind::Left, JoinKind::Right, JoinKind::Full, JoinKind::Semi, JoinKind::Anti, JoinKind::Left, JoinKind::Cross];

fn kind_feat(k: JoinKind) -> &'static str {
    match k {
        JoinKind::Inner => "join_inner",
        JoinKind::Left => "join_left",
        JoinKind::Right => "join_right",
        JoinKind::Full => "join_full",
        JoinKind::Cross => "join_cross",
        JoinKind::Semi => "join_semi",
        JoinKind::Anti => "join_anti",
    }
}

fn build(tables: Vec<Table>, tape: Vec<u16>, cuts: Vec<Vec<usize>>, layouts: Vec<ParquetLayout>) -> JoinCase {
    let mut t = Tape::new(tape);
    let n = tables.len();
    let nkeys = tables[0].cols.iter().filter(|c| c.name.starts_with('k')).count();
    let rels: Vec<RelIn> = (0..n).map(|i| RelIn { alias: format!("t{}", i + 1), t: &tables[i] }).collect();
    let base = |i: usize| From::Table { name: tables[i].name.clone(), alias: Some(format!("t{}", i + 1)) };
    let mut feats: Vec<String> = vec![];
    let mut where_parts: Vec<Expr> = vec![];

    let residual_pct = 55;
    let mut join = |t: &mut Tape, l: Built, r: Built, feats: &mut Vec<String>, where_parts: &mut Vec<Expr>| -> Built {
        let kind = KINDS[t.pick(KINDS.len())];
        // the relations the ON may mention
        let li = l.visible[t.pick(l.visible.len())];
        let ri = r.visible[t.pick(r.visible.len())];
        if kind == JoinKind::Cross {
            feats.push(kind_feat(kind).into());
            // sometimes a WHERE equality instead of ON (comma-join style)
            if t.chance(40) {
                feats.push("where_equi".into());
                where_parts.push(Expr::eq(col(&rels[li], "k1"), col(&rels[ri], "k1")));
            }
            let mut visible = l.visible.clone();
            visible.extend(r.visible.iter().cloned());
            return Built { from: From::Join { l: Box::new(l.from), r: Box::new(r.from), kind, on: None }, visible };
        }
        feats.push(kind_feat(kind).into());
        let on = on_cond(t, nkeys, &rels[li], &rels[ri], feats, residual_pct);
        let mut visible = l.visible.clone();
        if !matches!(kind, JoinKind::Semi | JoinKind::Anti) {
            visible.extend(r.visible.iter().cloned());
        }
        Built { from: From::Join { l: Box::new(l.from), r: Box::new(r.from), kind, on: Some(on) }, visible }
    };

    let leaf = |i: usize| Built { from: base(i), visible: vec![i] };
    let built = if n == 2 {
        join(&mut t, leaf(0), leaf(1), &mut feats, &mut where_parts)
    } else if t.chance(65) {
        feats.push("shape_left_deep".into());
        let a = join(&mut t, leaf(0), leaf(1), &mut feats, &mut where_parts);
        join(&mut t, a, leaf(2), &mut feats, &mut where_parts)
    } else {
        feats.push("shape_right_nested".into());
        let b = join(&mut t, leaf(1), leaf(2), &mut feats, &mut where_parts);
        join(&mut t, leaf(0), b, &mut feats, &mut where_parts)
    };
    drop(join);

    // WHERE over visible relations
    if t.chance(30) {
        feats.push("where".into());
        let vi = built.visible[t.pick(built.visible.len())];
        where_parts.push(side_pred(&mut t, &rels[vi]));
    }
    // select list: all visible columns, or a random non-empty subset (join-output pruning)
    let mut all: Vec<Expr> = vec![];
    for &vi in &built.visible {
        for c in &tables[vi].cols {
            all.push(col(&rels[vi], &c.name));
        }
    }
    let subset = t.chance(40);
    let mut items: Vec<Item> = vec![];
    for e in all.iter() {
        if !subset || t.chance(45) {
            items.push(Item::Expr(e.clone(), Some(format!("c{}", items.len() + 1))));
        }
    }
    if items.is_empty() {
        items.push(Item::Expr(all[t.pick(all.len())].clone(), Some("c1".into())));
    }
    if subset {
        feats.push("subset_items".into());
    }
    let mixed = tables.iter().any(|tb| tb.cols.iter().any(|c| c.name.starts_with('k') && c.ty != tables[0].cols.iter().find(|d| d.name == c.name).unwrap().ty));
    if mixed {
        feats.push("mixed_width_keys".into());
    }
    let sel = Select { distinct: false, items, from: vec![built.from], where_: where_parts.into_iter().reduce(Expr::and), group: Group::None, having: None };
    // engine configurations
    let spill = [1usize, 1, 64, 256][t.pick(4)];
    let mut cfgs = vec![EngineCfg::mem("mem"), EngineCfg::mem("spill").limit(spill), EngineCfg::mem("parquet").parquet(layouts.clone())];
    // the forced streaming-scan gate is a process-global switch (runs exclusively): 1 case in 3
    if t.chance(33) {
        cfgs.push(EngineCfg::mem("parquet_big").parquet(layouts).big());
    }
    JoinCase { sql_case: SqlCase { tables, query: Query::select(sel), cuts, features: feats }, cfgs }
}

/// The metamorphic variant: exchange the inputs of the top-most join when that
/// preserves the answer (INNER/FULL/CROSS: swap; LEFT↔RIGHT). The select list
/// names its columns explicitly, so the expected rows are identical.
fn swapped(q: &Query) -> Option<Query> {
    let SetExpr::Select(sel) = &q.body else { return None };
    let From::Join { l, r, kind, on } = sel.from.first()? else { return None };
    let k2 = match kind {
        JoinKind::Inner | JoinKind::Full | JoinKind::Cross => *kind,
        JoinKind::Left => JoinKind::Right,
        JoinKind::Right => JoinKind::Left,
        JoinKind::Semi | JoinKind::Anti => return None,
    };
    let mut s2 = (**sel).clone();
    s2.from = vec![From::Join { l: r.clone(), r: l.clone(), kind: k2, on: on.clone() }];
    Some(Query::select(s2))
}

// ---------------------------------------------------------------------------
// non-triviality (all through the reference evaluator)
// ---------------------------------------------------------------------------

fn count(db_tables: &[Table], from: From, where_: Option<Expr>) -> Option<i64> {
    let q = Query::select(Select { distinct: false, items: vec![Item::Expr(Expr::count_star(), Some("n".into()))], from: vec![from], where_, group: Group::None, having: None });
    match Db::new(db_tables).run(&q).ok()?.rows.first()?.first()? {
        Value::Int(i) => Some(*i),
        _ => None,
    }
}

fn split_on(on: &Expr, equi: &mut Vec<Expr>, other: &mut Vec<Expr>) {
    match on {
        Expr::Bin(a, BinOp::And, b) => {
            split_on(a, equi, other);
            split_on(b, equi, other);
        }
        Expr::Bin(a, BinOp::Eq, b) if matches!(**a, Expr::Col { .. }) && matches!(**b, Expr::Col { .. }) => equi.push(on.clone()),
        _ => other.push(on.clone()),
    }
}

struct Nt {
    unmatched_preserved: bool,
    residual_rejects: bool,
}

/// facts about one join node of the statement
fn join_facts(tables: &[Table], f: &From, out: &mut Vec<Nt>) {
    if let From::Join { l, r, kind, on } = f {
        join_facts(tables, l, out);
        join_facts(tables, r, out);
        let Some(on) = on else { return };
        let anti = |a: &From, b: &From| count(tables, From::Join { l: Box::new(a.clone()), r: Box::new(b.clone()), kind: JoinKind::Anti, on: Some(on.clone()) }, None).unwrap_or(0) > 0;
        let unmatched_preserved = match kind {
            JoinKind::Left | JoinKind::Anti | JoinKind::Semi => anti(l, r),
            JoinKind::Right => anti(r, l),
            _ => anti(l, r) || anti(r, l),
        };
        let (mut equi, mut other) = (vec![], vec![]);
        split_on(on, &mut equi, &mut other);
        let residual_rejects = if equi.is_empty() || other.is_empty() {
            false
        } else {
            let inner = |cond: Expr| count(tables, From::Join { l: l.clone(), r: r.clone(), kind: JoinKind::Inner, on: Some(cond) }, None).unwrap_or(0);
            inner(equi.into_iter().reduce(Expr::and).unwrap()) > inner(on.clone())
        };
        out.push(Nt { unmatched_preserved, residual_rejects });
    }
}

fn null_key(tables: &[Table]) -> bool {
    tables.iter().any(|t| t.cols.iter().enumerate().any(|(i, c)| c.name.starts_with('k') && t.rows.iter().any(|r| r[i].is_null())))
}

// ---------------------------------------------------------------------------
// known findings
// ---------------------------------------------------------------------------

pub const KF_SEMI_FILTER: &str = "join-semi-anti-on-filter";
pub const KF_EMPTY_BUILD: &str = "join-outer-empty-build-side";
pub const KF_SPILL_KEY: &str = "join-spill-date-or-dictionary-key";
pub const KF_REORDER: &str = "join-reorder-loses-on-condition";
pub const KF_DICT_KEY: &str = "join-key-dictionary-string";

fn for_each_join<'a>(f: &'a From, g: &mut dyn FnMut(&'a From, &'a From, JoinKind, Option<&'a Expr>)) {
    if let From::Join { l, r, kind, on } = f {
        for_each_join(l, g);
        for_each_join(r, g);
        g(l, r, *kind, on.as_ref());
    }
}

fn top_from(c: &SqlCase) -> Option<&From> {
    match &c.query.body {
        SetExpr::Select(s) => s.from.first(),
        _ => None,
    }
}

/// column type of `alias.name` (aliases are t1..t3 over tables[0..3])
fn col_type(c: &SqlCase, e: &Expr) -> Option<ColType> {
    let Expr::Col { rel: Some(a), name } = e else { return None };
    let idx: usize = a.trim_start_matches('t').parse::<usize>().ok()?.checked_sub(1)?;
    c.tables.get(idx)?.cols.iter().find(|x| &x.name == name).map(|x| x.ty)
}

/// Signature predicates of the open findings (statement shape + data / configuration condition).
fn classify(c: &SqlCase, _ev: &Ev, reference: &crate::refsql::RefAnswer, cfg: &EngineCfg, out: &RunOut, _msg: &str) -> Option<&'static str> {
    let from = top_from(c)?;
    let got = out.rows.as_ref().ok()?;
    let mut semi_anti_filter = false;
    let mut outer = false;
    let mut date_key = false;
    let mut inner_over_non_inner = false;
    let mut str_key_over_join = false;
    let mut njoins = 0;
    for_each_join(from, &mut |l, r, kind, on| {
        njoins += 1;
        let (mut equi, mut other) = (vec![], vec![]);
        if let Some(on) = on {
            split_on(on, &mut equi, &mut other);
        }
        if matches!(kind, JoinKind::Semi | JoinKind::Anti) && !other.is_empty() {
            semi_anti_filter = true;
        }
        if matches!(kind, JoinKind::Left | JoinKind::Right | JoinKind::Full) {
            // an input that hands the join NO batch: an empty Parquet table, or a join whose result is empty
            let no_batch = |f: &From| match f {
                From::Table { name, .. } => cfg.parquet.is_some() && c.tables.iter().any(|t| &t.name == name && t.rows.is_empty()),
                j => count(&c.tables, j.clone(), None) == Some(0),
            };
            if no_batch(l) || no_batch(r) {
                outer = true;
            }
        }
        let key_types: Vec<ColType> = equi
            .iter()
            .flat_map(|e| match e {
                Expr::Bin(a, _, b) => vec![col_type(c, a), col_type(c, b)],
                _ => vec![],
            })
            .flatten()
            .collect();
        if key_types.contains(&ColType::Date) {
            date_key = true;
        }
        let child_join = |f: &From| matches!(f, From::Join { .. });
        let non_inner_child = |f: &From| matches!(f, From::Join { kind, .. } if !matches!(kind, JoinKind::Inner | JoinKind::Cross));
        if matches!(kind, JoinKind::Inner | JoinKind::Cross) && (non_inner_child(l) || non_inner_child(r)) {
            inner_over_non_inner = true;
        }
        if (child_join(l) || child_join(r)) && key_types.contains(&ColType::Str) {
            str_key_over_join = true;
        }
    });
    // where-equalities of comma/cross joins become join keys too
    if let SetExpr::Select(s) = &c.query.body {
        if let Some(w) = &s.where_ {
            let (mut equi, mut other) = (vec![], vec![]);
            split_on(w, &mut equi, &mut other);
            for e in &equi {
                if let Expr::Bin(a, _, b) = e {
                    let tys = [col_type(c, a), col_type(c, b)];
                    if tys.contains(&Some(ColType::Date)) {
                        date_key = true;
                    }
                    if njoins >= 2 && tys.contains(&Some(ColType::Str)) {
                        str_key_over_join = true;
                    }
                }
            }
        }
    }
    // (1) Semi/Anti join with a non-equi ON conjunct: candidates are looked up in a hash table that is
    //     never built (small probes), marked once per probe row, or compared ignoring NULLs (large probes)
    if semi_anti_filter {
        return Some(KF_SEMI_FILTER);
    }
    // (2) outer join one of whose inputs yields no batch at all (empty Parquet table, or an upstream join
    //     with an empty result): the build side has nothing to gather the NULL extension from
    if outer {
        return Some(KF_EMPTY_BUILD);
    }
    // (3) spilled (partitioned) inner join: DATE keys and dictionary-encoded string keys read as NULL
    if cfg.mem_limit.is_some() && (date_key || str_key_over_join) && got.len() < reference.rows.len() {
        return Some(KF_SPILL_KEY);
    }
    // (4) INNER/CROSS join directly above an outer/semi/anti join: JoinReorder cannot resolve the
    //     qualified columns of the opaque sub-plan and drops the ON equalities → extra rows
    if njoins >= 2 && inner_over_non_inner && got.len() > reference.rows.len() {
        return Some(KF_REORDER);
    }
    // (5) a join keyed on a VARCHAR column that comes out of another join (dictionary-encoded by the
    //     small-build gather): hashing/equality do not recognise the encoding → no key ever matches
    if njoins >= 2 && str_key_over_join {
        return Some(KF_DICT_KEY);
    }
    None
}

/// Every configuration of the case, then the swapped statement in memory, all
/// against the one `refsql` answer. `Ok((verdict, configurations answered))`,
/// or `Err(verdict)` when the reference evaluator declined the statement.
fn judge_with_swapped(case: &JoinCase, obs: &mut Obs) -> Result<(Verdict, usize), Verdict> {
    let c = &case.sql_case;
    let out = judge_multi(c, &case.cfgs, obs, 1e-9, classify, false);
    let Some(reference) = &out.reference else { return Err(out.verdict) };
    let mut verdict = out.verdict.clone();
    let mut answered = out.answered();
    // metamorphic variant, in-memory
    if let Some(sq) = swapped(&c.query) {
        let sc = SqlCase { tables: c.tables.clone(), query: sq, cuts: c.cuts.clone(), features: c.features.clone() };
        let sql = sc.query.sql();
        let cfg = EngineCfg::mem("swapped");
        let run = run_cfg(&sc, &cfg, &sql, false);
        match &run.rows {
            Ok(got) => {
                answered += 1;
                obs.label("engine_ok[swapped]");
                if let Err(msg) = crate::refsql::compare_answer(reference, got, 1e-9) {
                    let full = format!("[swapped statement] {}\n sql: {}\n original: {}\n tables: {}", msg, sql, c.query.sql(), crate::sqlcheck::fmt_tables(&c.tables));
                    match classify(&sc, &out.events, reference, &cfg, &run, &msg) {
                        Some(id) if !matches!(verdict, Verdict::Fail(_)) => verdict = Verdict::Known { id: id.into(), msg: full },
                        Some(_) => {}
                        None => {
                            if !matches!(verdict, Verdict::Fail(_)) {
                                verdict = Verdict::Fail(full)
                            }
                        }
                    }
                }
            }
            Err(e) => obs.label(format!("engine_error[swapped]:{}", crate::sqlcheck::short_err(e))),
        }
    }
    Ok((verdict, answered))
}

pub struct JoinCheck {
    name: &'static str,
    ntables: usize,
    quick: u32,
    thorough: u32,
}

impl Check for JoinCheck {
    type Case = JoinCase;
    fn name(&self) -> &'static str {
        self.name
    }
    fn rule(&self) -> &'static str {
        "at least three configurations answered, and for some join of the statement: a row of its preserved side (either side for inner/full/cross) has no partner, a key column holds a NULL, and the residual ON predicate rejects at least one pair whose equi-keys match"
    }
    fn cases(&self, tier: Tier) -> u32 {
        tier.pick(self.quick, self.thorough)
    }
    fn max_shrink_iters(&self) -> u32 {
        1500
    }
    fn strategy(&self, _tier: Tier) -> BoxedStrategy<JoinCase> {
        let n = self.ntables;
        (
            tables_strategy(n),
            proptest::collection::vec(any::<u16>(), 0..80),
            proptest::collection::vec(proptest::collection::vec(0usize..=40, 0..3), n),
            proptest::collection::vec(parquet_layout_strategy(40), n),
        )
            .prop_map(|(tables, tape, cuts, layouts)| build(tables, tape, cuts, layouts))
            .boxed()
    }
    fn test(&self, case: &JoinCase, obs: &mut Obs) -> Verdict {
        let c = &case.sql_case;
        let (verdict, answered) = match judge_with_swapped(case, obs) {
            Ok(v) => v,
            Err(v) => return v,
        };
        // non-triviality
        let mut facts = vec![];
        if let SetExpr::Select(sel) = &c.query.body {
            for f in &sel.from {
                join_facts(&c.tables, f, &mut facts);
            }
        }
        let nk = null_key(&c.tables);
        let un = facts.iter().any(|f| f.unmatched_preserved);
        let rr = facts.iter().any(|f| f.residual_rejects);
        if nk {
            obs.label("null_key");
        }
        if un {
            obs.label("unmatched_preserved_row");
        }
        if rr {
            obs.label("residual_rejects_matching_pair");
        }
        let (l, r) = (c.tables[0].rows.len(), c.tables[1].rows.len());
        obs.label(if l > 2 * r { "size:left>2xright" } else if r > 2 * l { "size:right>2xleft" } else { "size:similar" });
        if l == 0 || r == 0 {
            obs.label("empty_side");
        }
        obs.nontrivial(answered >= 3 && nk && facts.iter().any(|f| f.unmatched_preserved && f.residual_rejects));
        verdict
    }
}

// ---------------------------------------------------------------------------
// join_batches: inputs that arrive as MANY record batches
// ---------------------------------------------------------------------------
//
// `probe_vectorized` (hash_join.rs) has separate code for a probe partition of
// >= 32 batches (MIN_BATCHES_FOR_PARALLEL): INNER and LEFT probe whole batches
// on rayon threads, each with its own pair filtering, match bits and
// NULL-extension; every other kind walks the batches sequentially with state
// carried across them. join2/join3 cut a table into at most 3 batches, so none
// of that ran. Here one table (either side, sometimes both) is a memory table
// of 34..=64 batches of 0..=3 rows (65–120 rows, one scan partition below 1000
// rows, so one probe partition sees them all) and the other one is small
// (0..=40 rows): `left > 2 x right` (build = right for LEFT/SEMI/ANTI, the
// left table is probed) and its opposite both occur, for every join kind, with
// and without a residual ON predicate. Same reference, same judging, plus the
// same tables as ONE batch each ("mem1") as a control.

/// minimum batch count of the engine's batch-parallel probe
const MANY: usize = 32;

/// rows of one table dealt into `nbatches` batches of 0..=3 rows → (rows, cut points)
fn batched_rows(vals: Vec<BoxedStrategy<Value>>, nbatches: std::ops::RangeInclusive<usize>) -> BoxedStrategy<(Vec<Vec<Value>>, Vec<usize>)> {
    let batch = prop_oneof![1 => Just(0usize), 6 => Just(1usize), 6 => Just(2usize), 5 => Just(3usize)].prop_flat_map(move |n| proptest::collection::vec(vals.clone(), n..=n));
    proptest::collection::vec(batch, nbatches)
        .prop_map(|batches| {
            let mut cuts = vec![];
            let mut rows = vec![];
            let nb = batches.len();
            for (i, b) in batches.into_iter().enumerate() {
                rows.extend(b);
                if i + 1 < nb {
                    cuts.push(rows.len());
                }
            }
            (rows, cuts)
        })
        .boxed()
}

/// r and s sharing k1..kK; `big` (0 = r = left input, 1 = s = right input) comes in >= 34 batches,
/// the other table is small with 0..=2 cuts, or (1 in 5) many-batch too
fn batched_tables_strategy() -> BoxedStrategy<(Vec<Table>, Vec<Vec<usize>>)> {
    let spec = (proptest::sample::select(vec![0u32, 20, 40]), proptest::sample::select(PAY_TYPES.to_vec()));
    (
        proptest::collection::vec(proptest::sample::select(KEY_TYPES.to_vec()), 1..=2),
        proptest::collection::vec(spec, 2),
        proptest::option::weighted(0.15, 0usize..2),
        0usize..2,
        // the other table: size class, or many batches as well
        proptest::sample::select(vec![0usize, 1, 2, 2, 3, 3, 3, 4, 4, 9]),
    )
        .prop_flat_map(|(key_types, specs, mixed, big, other)| {
            let mut parts: Vec<BoxedStrategy<(Vec<Vec<Value>>, Vec<usize>)>> = vec![];
            let mut schemas = vec![];
            for (ti, (key_null_pct, q_ty)) in specs.iter().enumerate() {
                let mut cols: Vec<Column> = vec![];
                let mut vals: Vec<BoxedStrategy<Value>> = vec![];
                for (ki, kt) in key_types.iter().enumerate() {
                    let ty = match (mixed == Some(ti), kt) {
                        (true, ColType::Int) => ColType::Int32,
                        (true, ColType::Int32) => ColType::Int,
                        _ => *kt,
                    };
                    cols.push(Column { name: format!("k{}", ki + 1), ty });
                    vals.push(small_value(ty, *key_null_pct));
                }
                cols.push(Column { name: "p".into(), ty: ColType::Int });
                vals.push(small_value(ColType::Int, 15));
                cols.push(Column { name: "q".into(), ty: *q_ty });
                vals.push(small_value(*q_ty, 20));
                schemas.push(cols);
                parts.push(if ti == big {
                    batched_rows(vals, 34..=64)
                } else if other == 9 {
                    batched_rows(vals, 32..=40)
                } else {
                    (proptest::collection::vec(vals, size_range(other)), proptest::collection::vec(0usize..=40, 0..3)).boxed()
                });
            }
            parts.prop_map(move |ps| {
                let mut tables = vec![];
                let mut cuts = vec![];
                for (ti, (rows, c)) in ps.into_iter().enumerate() {
                    tables.push(Table { name: TNAMES[ti].to_string(), cols: schemas[ti].clone(), rows });
                    cuts.push(c);
                }
                (tables, cuts)
            })
        })
        .boxed()
}

const BATCH_KINDS: [JoinKind; 8] = [JoinKind::Inner, JoinKind::Left, JoinKind::Left, JoinKind::Right, JoinKind::Right, JoinKind::Full, JoinKind::Semi, JoinKind::Anti];

fn build_batched(tables: Vec<Table>, cuts: Vec<Vec<usize>>, tape: Vec<u16>) -> JoinCase {
    let mut t = Tape::new(tape);
    let nkeys = tables[0].cols.iter().filter(|c| c.name.starts_with('k')).count();
    let rels: Vec<RelIn> = (0..2).map(|i| RelIn { alias: format!("t{}", i + 1), t: &tables[i] }).collect();
    let base = |i: usize| From::Table { name: tables[i].name.clone(), alias: Some(format!("t{}", i + 1)) };
    let mut feats: Vec<String> = vec![];
    let kind = BATCH_KINDS[t.pick(BATCH_KINDS.len())];
    feats.push(kind_feat(kind).into());
    let on = on_cond(&mut t, nkeys, &rels[0], &rels[1], &mut feats, 60);
    let visible: Vec<usize> = if matches!(kind, JoinKind::Semi | JoinKind::Anti) { vec![0] } else { vec![0, 1] };
    let from = From::Join { l: Box::new(base(0)), r: Box::new(base(1)), kind, on: Some(on) };
    let mut where_ = None;
    if t.chance(15) {
        feats.push("where".into());
        let vi = visible[t.pick(visible.len())];
        where_ = Some(side_pred(&mut t, &rels[vi]));
    }
    let mut all: Vec<Expr> = vec![];
    for &vi in &visible {
        for c in &tables[vi].cols {
            all.push(col(&rels[vi], &c.name));
        }
    }
    let subset = t.chance(40);
    let mut items: Vec<Item> = vec![];
    for e in all.iter() {
        if !subset || t.chance(45) {
            items.push(Item::Expr(e.clone(), Some(format!("c{}", items.len() + 1))));
        }
    }
    if items.is_empty() {
        items.push(Item::Expr(all[t.pick(all.len())].clone(), Some("c1".into())));
    }
    if subset {
        feats.push("subset_items".into());
    }
    if tables[0].cols.iter().zip(&tables[1].cols).any(|(a, b)| a.name.starts_with('k') && a.ty != b.ty) {
        feats.push("mixed_width_keys".into());
    }
    let sel = Select { distinct: false, items, from: vec![from], where_, group: Group::None, having: None };
    // the batch layout under test, with and without morsel execution; one batch per table as the control
    let cfgs = vec![EngineCfg::mem("mem"), EngineCfg::mem("nomorsel").no_morsel(), EngineCfg::mem("mem1").single()];
    JoinCase { sql_case: SqlCase { tables, query: Query::select(sel), cuts, features: feats }, cfgs }
}

/// non-empty batches table `i` is registered as
fn nonempty_batches(c: &SqlCase, i: usize) -> usize {
    let n = c.tables[i].rows.len();
    let mut pts: Vec<usize> = c.cuts.get(i).map(|v| v.iter().map(|x| (*x).min(n)).collect()).unwrap_or_default();
    pts.sort();
    pts.push(n);
    let (mut lo, mut k) = (0, 0);
    for p in pts {
        if p > lo {
            k += 1;
        }
        lo = p;
    }
    k
}

pub struct BatchedJoinCheck;

impl Check for BatchedJoinCheck {
    type Case = JoinCase;
    fn name(&self) -> &'static str {
        "join_batches"
    }
    fn rule(&self) -> &'static str {
        "at least two configurations answered, the table the hash join is expected to probe (the left one of a LEFT/SEMI/ANTI join when it has more than twice the rows of the right one, else the right one) is registered as >= 32 non-empty batches, a key column holds a NULL, a row of the preserved side (either side for inner/full) has no partner, and a residual ON predicate, when present, rejects at least one pair whose equi-keys match"
    }
    fn cases(&self, tier: Tier) -> u32 {
        tier.pick(700, 40_000)
    }
    fn max_shrink_iters(&self) -> u32 {
        // a failing case keeps its >= 32 batches, so shrinking has a floor: spend little on it
        200
    }
    fn strategy(&self, _tier: Tier) -> BoxedStrategy<JoinCase> {
        (batched_tables_strategy(), proptest::collection::vec(any::<u16>(), 20..60)).prop_map(|((tables, cuts), tape)| build_batched(tables, cuts, tape)).boxed()
    }
    fn test(&self, case: &JoinCase, obs: &mut Obs) -> Verdict {
        let c = &case.sql_case;
        let (verdict, answered) = match judge_with_swapped(case, obs) {
            Ok(v) => v,
            Err(v) => return v,
        };
        let Some(From::Join { l, r, kind, on: Some(on) }) = top_from(c) else { return verdict };
        let (nl, nr) = (c.tables[0].rows.len(), c.tables[1].rows.len());
        let (bl, br) = (nonempty_batches(c, 0), nonempty_batches(c, 1));
        // the batch layout is the point of this check: say it in the report
        let verdict = match verdict {
            Verdict::Fail(m) => Verdict::Fail(format!("{}\n batch layout (configurations mem, nomorsel, swapped): r = {} rows in {} batches ({} non-empty), s = {} rows in {} batches ({} non-empty); mem1 = one batch per table", m, nl, c.cuts[0].len() + 1, bl, nr, c.cuts[1].len() + 1, br)),
            v => v,
        };
        // the planner's rule (planner.rs, build_right_for_left); a WHERE or the optimizer may shift
        // the estimates, so this is a label about the input class, never part of a verdict
        let probe_left = matches!(kind, JoinKind::Left | JoinKind::Semi | JoinKind::Anti) && nl > 2 * nr;
        let probe_batches = if probe_left { bl } else { br };
        obs.label(if probe_left { "expected_probe:left" } else { "expected_probe:right" });
        obs.label(if nl > 2 * nr { "size:left>2xright" } else if nr > 2 * nl { "size:right>2xleft" } else { "size:similar" });
        if bl >= MANY {
            obs.label("left_batches>=32");
        }
        if br >= MANY {
            obs.label("right_batches>=32");
        }
        if nl == 0 || nr == 0 {
            obs.label("empty_side");
        }
        // facts, all through the reference evaluator
        let (mut equi, mut other) = (vec![], vec![]);
        split_on(on, &mut equi, &mut other);
        let equi_on = equi.iter().cloned().reduce(Expr::and);
        let residual = !other.is_empty();
        let anti = |a: &From, b: &From, cond: &Expr| count(&c.tables, From::Join { l: Box::new(a.clone()), r: Box::new(b.clone()), kind: JoinKind::Anti, on: Some(cond.clone()) }, None).unwrap_or(0);
        let inner = |cond: &Expr| count(&c.tables, From::Join { l: l.clone(), r: r.clone(), kind: JoinKind::Inner, on: Some(cond.clone()) }, None).unwrap_or(0);
        let sides: Vec<(&From, &From)> = match kind {
            JoinKind::Left | JoinKind::Semi | JoinKind::Anti => vec![(&**l, &**r)],
            JoinKind::Right => vec![(&**r, &**l)],
            _ => vec![(&**l, &**r), (&**r, &**l)],
        };
        let unmatched = sides.iter().any(|(a, b)| anti(a, b, on) > 0);
        let (mut rejects, mut all_rejected) = (false, false);
        if let (true, Some(eq)) = (residual, &equi_on) {
            rejects = inner(eq) > inner(on);
            // a preserved-side row that has equi-key candidates, none of which passes the residual
            all_rejected = sides.iter().any(|(a, b)| anti(a, b, on) > anti(a, b, eq));
        }
        let nk = null_key(&c.tables);
        if nk {
            obs.label("null_key");
        }
        if unmatched {
            obs.label("unmatched_preserved_row");
        }
        if rejects {
            obs.label("residual_rejects_matching_pair");
        }
        if all_rejected {
            obs.label("preserved_row_all_candidates_rejected");
        }
        if probe_batches >= MANY {
            obs.label("probe_batches>=32");
            obs.label(format!("probe_batches>=32:{}", kind_feat(*kind)));
            if residual {
                obs.label("probe_batches>=32+residual");
                obs.label(format!("probe_batches>=32+residual:{}", kind_feat(*kind)));
            }
            if all_rejected {
                obs.label("probe_batches>=32+all_candidates_rejected");
            }
        }
        obs.nontrivial(answered >= 2 && probe_batches >= MANY && nk && unmatched && (!residual || equi_on.is_none() || rejects));
        verdict
    }
}

pub fn property() -> Property {
    Property {
        id: "C22",
        level: "exploration",
        assumptions: &[
            "the reference evaluator refsql implements the SQL join definitions by nested loops (cross-checked against SQLite for inner/left/cross; RIGHT/FULL/SEMI/ANTI follow the same code with the roles exchanged)",
            "LEFT SEMI JOIN / LEFT ANTI JOIN are the engine's spelling of semi/anti joins (binder.rs maps JoinOperator::LeftSemi/LeftAnti); their output is the left input's columns",
            "an engine error is an allowed outcome (the spilled hash join refuses non-inner joins and ON filters); a wrong answer is not",
            "configurations that set the process-global verif_hooks::force_big switch run exclusively (RwLock), so every run is a function of (case, configuration)",
        ],
        checks: vec![
            Box::new(JoinCheck { name: "join2", ntables: 2, quick: 1500, thorough: 80_000 }),
            Box::new(JoinCheck { name: "join3", ntables: 3, quick: 1000, thorough: 50_000 }),
            Box::new(BatchedJoinCheck),
        ],
    }
}
