//! C05 — not implemented yet.
use super::Property;

pub fn property() -> Property {
    Property { id: "C05", level: "exploration", assumptions: &[], checks: vec![] }
}
