//! C05 — Statistics-based row-group skipping is sound.
//!
//! Generator: one Parquet table of 2..12 tiny row groups (1..5 rows each) over
//! k0 BIGINT, i0 INTEGER, f0 DOUBLE, s0 VARCHAR, d0 DATE (+ rid BIGINT). Every
//! row group draws its values around its own base so min/max differ between
//! row groups; NULL-only row groups, NaN/-NaN/-0.0/+-inf, |v| > 2^53, values
//! outside i32 in the BIGINT column, non-ASCII and > 64-byte strings, a small
//! statistics-truncate length, statistics disabled per column. Predicates:
//! comparisons (literal on either side; literal types Int64, Int32, Float64,
//! Float32, Date32, Utf8, Timestamp — also across column types), [NOT] BETWEEN,
//! [NOT] IN, NOT, AND, OR, and a few column-vs-column comparisons.
//!
//! Check `prune` (direct API): the file is written, its footer read, and
//!  (a) every row group ABSENT from `prune_row_groups` has no row where the
//!      engine's interpreter (`evaluate_expr`) says TRUE;
//!  (b) every row group for which `row_group_definitely_matches` says true has
//!      the predicate TRUE on all of its rows.
//! Check `e2e` / `e2e_streaming`: `SELECT rid … WHERE p` and an aggregate over
//! the same WHERE through the Parquet registration (eager filtered scan,
//! morsel aggregate; forced streaming scan) equal the memory registration.
//!
//! Known findings (classified per unsound ATOM of the predicate in the failing
//! row group; anything not explained by one of them is a plain failure):
//!  * `definite-match-ignores-nan` — NaN rows are invisible to min/max, so
//!    `row_group_definitely_matches` proves `f <= 2.0` for a group holding NaN;
//!  * `prune-float-total-order` — the pruner compares f64 with IEEE operators,
//!    the interpreter with totalOrder (NaN above +inf, -0.0 < 0.0);
//!  * `definite-f64-rounding` — `definite_comparison` casts i64 min/max and
//!    literal to f64 (wrong beyond 2^53);
//!  * `prune-i32-narrowing` — `check_i32_stats` narrows Int64 min/max `as i32`.
//! (Before the engine's AND/OR became Kleene, `definitely(A OR B)` disagreed
//! with the interpreter when B was NULL; replays/C05/regr-definite-or-null.json
//! keeps that case as a regression.)
use super::Property;
use crate::data::{self, ColType, Table, TempDir, Value};
use crate::engine;
use crate::runner::*;
use arrow::array::*;
use arrow::datatypes::{DataType, SchemaRef};
use arrow::record_batch::RecordBatch;
use parquet::arrow::arrow_reader::ParquetRecordBatchReaderBuilder;
use parquet::file::metadata::ParquetMetaData;
use proptest::prelude::*;
use query_engine::physical::operators::evaluate_expr;
#[allow(unused_imports)]
use query_engine::physical::PhysicalOperator;
use query_engine::planner::{BinaryOp, Column, Expr, LogicalPlan, ScalarValue, UnaryOp};
use query_engine::storage::row_group_pruning::{
    prune_row_groups, row_group_definitely_matches, row_group_might_match,
};
use serde::{Deserialize, Serialize};
use std::path::{Path, PathBuf};
use std::sync::Arc;

pub const KF_NAN_DEF: &str = "definite-match-ignores-nan";
pub const KF_FLOAT: &str = "prune-float-total-order";
pub const KF_ROUND: &str = "definite-f64-rounding";
pub const KF_NARROW: &str = "prune-i32-narrowing";

const COLS: [(&str, ColType); 6] = [
    ("rid", ColType::Int),
    ("k0", ColType::Int),
    ("i0", ColType::Int32),
    ("f0", ColType::Double),
    ("s0", ColType::Str),
    ("d0", ColType::Date),
];
const TWO53: i64 = 1 << 53;

// ---------------------------------------------------------------------------
// predicate AST (library independent)
// ---------------------------------------------------------------------------
#[derive(Clone, Debug, Serialize, Deserialize, PartialEq)]
pub enum Lit {
    I64(i64),
    I32(i32),
    /// f64 bit pattern
    F64(i64),
    /// f32 bit pattern
    F32(u32),
    Date(i32),
    Str(String),
    /// microseconds
    Ts(i64),
}
#[derive(Clone, Copy, Debug, Serialize, Deserialize, PartialEq, Eq)]
pub enum Cmp {
    Eq,
    Ne,
    Lt,
    Le,
    Gt,
    Ge,
}
#[derive(Clone, Debug, Serialize, Deserialize, PartialEq)]
pub enum P {
    /// col <op> lit, or lit <op> col when `lit_left`
    Cmp { col: u8, op: Cmp, lit: Lit, lit_left: bool },
    Between { col: u8, lo: Lit, hi: Lit, neg: bool },
    In { col: u8, list: Vec<Lit>, neg: bool },
    ColCol { a: u8, op: Cmp, b: u8 },
    Not(Box<P>),
    And(Box<P>, Box<P>),
    Or(Box<P>, Box<P>),
}

fn cmp_op(c: Cmp) -> BinaryOp {
    match c {
        Cmp::Eq => BinaryOp::Eq,
        Cmp::Ne => BinaryOp::NotEq,
        Cmp::Lt => BinaryOp::Lt,
        Cmp::Le => BinaryOp::LtEq,
        Cmp::Gt => BinaryOp::Gt,
        Cmp::Ge => BinaryOp::GtEq,
    }
}
fn cmp_sql(c: Cmp) -> &'static str {
    match c {
        Cmp::Eq => "=",
        Cmp::Ne => "<>",
        Cmp::Lt => "<",
        Cmp::Le => "<=",
        Cmp::Gt => ">",
        Cmp::Ge => ">=",
    }
}
fn lit_scalar(l: &Lit) -> ScalarValue {
    match l {
        Lit::I64(v) => ScalarValue::Int64(*v),
        Lit::I32(v) => ScalarValue::Int32(*v),
        Lit::F64(b) => ScalarValue::Float64(f64::from_bits(*b as u64).into()),
        Lit::F32(b) => ScalarValue::Float32(f32::from_bits(*b).into()),
        Lit::Date(v) => ScalarValue::Date32(*v),
        Lit::Str(s) => ScalarValue::Utf8(s.clone()),
        Lit::Ts(v) => ScalarValue::Timestamp(*v),
    }
}
fn colx(c: u8) -> Expr {
    Expr::Column(Column::new(COLS[c as usize].0))
}
fn litx(l: &Lit) -> Expr {
    Expr::Literal(lit_scalar(l))
}
fn bin(l: Expr, op: BinaryOp, r: Expr) -> Expr {
    Expr::BinaryExpr { left: Box::new(l), op, right: Box::new(r) }
}
pub fn to_expr(p: &P) -> Expr {
    match p {
        P::Cmp { col, op, lit, lit_left } => {
            if *lit_left {
                bin(litx(lit), cmp_op(*op), colx(*col))
            } else {
                bin(colx(*col), cmp_op(*op), litx(lit))
            }
        }
        P::Between { col, lo, hi, neg } => Expr::Between {
            expr: Box::new(colx(*col)),
            low: Box::new(litx(lo)),
            high: Box::new(litx(hi)),
            negated: *neg,
        },
        P::In { col, list, neg } => Expr::InList {
            expr: Box::new(colx(*col)),
            list: list.iter().map(litx).collect(),
            negated: *neg,
        },
        P::ColCol { a, op, b } => bin(colx(*a), cmp_op(*op), colx(*b)),
        P::Not(x) => Expr::UnaryExpr { op: UnaryOp::Not, expr: Box::new(to_expr(x)) },
        P::And(a, b) => bin(to_expr(a), BinaryOp::And, to_expr(b)),
        P::Or(a, b) => bin(to_expr(a), BinaryOp::Or, to_expr(b)),
    }
}
fn lit_sql(l: &Lit) -> Option<String> {
    match l {
        Lit::I64(v) => {
            if *v == i64::MIN {
                None
            } else {
                Some(Value::Int(*v).sql())
            }
        }
        Lit::I32(v) => Some(Value::Int(*v as i64).sql()),
        Lit::F64(b) => {
            let v = f64::from_bits(*b as u64);
            if !v.is_finite() || (v == 0.0 && v.is_sign_negative()) {
                None
            } else {
                Some(Value::Double(v).sql())
            }
        }
        Lit::F32(_) | Lit::Ts(_) => None,
        Lit::Date(d) => {
            if *d < -700000 || *d > 2900000 {
                None
            } else {
                Some(Value::Date(*d).sql())
            }
        }
        Lit::Str(s) => Some(Value::Str(s.clone()).sql()),
    }
}
pub fn to_sql(p: &P) -> Option<String> {
    Some(match p {
        P::Cmp { col, op, lit, lit_left } => {
            let c = COLS[*col as usize].0;
            if *lit_left {
                format!("({} {} {})", lit_sql(lit)?, cmp_sql(*op), c)
            } else {
                format!("({} {} {})", c, cmp_sql(*op), lit_sql(lit)?)
            }
        }
        P::Between { col, lo, hi, neg } => format!(
            "({} {}BETWEEN {} AND {})",
            COLS[*col as usize].0,
            if *neg { "NOT " } else { "" },
            lit_sql(lo)?,
            lit_sql(hi)?
        ),
        P::In { col, list, neg } => {
            if list.is_empty() {
                return None;
            }
            let items: Option<Vec<String>> = list.iter().map(lit_sql).collect();
            format!("({} {}IN ({}))", COLS[*col as usize].0, if *neg { "NOT " } else { "" }, items?.join(", "))
        }
        P::ColCol { a, op, b } => format!("({} {} {})", COLS[*a as usize].0, cmp_sql(*op), COLS[*b as usize].0),
        P::Not(x) => format!("(NOT {})", to_sql(x)?),
        P::And(a, b) => format!("({} AND {})", to_sql(a)?, to_sql(b)?),
        P::Or(a, b) => format!("({} OR {})", to_sql(a)?, to_sql(b)?),
    })
}
fn has_or(p: &P) -> bool {
    match p {
        P::Or(..) => true,
        P::Not(x) => has_or(x),
        P::And(a, b) => has_or(a) || has_or(b),
        _ => false,
    }
}

// ---------------------------------------------------------------------------
// case
// ---------------------------------------------------------------------------
#[derive(Clone, Debug, Serialize, Deserialize)]
pub struct Case {
    /// rows of (k0, i0, f0, s0, d0); rid is added as the row index
    pub rows: Vec<Vec<Value>>,
    pub rg_size: usize,
    /// row index where a second file starts (0 / >= len: single file)
    pub file_cut: usize,
    /// statistics disabled for column (indexed like COLS, rid first)
    pub stats_off: Vec<bool>,
    /// statistics truncate length (None = writer default)
    pub truncate: Option<usize>,
    pub dictionary: bool,
    pub pred: P,
}

fn table_of(c: &Case) -> Table {
    Table {
        name: "t".into(),
        cols: COLS.iter().map(|(n, t)| data::Column { name: n.to_string(), ty: *t }).collect(),
        rows: c
            .rows
            .iter()
            .enumerate()
            .map(|(i, r)| {
                let mut v = vec![Value::Int(i as i64)];
                v.extend(r.iter().cloned());
                v
            })
            .collect(),
    }
}

/// Own writer: per-column statistics switch and truncate length.
fn write_files(c: &Case, t: &Table, dir: &Path) -> Vec<PathBuf> {
    use parquet::arrow::ArrowWriter;
    use parquet::file::properties::{EnabledStatistics, WriterProperties};
    use parquet::schema::types::ColumnPath;
    std::fs::create_dir_all(dir).unwrap();
    let n = t.rows.len();
    let cut = if c.file_cut == 0 || c.file_cut >= n { n } else { c.file_cut };
    let mut ranges = vec![(0usize, cut)];
    if cut < n {
        ranges.push((cut, n));
    }
    let mut out = vec![];
    for (fi, (lo, hi)) in ranges.into_iter().enumerate() {
        let mut b = WriterProperties::builder()
            .set_max_row_group_size(c.rg_size.max(1))
            .set_statistics_enabled(EnabledStatistics::Chunk)
            .set_dictionary_enabled(c.dictionary);
        if let Some(tl) = c.truncate {
            b = b.set_statistics_truncate_length(Some(tl.max(1)));
        }
        for (i, (name, _)) in COLS.iter().enumerate() {
            if c.stats_off.get(i).copied().unwrap_or(false) {
                b = b.set_column_statistics_enabled(ColumnPath::from(*name), EnabledStatistics::None);
            }
        }
        let p = dir.join(format!("part-{:03}.parquet", fi));
        let f = std::fs::File::create(&p).unwrap();
        let mut w = ArrowWriter::try_new(f, t.schema(), Some(b.build())).unwrap();
        let batch = t.batch(lo, hi);
        if batch.num_rows() > 0 {
            w.write(&batch).unwrap();
        }
        w.close().unwrap();
        out.push(p);
    }
    out
}

fn read_footer_and_groups(p: &Path) -> Result<(Arc<ParquetMetaData>, SchemaRef, Vec<RecordBatch>), String> {
    let f = std::fs::File::open(p).map_err(|e| e.to_string())?;
    let b = ParquetRecordBatchReaderBuilder::try_new(f).map_err(|e| e.to_string())?;
    let meta = b.metadata().clone();
    let schema = b.schema().clone();
    let mut groups = vec![];
    for i in 0..meta.num_row_groups() {
        let f = std::fs::File::open(p).map_err(|e| e.to_string())?;
        let r = ParquetRecordBatchReaderBuilder::try_new(f)
            .map_err(|e| e.to_string())?
            .with_row_groups(vec![i])
            .build()
            .map_err(|e| e.to_string())?;
        let bs: Vec<RecordBatch> = r.collect::<Result<Vec<_>, _>>().map_err(|e| e.to_string())?;
        groups.push(arrow::compute::concat_batches(&schema, &bs).map_err(|e| e.to_string())?);
    }
    Ok((meta, schema, groups))
}

// ---------------------------------------------------------------------------
// oracles over the engine's Expr
// ---------------------------------------------------------------------------
fn bool_vec(a: &ArrayRef) -> Result<Vec<Option<bool>>, String> {
    let b = a.as_any().downcast_ref::<BooleanArray>().ok_or("predicate did not evaluate to boolean")?;
    Ok((0..b.len()).map(|i| if b.is_valid(i) { Some(b.value(i)) } else { None }).collect())
}
/// the interpreter's verdict per row
fn interp(e: &Expr, b: &RecordBatch) -> Result<Vec<Option<bool>>, String> {
    let r = std::panic::catch_unwind(std::panic::AssertUnwindSafe(|| evaluate_expr(b, e)))
        .map_err(|p| format!("PANIC: {}", engine::panic_text(p)))?
        .map_err(|e| e.to_string())?;
    bool_vec(&r)
}
/// atoms by the interpreter, AND/OR/NOT by SQL three-valued logic
fn kleene(e: &Expr, b: &RecordBatch) -> Result<Vec<Option<bool>>, String> {
    match e {
        Expr::BinaryExpr { left, op: BinaryOp::And, right } => {
            let (l, r) = (kleene(left, b)?, kleene(right, b)?);
            Ok(l.iter()
                .zip(r.iter())
                .map(|(x, y)| match (x, y) {
                    (Some(false), _) | (_, Some(false)) => Some(false),
                    (Some(true), Some(true)) => Some(true),
                    _ => None,
                })
                .collect())
        }
        Expr::BinaryExpr { left, op: BinaryOp::Or, right } => {
            let (l, r) = (kleene(left, b)?, kleene(right, b)?);
            Ok(l.iter()
                .zip(r.iter())
                .map(|(x, y)| match (x, y) {
                    (Some(true), _) | (_, Some(true)) => Some(true),
                    (Some(false), Some(false)) => Some(false),
                    _ => None,
                })
                .collect())
        }
        Expr::UnaryExpr { op: UnaryOp::Not, expr } => Ok(kleene(expr, b)?.into_iter().map(|v| v.map(|x| !x)).collect()),
        Expr::Alias { expr, .. } => kleene(expr, b),
        _ => interp(e, b),
    }
}

/// comparison atoms the pruner reasons about (BETWEEN / IN lowered the way
/// row_group_pruning lowers them)
fn atoms(e: &Expr, out: &mut Vec<Expr>) {
    match e {
        Expr::BinaryExpr { left, op: BinaryOp::And | BinaryOp::Or, right } => {
            atoms(left, out);
            atoms(right, out);
        }
        Expr::BinaryExpr { .. } => out.push(e.clone()),
        Expr::UnaryExpr { op: UnaryOp::Not, expr } => atoms(expr, out),
        Expr::Alias { expr, .. } => atoms(expr, out),
        Expr::Between { expr, low, high, .. } => {
            out.push(bin((**expr).clone(), BinaryOp::GtEq, (**low).clone()));
            out.push(bin((**expr).clone(), BinaryOp::LtEq, (**high).clone()));
        }
        Expr::InList { expr, list, .. } => {
            for v in list {
                out.push(bin((**expr).clone(), BinaryOp::Eq, v.clone()));
            }
        }
        _ => {}
    }
}
fn col_lit(e: &Expr) -> Option<(&str, &ScalarValue)> {
    if let Expr::BinaryExpr { left, right, .. } = e {
        match (&**left, &**right) {
            (Expr::Column(c), Expr::Literal(l)) | (Expr::Literal(l), Expr::Column(c)) => return Some((c.name.as_str(), l)),
            _ => {}
        }
    }
    None
}
fn lit_f64(l: &ScalarValue) -> Option<f64> {
    Some(match l {
        ScalarValue::Int64(v) | ScalarValue::Timestamp(v) => *v as f64,
        ScalarValue::Int32(v) | ScalarValue::Date32(v) => *v as f64,
        ScalarValue::Float64(v) => v.into_inner(),
        ScalarValue::Float32(v) => v.into_inner() as f64,
        _ => return None,
    })
}
fn lit_i128(l: &ScalarValue) -> Option<i128> {
    Some(match l {
        ScalarValue::Int64(v) | ScalarValue::Timestamp(v) => *v as i128,
        ScalarValue::Int32(v) | ScalarValue::Date32(v) => *v as i128,
        _ => return None,
    })
}

/// Which open finding (if any) explains that `atom` is judged unsoundly in row
/// group `b`. `unsound_def`: definitely_matches said true wrongly (else the
/// might-match side was wrong).
fn explain_atom(atom: &Expr, b: &RecordBatch, unsound_def: bool) -> Option<&'static str> {
    let (cname, lit) = col_lit(atom)?;
    let idx = b.schema().index_of(cname).ok()?;
    let col = b.column(idx);
    match col.data_type() {
        DataType::Float64 => {
            let a = col.as_any().downcast_ref::<Float64Array>()?;
            let vals: Vec<f64> = (0..a.len()).filter(|i| a.is_valid(*i)).map(|i| a.value(i)).collect();
            let has_nan = vals.iter().any(|v| v.is_nan());
            let has_zero = vals.iter().any(|v| *v == 0.0);
            let lf = lit_f64(lit)?;
            if unsound_def && has_nan {
                return Some(KF_NAN_DEF);
            }
            if has_nan || lf.is_nan() || (lf == 0.0 && has_zero) {
                return Some(KF_FLOAT);
            }
            None
        }
        DataType::Int64 => {
            let a = col.as_any().downcast_ref::<Int64Array>()?;
            let vals: Vec<i64> = (0..a.len()).filter(|i| a.is_valid(*i)).map(|i| a.value(i)).collect();
            let outside_i32 = vals.iter().any(|v| *v > i32::MAX as i64 || *v < i32::MIN as i64);
            if !unsound_def && matches!(lit, ScalarValue::Int32(_) | ScalarValue::Date32(_)) && outside_i32 {
                return Some(KF_NARROW);
            }
            let big = |x: i128| x.abs() > TWO53 as i128;
            if unsound_def && (lit_i128(lit).map(big).unwrap_or(false) || vals.iter().any(|v| big(*v as i128))) {
                return Some(KF_ROUND);
            }
            None
        }
        _ => None,
    }
}

/// row rendering that cannot fail on extreme dates
fn show_rows(rows: &[Vec<Value>], max: usize) -> String {
    let mut out = String::new();
    for r in rows.iter().take(max) {
        let cells: Vec<String> = r
            .iter()
            .map(|v| match v {
                Value::Date(d) => format!("DATE({})", d),
                o => data::fmt_value(o),
            })
            .collect();
        out.push_str(&format!("({}) ", cells.join(", ")));
    }
    if rows.len() > max {
        out.push_str(&format!("… {} rows", rows.len()));
    }
    if rows.is_empty() {
        out.push_str("(no rows)");
    }
    out
}

pub struct Analysis {
    pub n_groups: usize,
    pub pruned: usize,
    pub definite: usize,
    pub verdict: Verdict,
    pub labels: Vec<String>,
}

/// (a)/(b) for one file: `pred` is the engine expression handed to the pruner.
fn analyse(pred: &Expr, meta: &ParquetMetaData, schema: &SchemaRef, groups: &[RecordBatch], p_has_or: bool) -> Analysis {
    let n = groups.len();
    let mut an = Analysis { n_groups: n, pruned: 0, definite: 0, verdict: Verdict::Pass, labels: vec![] };
    let kept = match std::panic::catch_unwind(std::panic::AssertUnwindSafe(|| prune_row_groups(meta, schema, Some(pred)))) {
        Ok(k) => k,
        Err(p) => {
            an.verdict = Verdict::Fail(format!("prune_row_groups panicked: {} ; predicate {}", engine::panic_text(p), pred));
            return an;
        }
    };
    if kept.windows(2).any(|w| w[0] >= w[1]) || kept.iter().any(|i| *i >= n) {
        an.verdict = Verdict::Fail(format!("prune_row_groups returned {:?} for {} row groups", kept, n));
        return an;
    }
    an.pruned = n - kept.len();
    let mut at = vec![];
    atoms(pred, &mut at);
    let mut known: Option<(&'static str, String)> = None;
    for (g, b) in groups.iter().enumerate() {
        let truth = match interp(pred, b) {
            Ok(t) => t,
            Err(e) => {
                an.labels.push(format!("interpreter-error:{}", e.chars().take(50).collect::<String>()));
                an.verdict = Verdict::Pass;
                an.pruned = 0;
                an.definite = 0;
                return an;
            }
        };
        let kl = kleene(pred, b).unwrap_or_else(|_| truth.clone());
        let is_pruned = !kept.contains(&g);
        let definite = std::panic::catch_unwind(std::panic::AssertUnwindSafe(|| {
            row_group_definitely_matches(pred, meta.row_group(g), schema)
        }))
        .unwrap_or(false);
        if definite {
            an.definite += 1;
        }
        let lost = is_pruned && truth.iter().any(|v| *v == Some(true));
        let def_wrong_sql = definite && kl.iter().any(|v| *v != Some(true));
        let def_wrong_interp = definite && truth.iter().any(|v| *v != Some(true));
        if !(lost || def_wrong_sql || def_wrong_interp) {
            continue;
        }
        let what = if lost {
            format!(
                "row group {} is pruned but the interpreter keeps row {} of it",
                g,
                truth.iter().position(|v| *v == Some(true)).unwrap()
            )
        } else {
            format!(
                "row_group_definitely_matches is true for row group {} but the predicate is {:?} at row {} of it",
                g,
                truth.iter().find(|v| **v != Some(true)).unwrap(),
                truth.iter().position(|v| *v != Some(true)).unwrap()
            )
        };
        let msg = format!(
            "{} ; predicate {} ; row group rows: {}",
            what,
            pred,
            show_rows(&data::batches_to_rows(&[b.clone()]), 8)
        );
        // attribute to unsound atoms
        let mut unsound: Vec<(Expr, bool)> = vec![];
        for a in &at {
            let t = match interp(a, b) {
                Ok(t) => t,
                Err(_) => continue,
            };
            let might = row_group_might_match(a, meta.row_group(g), schema);
            let def = row_group_definitely_matches(a, meta.row_group(g), schema);
            if !might && t.iter().any(|v| *v == Some(true)) {
                unsound.push((a.clone(), false));
            }
            if def && t.iter().any(|v| *v != Some(true)) {
                unsound.push((a.clone(), true));
            }
        }
        if unsound.is_empty() {
            let _ = (def_wrong_sql, def_wrong_interp, p_has_or);
            an.verdict = Verdict::Fail(format!("{} ; every comparison atom is judged soundly, so the combination is wrong", msg));
            return an;
        }
        let mut ids = vec![];
        for (a, d) in &unsound {
            match explain_atom(a, b, *d) {
                Some(id) => ids.push(id),
                None => {
                    an.verdict = Verdict::Fail(format!(
                        "{} ; unsound atom {} ({})",
                        msg,
                        a,
                        if *d { "definitely_matches wrongly true" } else { "might_match wrongly false" }
                    ));
                    return an;
                }
            }
        }
        // most user-visible first
        for id in [KF_NAN_DEF, KF_NARROW, KF_ROUND, KF_FLOAT] {
            if ids.contains(&id) {
                known.get_or_insert((id, msg.clone()));
                break;
            }
        }
    }
    if let Some((id, msg)) = known {
        an.labels.push(format!("hit:{}", id));
        an.verdict = Verdict::Known { id: id.into(), msg };
    }
    an
}

// ---------------------------------------------------------------------------
// generators
// ---------------------------------------------------------------------------
#[derive(Clone, Copy, Debug)]
struct Prof {
    /// NaN / -0.0 / inf in doubles
    fspecial: bool,
    /// BIGINT beyond 2^53 / outside i32
    big: bool,
    /// i64::MIN / i64::MAX neighbourhood allowed (the Parquet registration's
    /// ndv estimate overflows on `max - min` in debug builds — C18's subject —
    /// so the end-to-end checks stay inside +-2^53)
    extreme: bool,
}
fn fb(v: f64) -> i64 {
    v.to_bits() as i64
}
const STR_POOL: [&str; 14] = [
    "", "a", "ab", "abc", "b", "B", "z", "é", "éa", "日本", "~",
    "xxxxxxxxxxxxxxxxxxxxxxxxxxxxxxxxxxxxxxxxxxxxxxxxxxxxxxxxxxxxxxxxa",
    "xxxxxxxxxxxxxxxxxxxxxxxxxxxxxxxxxxxxxxxxxxxxxxxxxxxxxxxxxxxxxxxxb",
    "éééééééééééééééééééééééééééééééééééééééé",
];
fn k_base(p: Prof) -> BoxedStrategy<i64> {
    if p.big {
        prop_oneof![
            3 => prop_oneof![Just(-5i64), Just(0), Just(5), Just(10), Just(100)],
            2 => if p.extreme {
                prop_oneof![Just(TWO53 - 2), Just(TWO53), Just(-TWO53 - 3), Just(i64::MAX - 4), Just(i64::MIN)].boxed()
            } else {
                prop_oneof![Just(TWO53 - 2), Just(TWO53), Just(-TWO53 - 3)].boxed()
            },
            2 => prop_oneof![Just(i32::MAX as i64 - 2), Just(1i64 << 32), Just((1i64 << 32) + 3), Just(i32::MIN as i64 - 3), Just(1i64 << 31)],
        ]
        .boxed()
    } else {
        prop_oneof![Just(-5i64), Just(0), Just(5), Just(10), Just(100), Just(1_000_000)].boxed()
    }
}
fn i_base() -> BoxedStrategy<i64> {
    prop_oneof![
        6 => prop_oneof![Just(-5i64), Just(0), Just(5), Just(10), Just(100)],
        1 => Just(i32::MAX as i64 - 4),
        1 => Just(i32::MIN as i64),
    ]
    .boxed()
}
fn d_base() -> BoxedStrategy<i64> {
    prop_oneof![
        6 => prop_oneof![Just(10957i64), Just(10960), Just(10965), Just(0), Just(-3)],
        1 => Just(i32::MAX as i64 - 4),
        1 => Just(i32::MIN as i64),
    ]
    .boxed()
}
fn f_base() -> BoxedStrategy<f64> {
    prop_oneof![Just(-1.0f64), Just(0.0), Just(0.5), Just(1.0), Just(10.0), Just(9007199254740992.0), Just(1e300), Just(-1e300)].boxed()
}
fn f_special() -> BoxedStrategy<f64> {
    prop_oneof![
        3 => Just(f64::NAN),
        1 => Just(-f64::NAN),
        3 => Just(-0.0f64),
        2 => Just(0.0f64),
        1 => Just(f64::INFINITY),
        1 => Just(f64::NEG_INFINITY),
    ]
    .boxed()
}
fn sat_add(b: i64, o: i64, lo: i64, hi: i64) -> i64 {
    b.saturating_add(o).clamp(lo, hi)
}

/// the five data cells (k0,i0,f0,s0,d0) of one row group of `n` rows
fn row_group(p: Prof, n: usize) -> BoxedStrategy<Vec<Vec<Value>>> {
    let nullp = prop_oneof![3 => Just(0u32), 3 => Just(25u32), 1 => Just(100u32)];
    let cell_sel = proptest::collection::vec((0u32..100, 0i64..4, 0u32..100), n);
    (
        (k_base(p), nullp.clone(), cell_sel.clone()),
        (i_base(), nullp.clone(), cell_sel.clone()),
        (f_base(), nullp.clone(), cell_sel.clone(), proptest::collection::vec(f_special(), n)),
        (0usize..STR_POOL.len(), nullp.clone(), cell_sel.clone()),
        (d_base(), nullp, cell_sel),
    )
        .prop_map(move |(k, i, f, s, d)| {
            (0..n)
                .map(|r| {
                    let kv = if k.2[r].0 < k.1 { Value::Null } else { Value::Int(sat_add(k.0, k.2[r].1, i64::MIN, i64::MAX)) };
                    let iv = if i.2[r].0 < i.1 {
                        Value::Null
                    } else {
                        Value::Int(sat_add(i.0, i.2[r].1, i32::MIN as i64, i32::MAX as i64))
                    };
                    let fv = if f.2[r].0 < f.1 {
                        Value::Null
                    } else if p.fspecial && f.2[r].2 < 35 {
                        Value::Double(f.3[r])
                    } else {
                        Value::Double(f.0 + f.2[r].1 as f64 * 0.25)
                    };
                    let sv = if s.2[r].0 < s.1 {
                        Value::Null
                    } else {
                        Value::Str(STR_POOL[(s.0 + s.2[r].1 as usize) % STR_POOL.len()].to_string())
                    };
                    let dv = if d.2[r].0 < d.1 {
                        Value::Null
                    } else {
                        Value::Date(sat_add(d.0, d.2[r].1, i32::MIN as i64, i32::MAX as i64) as i32)
                    };
                    vec![kv, iv, fv, sv, dv]
                })
                .collect::<Vec<_>>()
        })
        .boxed()
}

/// literal near the values a column holds; `sql_only` restricts to literal
/// types SQL text can spell
fn int_lit_value(p: Prof, col: u8) -> BoxedStrategy<i64> {
    let base = match col {
        1 => k_base(p),
        2 => i_base(),
        _ => d_base(),
    };
    (base, -1i64..5).prop_map(|(b, o)| b.saturating_add(o)).boxed()
}
fn f_lit_value(p: Prof) -> BoxedStrategy<f64> {
    if p.fspecial {
        prop_oneof![3 => (f_base(), -1i64..5).prop_map(|(b, o)| b + o as f64 * 0.25), 2 => f_special()].boxed()
    } else {
        (f_base(), -1i64..5).prop_map(|(b, o)| b + o as f64 * 0.25).boxed()
    }
}
fn lit_for(p: Prof, col: u8, sql_only: bool) -> BoxedStrategy<Lit> {
    let clamp32 = |v: i64| v.clamp(i32::MIN as i64, i32::MAX as i64) as i32;
    match col {
        // k0 BIGINT
        1 => {
            let v = int_lit_value(p, 1);
            if sql_only {
                prop_oneof![6 => v.clone().prop_map(Lit::I64), 1 => v.prop_map(|x| Lit::F64(fb(x as f64)))].boxed()
            } else {
                prop_oneof![
                    6 => v.clone().prop_map(Lit::I64),
                    2 => int_lit_value(p, 2).prop_map(move |x| Lit::I32(clamp32(x))),
                    1 => int_lit_value(p, 5).prop_map(move |x| Lit::Date(clamp32(x))),
                    1 => v.clone().prop_map(Lit::Ts),
                    1 => v.prop_map(|x| Lit::F64(fb(x as f64))),
                ]
                .boxed()
            }
        }
        // i0 INTEGER
        2 => {
            let v = int_lit_value(p, 2);
            if sql_only {
                prop_oneof![6 => v.clone().prop_map(Lit::I64), 1 => v.prop_map(|x| Lit::F64(fb(x as f64 + 0.5)))].boxed()
            } else {
                prop_oneof![
                    4 => v.clone().prop_map(move |x| Lit::I32(clamp32(x))),
                    4 => v.clone().prop_map(Lit::I64),
                    1 => int_lit_value(p, 1).prop_map(Lit::I64),
                    1 => v.clone().prop_map(Lit::Ts),
                    1 => v.prop_map(|x| Lit::F64(fb(x as f64 + 0.5))),
                ]
                .boxed()
            }
        }
        // f0 DOUBLE
        3 => {
            let v = f_lit_value(if sql_only { Prof { fspecial: false, ..p } } else { p });
            if sql_only {
                prop_oneof![6 => v.prop_map(|x| Lit::F64(fb(x))), 1 => (-2i64..12).prop_map(Lit::I64)].boxed()
            } else {
                prop_oneof![
                    6 => v.clone().prop_map(|x| Lit::F64(fb(x))),
                    1 => v.prop_map(|x| Lit::F32((x as f32).to_bits())),
                    1 => (-2i64..12).prop_map(Lit::I64),
                    1 => (-2i32..12).prop_map(Lit::I32),
                ]
                .boxed()
            }
        }
        // s0 VARCHAR
        4 => prop_oneof![
            8 => (0usize..STR_POOL.len()).prop_map(|i| Lit::Str(STR_POOL[i].to_string())),
            1 => Just(Lit::Str("xxxxxxxxxxxxxxxxxxxxxxxxxxxxxxxxxxxxxxxxxxxxxxxxxxxxxxxxxxxxxxxx".into())),
            1 => Just(Lit::Str("éé".into())),
            1 => Just(Lit::Str("x".into())),
        ]
        .boxed(),
        // d0 DATE
        _ => {
            let v = int_lit_value(p, 5);
            if sql_only {
                v.prop_map(move |x| Lit::Date(clamp32(x).clamp(-700000, 2900000))).boxed()
            } else {
                prop_oneof![
                    6 => v.clone().prop_map(move |x| Lit::Date(clamp32(x))),
                    1 => v.clone().prop_map(move |x| Lit::I32(clamp32(x))),
                    1 => v.prop_map(Lit::I64),
                ]
                .boxed()
            }
        }
    }
}
fn cmp_any() -> BoxedStrategy<Cmp> {
    prop_oneof![Just(Cmp::Eq), Just(Cmp::Ne), Just(Cmp::Lt), Just(Cmp::Le), Just(Cmp::Gt), Just(Cmp::Ge)].boxed()
}
fn data_col() -> BoxedStrategy<u8> {
    prop_oneof![3 => Just(1u8), 2 => Just(2u8), 3 => Just(3u8), 2 => Just(4u8), 2 => Just(5u8)].boxed()
}
fn atom(p: Prof, sql_only: bool) -> BoxedStrategy<P> {
    let cmp = data_col()
        .prop_flat_map(move |c| (Just(c), cmp_any(), lit_for(p, c, sql_only), prop_oneof![4 => Just(false), 1 => Just(true)]))
        .prop_map(|(col, op, lit, lit_left)| P::Cmp { col, op, lit, lit_left });
    let between = data_col()
        .prop_flat_map(move |c| (Just(c), lit_for(p, c, sql_only), lit_for(p, c, sql_only), prop_oneof![4 => Just(false), 1 => Just(true)]))
        .prop_map(|(col, lo, hi, neg)| P::Between { col, lo, hi, neg });
    let inl = data_col()
        .prop_flat_map(move |c| (Just(c), proptest::collection::vec(lit_for(p, c, sql_only), 1..4), prop_oneof![4 => Just(false), 1 => Just(true)]))
        .prop_map(|(col, list, neg)| P::In { col, list, neg });
    let colcol = (prop_oneof![Just((1u8, 2u8)), Just((2u8, 1u8)), Just((1u8, 0u8)), Just((3u8, 1u8))], cmp_any())
        .prop_map(|((a, b), op)| P::ColCol { a, op, b });
    prop_oneof![10 => cmp, 3 => between, 2 => inl, 1 => colcol].boxed()
}
fn pred(p: Prof, depth: u32, sql_only: bool) -> BoxedStrategy<P> {
    if depth == 0 {
        return atom(p, sql_only);
    }
    let sub = pred(p, depth - 1, sql_only);
    prop_oneof![
        5 => atom(p, sql_only),
        3 => (sub.clone(), sub.clone()).prop_map(|(a, b)| P::And(Box::new(a), Box::new(b))),
        2 => (sub.clone(), sub.clone()).prop_map(|(a, b)| P::Or(Box::new(a), Box::new(b))),
        2 => sub.prop_map(|a| P::Not(Box::new(a))),
    ]
    .boxed()
}

fn case_strategy(sql_only: bool, fspecial_pct: u32, big_pct: u32, extreme: bool) -> BoxedStrategy<Case> {
    (0u32..100, 0u32..100, 1usize..6, 2usize..13)
        .prop_flat_map(move |(a, b, rg_size, n_groups)| {
            let p = Prof { fspecial: a < fspecial_pct, big: b < big_pct, extreme };
            (
                proptest::collection::vec(row_group(p, rg_size), n_groups),
                // last group may be short
                0usize..rg_size,
                Just(rg_size),
                0usize..(rg_size * n_groups + 1),
                proptest::collection::vec(prop_oneof![12 => Just(false), 1 => Just(true)], COLS.len()),
                prop_oneof![4 => Just(None), 1 => Just(Some(1usize)), 1 => Just(Some(2usize)), 1 => Just(Some(5usize)), 1 => Just(Some(64usize))],
                any::<bool>(),
                pred(p, 2, sql_only),
                prop_oneof![2 => Just(false), 1 => Just(true)],
            )
        })
        .prop_map(|(groups, drop_tail, rg_size, cut, stats_off, truncate, dictionary, pred, two_files)| {
            let mut rows: Vec<Vec<Value>> = groups.into_iter().flatten().collect();
            let keep = rows.len() - drop_tail.min(rows.len().saturating_sub(1));
            rows.truncate(keep);
            // a second file starts on a row-group boundary
            let file_cut = if two_files { (cut / rg_size) * rg_size } else { 0 };
            Case { rows, rg_size, file_cut, stats_off, truncate, dictionary, pred }
        })
        .boxed()
}

// ---------------------------------------------------------------------------
// check 1: direct API
// ---------------------------------------------------------------------------
pub struct Prune;
impl Check for Prune {
    type Case = Case;
    fn name(&self) -> &'static str {
        "prune"
    }
    fn rule(&self) -> &'static str {
        "the interpreter evaluates the predicate without error and the predicate prunes, or is proven whole-passing for, at least one but not all row groups of the file"
    }
    fn cases(&self, tier: Tier) -> u32 {
        tier.pick(6000, 200_000)
    }
    fn strategy(&self, _tier: Tier) -> BoxedStrategy<Case> {
        case_strategy(false, 20, 25, true)
    }
    fn test(&self, c: &Case, obs: &mut Obs) -> Verdict {
        if c.rows.is_empty() || c.rows.iter().any(|r| r.len() != 5) {
            return Verdict::Discard("malformed case".into());
        }
        let t = table_of(c);
        let tmp = TempDir::new("c05");
        // direct check looks at one file holding all rows
        let one = Case { file_cut: 0, ..c.clone() };
        let files = write_files(&one, &t, tmp.path());
        let (meta, schema, groups) = match read_footer_and_groups(&files[0]) {
            Ok(x) => x,
            Err(e) => return Verdict::Discard(format!("cannot read back the written file: {}", e.chars().take(60).collect::<String>())),
        };
        let expr = to_expr(&c.pred);
        let an = analyse(&expr, &meta, &schema, &groups, has_or(&c.pred));
        for l in &an.labels {
            obs.label(l.clone());
        }
        let n = an.n_groups;
        if an.pruned > 0 && an.pruned < n {
            obs.label("prunes-some");
        }
        if an.pruned == n && n > 0 {
            obs.label("prunes-all");
        }
        if an.definite > 0 && an.definite < n {
            obs.label("whole-pass-some");
        }
        if c.stats_off.iter().skip(1).any(|b| *b) {
            obs.label("a-column-without-statistics");
        }
        obs.nontrivial((an.pruned > 0 && an.pruned < n) || (an.definite > 0 && an.definite < n));
        obs.sample(serde_json::json!({"predicate": format!("{}", expr), "row_groups": n, "pruned": an.pruned, "whole_pass": an.definite}));
        an.verdict
    }
}

// ---------------------------------------------------------------------------
// check 2/3: end to end, Parquet registration vs memory registration
// ---------------------------------------------------------------------------
fn scan_filters(plan: &LogicalPlan, out: &mut Vec<Expr>) {
    if let LogicalPlan::Scan(s) = plan {
        if let Some(f) = &s.filter {
            out.push(f.clone());
        }
    }
    for ch in plan.children() {
        scan_filters(ch, out);
    }
}

fn e2e_test(c: &Case, obs: &mut Obs, streaming: bool) -> Verdict {
    if c.rows.is_empty() || c.rows.iter().any(|r| r.len() != 5) {
        return Verdict::Discard("malformed case".into());
    }
    let where_sql = match to_sql(&c.pred) {
        Some(s) => s,
        None => return Verdict::Discard("predicate has no SQL spelling".into()),
    };
    query_engine::verif_hooks::set_force_big(streaming);
    let t = table_of(c);
    let tmp = TempDir::new("c05e");
    let dir = tmp.path().join("t");
    let files = write_files(c, &t, &dir);
    let mut pq = query_engine::ExecutionContext::new();
    if let Err(e) = pq.register_parquet("t", &dir) {
        return Verdict::Discard(format!("register_parquet: {}", e.to_string().chars().take(60).collect::<String>()));
    }
    let mem = engine::mem_ctx(&[t.clone()]);
    let queries = [
        ("rows", format!("SELECT rid FROM t WHERE {}", where_sql)),
        ("agg", format!("SELECT count(*) AS c, sum(rid) AS s, min(rid) AS lo, max(rid) AS hi FROM t WHERE {}", where_sql)),
    ];
    // what the pushed-down scan filter does to the files (for NT and for the
    // classification of a difference)
    let mut filters = vec![];
    let plan = std::panic::catch_unwind(std::panic::AssertUnwindSafe(|| pq.optimized_plan(&queries[0].1)))
        .ok()
        .and_then(|r| r.ok());
    if let Some(plan) = plan {
        scan_filters(&plan, &mut filters);
    }
    let mut total_groups = 0;
    let mut pruned = 0;
    let mut definite = 0;
    let mut direct: Verdict = Verdict::Pass;
    if let Some(f) = filters.first() {
        obs.label("scan-filter-pushed");
        for file in &files {
            if let Ok((meta, schema, groups)) = read_footer_and_groups(file) {
                let an = analyse(f, &meta, &schema, &groups, has_or(&c.pred));
                total_groups += an.n_groups;
                pruned += an.pruned;
                definite += an.definite;
                if !matches!(an.verdict, Verdict::Pass) && matches!(direct, Verdict::Pass) {
                    direct = an.verdict;
                }
            }
        }
    } else {
        obs.label("no-scan-filter");
    }
    if pruned > 0 && pruned < total_groups {
        obs.label("prunes-some");
    }
    if definite > 0 && definite < total_groups {
        obs.label("whole-pass-some");
    }
    obs.nontrivial((pruned > 0 && pruned < total_groups) || (definite > 0 && definite < total_groups));
    // which physical operators answer the queries (evidence only)
    for (qn, q) in &queries {
        if let Some(Ok(pp)) = std::panic::catch_unwind(std::panic::AssertUnwindSafe(|| pq.physical_plan(q))).ok() {
            let mut names = vec![];
            let mut stack = vec![pp];
            while let Some(op) = stack.pop() {
                names.push(op.name().to_string());
                stack.extend(op.children());
            }
            obs.label(format!("plan:{}:{}", qn, names.join(">")));
        }
    }
    for (qn, q) in &queries {
        let want = engine::run_sql(&mem, q);
        let got = engine::run_sql(&pq, q);
        match (&want, &got) {
            (Ok(w), Ok(g)) => {
                if data::multiset_eq(w, g, 0.0) {
                    continue;
                }
                let msg = format!(
                    "{}{} over the Parquet registration returns {} but over the memory registration {}",
                    if streaming { "[forced streaming scan] " } else { "" },
                    q,
                    show_rows(g, 12),
                    show_rows(w, 12)
                );
                return match &direct {
                    Verdict::Known { id, .. } => Verdict::Known { id: id.clone(), msg },
                    Verdict::Fail(m) => Verdict::Fail(format!("{}\ndirect analysis of the scan filter: {}", msg, m)),
                    _ => {
                        // evaluator disagreement on NaN / -0.0 (compiled IEEE vs
                        // interpreted totalOrder) is C06's finding, not pruning
                        let fl = c.rows.iter().any(|r| matches!(&r[2], Value::Double(v) if v.is_nan() || (*v == 0.0 && v.is_sign_negative())));
                        if fl {
                            Verdict::Discard("answers differ with NaN/-0.0 present although pruning is sound (evaluator semantics, C06)".into())
                        } else {
                            Verdict::Fail(format!("{}\n(the direct analysis of the pushed scan filter found nothing wrong)", msg))
                        }
                    }
                };
            }
            (Err(a), Err(_)) => {
                obs.label(format!("both-error:{}:{}", qn, a.chars().take(40).collect::<String>()));
            }
            (Ok(_), Err(e)) => {
                obs.label(format!("parquet-only-error:{}:{}", qn, e.chars().take(60).collect::<String>()));
            }
            (Err(e), Ok(_)) => {
                obs.label(format!("memory-only-error:{}:{}", qn, e.chars().take(60).collect::<String>()));
            }
        }
    }
    Verdict::Pass
}

pub struct E2e;
impl Check for E2e {
    type Case = Case;
    fn name(&self) -> &'static str {
        "e2e"
    }
    fn rule(&self) -> &'static str {
        "the optimizer pushed a scan filter that prunes, or is proven whole-passing for, at least one but not all row groups of the table's files"
    }
    fn cases(&self, tier: Tier) -> u32 {
        tier.pick(700, 30_000)
    }
    fn strategy(&self, _tier: Tier) -> BoxedStrategy<Case> {
        case_strategy(true, 12, 20, false)
    }
    fn test(&self, c: &Case, obs: &mut Obs) -> Verdict {
        e2e_test(c, obs, false)
    }
}
pub struct E2eStreaming;
impl Check for E2eStreaming {
    type Case = Case;
    fn name(&self) -> &'static str {
        "e2e_streaming"
    }
    fn rule(&self) -> &'static str {
        "as e2e, with the planner's size gate forced (verif-hooks force_big) so the filtered scan is the streaming Parquet scan that has no FilterExec above it"
    }
    fn cases(&self, tier: Tier) -> u32 {
        tier.pick(400, 20_000)
    }
    fn strategy(&self, _tier: Tier) -> BoxedStrategy<Case> {
        case_strategy(true, 12, 20, false)
    }
    fn test(&self, c: &Case, obs: &mut Obs) -> Verdict {
        e2e_test(c, obs, true)
    }
}

/// development aid: VERIF_ONLY_CHECK=<name> runs a single check of the property
fn only(v: Vec<Box<dyn DynCheck>>) -> Vec<Box<dyn DynCheck>> {
    match std::env::var("VERIF_ONLY_CHECK") {
        Ok(n) if v.iter().any(|c| c.name() == n) => v.into_iter().filter(|c| c.name() == n).collect(),
        _ => v,
    }
}

pub fn property() -> Property {
    Property {
        id: "C05",
        level: "exploration",
        assumptions: &[
            "the semantics pruning must preserve is the engine's interpreter (evaluate_expr) on the decoded rows; for (b) a row group also counts as whole-passing only if SQL three-valued logic over the interpreter's atoms says TRUE on every row",
            "a predicate the interpreter cannot evaluate (type error) is a trivial case",
            "end-to-end answers are compared as multisets; the shard scan is covered through prune_row_groups only",
        ],
        checks: only(vec![Box::new(Prune), Box::new(E2e), Box::new(E2eStreaming)]),
    }
}
