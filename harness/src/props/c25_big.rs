//! C25, large inputs — ORDER BY / LIMIT / OFFSET over 10k–40k-row tables whose
//! sort really SPILLS into several sorted runs that are merged back.
//!
//! Why a separate check: the external sort merges its runs through a read
//! buffer of 8192 rows per run (`MERGE_BUFFER_ROWS`) and, above 8 runs, in
//! several passes whose intermediate runs are long. Everything that happens
//! after a run has reloaded its buffer lies thousands of rows deep in the
//! output; the small-table generator of `order_limit` (≤ 3000 rows) can never
//! reach it.
//!
//! Generator: the Case holds only PARAMETERS (row count, data seed, value
//! domains, NULL rates, input layout, batch size, key spec, LIMIT/OFFSET,
//! memory limit); the table is rebuilt from them inside `test`:
//!   big(id BIGINT unique = input position, ki BIGINT, kd DOUBLE, ks VARCHAR, kt DATE)
//! with 3 … 1M distinct values and 0/10/40 % NULLs per key column, input order
//! random / already in the requested order / exactly reversed, registered as
//! equal-sized batches. 1–3 sort keys over the five columns, ASC/DESC ×
//! NULLS FIRST/LAST/default. The memory limit is derived from the measured
//! batch sizes so that a sorted run holds a chosen number of batches:
//!   mode A  ≥ 2 runs, the full ones longer than 8192 rows (single-pass merge),
//!   mode B  9–20 short runs → multi-pass merge with long intermediate runs,
//!   mode C  3–8 runs of ≤ 8192 rows (control group).
//! Windows: full sort, LIMIT only (fused top-k), OFFSET only, LIMIT+OFFSET at
//! the head, around row 8192, in the middle and in the tail.
//!
//! Oracle (independent of the engine, O(n log n)): a stable harness-side sort
//! of the generated rows by the declared keys gives every row its tie group
//! and every output position the tie group that must occupy it. The engine's
//! answer must (1) have exactly the window's row count, (2) be ordered by the
//! declared keys (adjacent rows compared), (3) consist of unaltered input rows,
//! none twice (`id` is unique), each from the tie group that owns its output
//! position (so a tie group cut by the window may contribute any of its rows).
//! For a full sort (1)+(3) say: a permutation of the input.
use crate::data::*;
use crate::runner::*;
use proptest::prelude::*;
use query_engine::{ExecutionConfig, ExecutionContext};
use serde::{Deserialize, Serialize};
use std::cmp::Ordering;

/// rows a run's read buffer holds during the merge (spillable.rs MERGE_BUFFER_ROWS)
const MERGE_BUFFER_ROWS: usize = 8192;
/// spillable.rs MAX_MERGE_FANIN
const MAX_MERGE_FANIN: usize = 8;
/// ExecutionConfig::default().spill_threshold
const SPILL_THRESHOLD: f64 = 0.8;

pub const COL_NAMES: [&str; 5] = ["id", "ki", "kd", "ks", "kt"];
const COL_TYPES: [ColType; 5] = [ColType::Int, ColType::Int, ColType::Double, ColType::Str, ColType::Date];

#[derive(Clone, Debug, Serialize, Deserialize, PartialEq)]
pub struct BigKey {
    /// index into COL_NAMES
    pub col: usize,
    pub desc: bool,
    /// None = default (NULLS LAST in both directions)
    pub nulls_first: Option<bool>,
}

#[derive(Clone, Debug, Serialize, Deserialize)]
pub struct BigSortCase {
    pub rows: u32,
    pub data_seed: u64,
    /// number of distinct values the columns ki, kd, ks, kt draw from
    pub domains: [u32; 4],
    /// NULL percentage of ki, kd, ks, kt
    pub null_pct: [u8; 4],
    /// input order: 0 random, 1 already in the requested order, 2 exactly reversed
    pub layout: u8,
    /// rows per registered input batch (the last batch may be shorter)
    pub batch_rows: u32,
    pub keys: Vec<BigKey>,
    pub limit: Option<u64>,
    pub offset: Option<u64>,
    /// `ExecutionConfig::with_memory_limit` of the spilling run
    pub mem_limit: usize,
    /// also run the statement with default memory (in-memory sort / fused top-k)
    pub also_in_memory: bool,
}

// ---------------------------------------------------------------------------
// data from parameters
// ---------------------------------------------------------------------------

fn mix(z: u64) -> u64 {
    let mut z = z.wrapping_add(0x9E37_79B9_7F4A_7C15);
    z = (z ^ (z >> 30)).wrapping_mul(0xBF58_476D_1CE4_E5B9);
    z = (z ^ (z >> 27)).wrapping_mul(0x94D0_49BB_1331_11EB);
    z ^ (z >> 31)
}

const ALPHABET: [&str; 14] = ["a", "b", "c", "A", "Z", "0", "9", " ", "_", "~", "é", "ß", "中", "-"];

/// the `u`-th value of key column `col` (1..=4)
fn domain_value(col: usize, u: u64, seed: u64) -> Value {
    let h = mix(seed ^ mix(u.wrapping_mul(8).wrapping_add(col as u64)));
    match col {
        1 => Value::Int(match u {
            0 => i64::MIN,
            1 => i64::MAX,
            _ => (h % 2_000_001) as i64 - 1_000_000,
        }),
        // finite multiples of 0.25, never -0.0
        2 => Value::Double(match u {
            0 => -((1u64 << 60) as f64),
            1 => (1u64 << 60) as f64,
            _ => ((h % (1 << 22)) as i64 - (1 << 21)) as f64 / 4.0,
        }),
        3 => {
            let len = (h % 11) as usize;
            let mut s = String::new();
            if (h >> 4) & 3 == 0 {
                s.push_str("key-");
            }
            let mut g = h >> 8;
            for _ in 0..len {
                s.push_str(ALPHABET[(g % ALPHABET.len() as u64) as usize]);
                g = mix(g);
            }
            Value::Str(s)
        }
        _ => Value::Date((h % 30_000) as i32 - 8_000),
    }
}

/// compare two non-NULL values of one column
fn value_cmp(a: &Value, b: &Value) -> Ordering {
    match (a, b) {
        (Value::Int(x), Value::Int(y)) => x.cmp(y),
        (Value::Double(x), Value::Double(y)) => x.partial_cmp(y).expect("finite doubles"),
        (Value::Str(x), Value::Str(y)) => x.as_bytes().cmp(y.as_bytes()),
        (Value::Date(x), Value::Date(y)) => x.cmp(y),
        _ => panic!("value_cmp: mixed types {:?} / {:?}", a, b),
    }
}

/// the order `ORDER BY keys` declares between two rows
fn key_cmp(keys: &[BigKey], a: &[Value], b: &[Value]) -> Ordering {
    for k in keys {
        let (x, y) = (&a[k.col], &b[k.col]);
        let nf = k.nulls_first.unwrap_or(false);
        let c = match (x.is_null(), y.is_null()) {
            (true, true) => Ordering::Equal,
            (true, false) => {
                if nf {
                    Ordering::Less
                } else {
                    Ordering::Greater
                }
            }
            (false, true) => {
                if nf {
                    Ordering::Greater
                } else {
                    Ordering::Less
                }
            }
            (false, false) => {
                let c = value_cmp(x, y);
                if k.desc {
                    c.reverse()
                } else {
                    c
                }
            }
        };
        if c != Ordering::Equal {
            return c;
        }
    }
    Ordering::Equal
}

/// The table of a case. Row `i` has `id = i`.
pub fn build_table(c: &BigSortCase) -> Table {
    let n = c.rows as usize;
    let mut rows: Vec<Vec<Value>> = Vec::with_capacity(n);
    for r in 0..n as u64 {
        let mut row = Vec::with_capacity(5);
        row.push(Value::Null); // id, assigned below
        for col in 1..=4usize {
            let h = mix(c.data_seed ^ mix(r.wrapping_mul(8).wrapping_add(col as u64)));
            if (h % 100) < c.null_pct[col - 1] as u64 {
                row.push(Value::Null);
            } else {
                let u = (h >> 8) % c.domains[col - 1].max(1) as u64;
                row.push(domain_value(col, u, c.data_seed));
            }
        }
        rows.push(row);
    }
    match c.layout {
        1 => rows.sort_by(|a, b| key_cmp(&c.keys, a, b)),
        2 => rows.sort_by(|a, b| key_cmp(&c.keys, b, a)),
        _ => {}
    }
    for (i, r) in rows.iter_mut().enumerate() {
        r[0] = Value::Int(i as i64);
    }
    Table {
        name: "big".into(),
        cols: COL_NAMES.iter().zip(COL_TYPES).map(|(n, ty)| Column { name: n.to_string(), ty }).collect(),
        rows,
    }
}

fn cuts(c: &BigSortCase) -> Vec<usize> {
    let b = c.batch_rows.max(1) as usize;
    (1..).map(|i| i * b).take_while(|p| *p < c.rows as usize).collect()
}

/// `estimate_batch_size` of spillable.rs for the batch rows[lo..hi] of `big`
/// (8+8+8 bytes, string bytes + 4, 4 bytes per row; one validity bit per cell)
fn batch_bytes(t: &Table, lo: usize, hi: usize) -> usize {
    let n = hi - lo;
    let strings: usize = t.rows[lo..hi].iter().map(|r| if let Value::Str(s) = &r[3] { s.len() } else { 0 }).sum();
    n * (8 + 8 + 8 + 4 + 4) + strings + 5 * n.div_ceil(8)
}

fn batch_sizes(t: &Table, c: &BigSortCase) -> Vec<(usize, usize)> {
    let mut pts = cuts(c);
    pts.push(t.rows.len());
    let mut lo = 0;
    let mut out = vec![];
    for p in pts {
        out.push((p - lo, batch_bytes(t, lo, p)));
        lo = p;
    }
    out
}

/// What the external sort is documented to do with these input batches under
/// this memory limit (spillable.rs `generate_runs` / `merge_runs`): used for
/// LABELS and the non-triviality rule only, never for a verdict.
pub struct SpillModel {
    pub total_bytes: usize,
    pub spills: bool,
    /// rows of each sorted run written by `generate_runs`
    pub runs: Vec<usize>,
    pub multi_pass: bool,
    /// longest run (initial or intermediate) that takes part in a k-way merge of ≥ 2 runs
    pub longest_merged_run: usize,
}

pub fn spill_model(batches: &[(usize, usize)], mem_limit: usize) -> SpillModel {
    let threshold = (mem_limit as f64 * SPILL_THRESHOLD) as usize;
    let total_bytes: usize = batches.iter().map(|b| b.1).sum();
    // the in-memory scan hands batch i to partition i % P; the sort collects partition after partition
    let p = rayon::current_num_threads().min(batches.len()).max(1);
    let total_rows: usize = batches.iter().map(|b| b.0).sum();
    let p = if total_rows < 1000 { 1 } else { p };
    let order: Vec<usize> = (0..p).flat_map(|part| (0..batches.len()).filter(move |i| i % p == part)).collect();
    let mut runs = vec![];
    let (mut rows, mut bytes) = (0usize, 0usize);
    for i in order {
        let (r, b) = batches[i];
        if bytes + b > threshold && rows > 0 {
            runs.push(rows);
            rows = 0;
            bytes = 0;
        }
        rows += r;
        bytes += b;
    }
    if rows > 0 {
        runs.push(rows);
    }
    let spills = total_bytes > threshold;
    let mut longest = 0;
    let mut multi_pass = false;
    if spills && runs.len() >= 2 {
        let mut cur = runs.clone();
        while cur.len() > MAX_MERGE_FANIN {
            multi_pass = true;
            let mut next = vec![];
            for ch in cur.chunks(MAX_MERGE_FANIN) {
                if ch.len() >= 2 {
                    longest = longest.max(*ch.iter().max().unwrap());
                }
                next.push(ch.iter().sum());
            }
            cur = next;
        }
        longest = longest.max(*cur.iter().max().unwrap());
    }
    SpillModel { total_bytes, spills, runs, multi_pass, longest_merged_run: longest }
}

pub fn sql_of(c: &BigSortCase) -> String {
    let keys: Vec<String> = c
        .keys
        .iter()
        .map(|k| {
            format!(
                "{}{}{}",
                COL_NAMES[k.col],
                if k.desc { " DESC" } else { " ASC" },
                match k.nulls_first {
                    None => "",
                    Some(true) => " NULLS FIRST",
                    Some(false) => " NULLS LAST",
                }
            )
        })
        .collect();
    let mut s = format!("SELECT id, ki, kd, ks, kt FROM big ORDER BY {}", keys.join(", "));
    if let Some(l) = c.limit {
        s.push_str(&format!(" LIMIT {}", l));
    }
    if let Some(o) = c.offset {
        s.push_str(&format!(" OFFSET {}", o));
    }
    s
}

// ---------------------------------------------------------------------------
// oracle
// ---------------------------------------------------------------------------

pub struct Expected {
    /// row ids in a stable sort by the declared keys
    pub order: Vec<u32>,
    /// tie group of every sorted position
    pub group_at: Vec<u32>,
    /// tie group of every row id
    pub group_of: Vec<u32>,
    pub off: usize,
    pub end: usize,
}

pub fn expected(t: &Table, c: &BigSortCase) -> Expected {
    let n = t.rows.len();
    let mut order: Vec<u32> = (0..n as u32).collect();
    order.sort_by(|a, b| key_cmp(&c.keys, &t.rows[*a as usize], &t.rows[*b as usize]));
    let mut group_at = vec![0u32; n];
    let mut group_of = vec![0u32; n];
    let mut g = 0u32;
    for p in 0..n {
        if p > 0 && key_cmp(&c.keys, &t.rows[order[p - 1] as usize], &t.rows[order[p] as usize]) != Ordering::Equal {
            g += 1;
        }
        group_at[p] = g;
        group_of[order[p] as usize] = g;
    }
    let off = (c.offset.unwrap_or(0).min(n as u64)) as usize;
    let end = match c.limit {
        Some(l) => (off as u64).saturating_add(l).min(n as u64) as usize,
        None => n,
    };
    Expected { order, group_at, group_of, off, end }
}

fn fmt_key(keys: &[BigKey], row: &[Value]) -> String {
    format!("id={} key=({})", fmt_value(&row[0]), keys.iter().map(|k| fmt_value(&row[k.col])).collect::<Vec<_>>().join(", "))
}

fn context(got: &Rows, keys: &[BigKey], p: usize) -> String {
    let lo = p.saturating_sub(3);
    let hi = (p + 4).min(got.len());
    (lo..hi).map(|i| format!("   out[{}] {}{}\n", i, fmt_key(keys, &got[i]), if i == p { "   <==" } else { "" })).collect()
}

/// Does `got` answer the statement? Err = (class, explanation).
pub fn judge(t: &Table, c: &BigSortCase, ex: &Expected, got: &Rows) -> Result<(), (&'static str, String)> {
    let n = t.rows.len();
    let want = ex.end - ex.off;
    if got.len() != want {
        return Err(("row_count", format!("{} rows returned, but the window [{}, {}) of the {} sorted rows has {}", got.len(), ex.off, ex.end, n, want)));
    }
    // (3a) every row is an input row, unaltered, at most once
    let mut seen = vec![false; n];
    for (p, row) in got.iter().enumerate() {
        let id = match row.first() {
            Some(Value::Int(i)) if row.len() == 5 && *i >= 0 && (*i as usize) < n => *i as usize,
            _ => return Err(("invented_row", format!("output row {} is not a row of the table: {:?}", p, row))),
        };
        if !row.iter().zip(&t.rows[id]).all(|(a, b)| value_eq(a, b, 0.0)) {
            return Err(("altered_row", format!("output row {} differs from the input row with the same id\n   engine: {:?}\n   input:  {:?}", p, row, t.rows[id])));
        }
        if seen[id] {
            return Err(("duplicated_row", format!("the input row id={} is returned twice (second time at output row {})", id, p)));
        }
        seen[id] = true;
    }
    // (2) ordered by the declared keys
    for p in 1..got.len() {
        if key_cmp(&c.keys, &got[p - 1], &got[p]) == Ordering::Greater {
            return Err((
                "out_of_order",
                format!("output rows {} and {} are in the wrong order (the first out-of-order pair; {} rows returned)\n{}", p - 1, p, got.len(), context(got, &c.keys, p)),
            ));
        }
    }
    // (3b) each output position holds a row of the tie group that owns it
    for (p, row) in got.iter().enumerate() {
        let id = match row[0] {
            Value::Int(i) => i as usize,
            _ => unreachable!(),
        };
        if ex.group_of[id] != ex.group_at[ex.off + p] {
            let owner = &t.rows[ex.order[ex.off + p] as usize];
            return Err((
                "wrong_rows",
                format!(
                    "output row {} (position {} of the sorted order) must come from the tie group of {} but is {} (the first such position)\n{}",
                    p,
                    ex.off + p,
                    fmt_key(&c.keys, owner),
                    fmt_key(&c.keys, row),
                    context(got, &c.keys, p)
                ),
            ));
        }
    }
    Ok(())
}

// ---------------------------------------------------------------------------
// generator
// ---------------------------------------------------------------------------

#[derive(Clone, Debug)]
struct Raw {
    rows: u32,
    data_seed: u64,
    dom_sel: [u8; 4],
    null_sel: [u8; 4],
    layout_sel: u8,
    keys: Vec<(u8, bool, u8)>,
    mode_sel: u8,
    run_sel: u16,
    bpr_sel: u8,
    win_kind: u8,
    win_a: u16,
    win_b: u16,
    also_mem: u8,
}

fn lerp(lo: u64, hi: u64, sel: u16) -> u64 {
    if hi <= lo {
        return lo;
    }
    lo + (hi - lo) * sel as u64 / u16::MAX as u64
}

fn finalize(raw: Raw) -> BigSortCase {
    let rows = raw.rows;
    let n = rows as u64;
    const DOMS: [u32; 6] = [3, 40, 40, 1000, 1_000_000, 1_000_000];
    const NULLS: [u8; 4] = [0, 10, 10, 40];
    let domains = [0, 1, 2, 3].map(|i| DOMS[raw.dom_sel[i] as usize % DOMS.len()]);
    let null_pct = [0, 1, 2, 3].map(|i| NULLS[raw.null_sel[i] as usize % NULLS.len()]);
    // keys: distinct columns; `id` (unique, never NULL) is rarer than the four nullable key columns
    let mut keys: Vec<BigKey> = vec![];
    for (col_sel, desc, nulls) in &raw.keys {
        let col = [1usize, 2, 3, 4, 1, 2, 3, 4, 1, 0][*col_sel as usize % 10];
        if keys.iter().any(|k| k.col == col) {
            continue;
        }
        keys.push(BigKey {
            col,
            desc: *desc,
            nulls_first: match nulls % 5 {
                0 | 1 => None,
                2 | 3 => Some(true),
                _ => Some(false),
            },
        });
    }
    let layout = match raw.layout_sel % 10 {
        0..=5 => 0,
        6 | 7 => 1,
        _ => 2,
    };
    // run geometry
    let bpr = 1 + (raw.bpr_sel % 3) as u64; // input batches per sorted run
    let run_rows: u64 = match raw.mode_sel % 10 {
        // A: ≥ 2 runs, the full ones longer than the merge read buffer
        0..=6 => lerp(MERGE_BUFFER_ROWS as u64 + 1, (n - 1500).min(20_000), raw.run_sel),
        // B: 9..=20 runs (multi-pass merge); intermediate runs hold 8 of them
        7 | 8 => {
            let max_runs = (n / 1100).min(20);
            n / lerp(9, max_runs.max(9), raw.run_sel)
        }
        // C: 3..=8 runs no longer than the read buffer
        _ => (n / lerp(3, 8, raw.run_sel)).min(MERGE_BUFFER_ROWS as u64),
    };
    let batch_rows = (run_rows / bpr).max(200) as u32;
    // LIMIT / OFFSET
    let near_buf = |sel: u16| (MERGE_BUFFER_ROWS as u64 - 3 + sel as u64 % 7).min(n);
    let (limit, offset) = match raw.win_kind % 20 {
        // full sort
        0..=4 => (None, None),
        // LIMIT only (fused top-k)
        5..=8 => (
            Some(match raw.win_a % 6 {
                0 => 1 + raw.win_b as u64 % 64,
                1 => near_buf(raw.win_b),
                2 => lerp(1, n, raw.win_b),
                3 => n - 1 - raw.win_b as u64 % 3000,
                4 => lerp(n * 6 / 10, n, raw.win_b),
                _ => [n, n + 5][raw.win_b as usize % 2],
            }),
            None,
        ),
        // OFFSET only
        9..=11 => (
            None,
            Some(match raw.win_a % 5 {
                0 => 1 + raw.win_b as u64 % 64,
                1 => near_buf(raw.win_b),
                2 => lerp(1, n, raw.win_b),
                3 => lerp(n * 6 / 10, n, raw.win_b),
                _ => n - 1 - raw.win_b as u64 % 3000,
            }),
        ),
        // LIMIT + OFFSET: head / around the read-buffer size / middle / tail, small and large windows
        k => {
            let len = if raw.win_a % 2 == 0 { 1 + (raw.win_a as u64 / 2) % 100 } else { 1000 + (raw.win_a as u64 / 2) % 5000 };
            let off = match k {
                12 | 13 => raw.win_b as u64 % 200,
                14 => near_buf(raw.win_b).saturating_sub(len / 2),
                15 | 16 => lerp(n * 3 / 10, n * 7 / 10, raw.win_b),
                // tail: the window ends within the last 3000 rows, sometimes beyond the last row
                _ => (n + 20).saturating_sub(len + raw.win_b as u64 % 3000),
            };
            (Some(len), Some(off))
        }
    };
    let mut c = BigSortCase {
        rows,
        data_seed: raw.data_seed,
        domains,
        null_pct,
        layout,
        batch_rows,
        keys,
        limit,
        offset,
        mem_limit: 0,
        also_in_memory: raw.also_mem % 4 == 0,
    };
    // memory limit: a run closes when the next batch would exceed 0.8 * limit, so
    // `bpr` batches of the largest size just fit (more when the batches are smaller)
    let t = build_table(&c);
    let sizes = batch_sizes(&t, &c);
    let bmax = sizes.iter().map(|s| s.1).max().unwrap_or(0);
    let threshold = bpr as usize * bmax + 64;
    c.mem_limit = (threshold as f64 / SPILL_THRESHOLD).ceil() as usize + 2;
    c
}

fn raw_strategy(tier: Tier) -> BoxedStrategy<Raw> {
    let max_rows = tier.pick(40_000u32, 150_000);
    (
        (10_000u32..=max_rows, any::<u64>(), any::<[u8; 4]>(), any::<[u8; 4]>(), any::<u8>()),
        proptest::collection::vec((any::<u8>(), any::<bool>(), any::<u8>()), 1..=3),
        (any::<u8>(), any::<u16>(), any::<u8>()),
        (any::<u8>(), any::<u16>(), any::<u16>(), any::<u8>()),
    )
        .prop_map(|((rows, data_seed, dom_sel, null_sel, layout_sel), keys, (mode_sel, run_sel, bpr_sel), (win_kind, win_a, win_b, also_mem))| Raw {
            rows,
            data_seed,
            dom_sel,
            null_sel,
            layout_sel,
            keys,
            mode_sel,
            run_sel,
            bpr_sel,
            win_kind,
            win_a,
            win_b,
            also_mem,
        })
        .boxed()
}

// ---------------------------------------------------------------------------
// the check
// ---------------------------------------------------------------------------

struct Run {
    rows: Result<Rows, String>,
    spilled: usize,
    plan: String,
}

fn run(t: &Table, c: &BigSortCase, sql: &str, mem_limit: Option<usize>) -> Run {
    let tmp = TempDir::new("c25big");
    let mut conf = ExecutionConfig::default().with_spill_path(tmp.path().join("spill"));
    if let Some(l) = mem_limit {
        conf = conf.with_memory_limit(l);
    }
    let mut ctx = ExecutionContext::with_config(conf);
    crate::engine::register_mem(&mut ctx, t, &cuts(c));
    let plan = match std::panic::catch_unwind(std::panic::AssertUnwindSafe(|| ctx.physical_plan(sql))) {
        Ok(Ok(p)) => query_engine::physical::display_plan(p.as_ref(), 0),
        Ok(Err(e)) => format!("plan error: {}", e),
        Err(_) => "plan panic".to_string(),
    };
    let rows = crate::engine::run_sql(&ctx, sql);
    Run { rows, spilled: ctx.memory_pool().spilled(), plan }
}

fn bucket(n: usize) -> &'static str {
    match n {
        0..=8192 => "<=8192",
        8193..=12_000 => "8193-12000",
        12_001..=20_000 => "12001-20000",
        _ => ">20000",
    }
}

pub struct LargeSpilledSort;
impl Check for LargeSpilledSort {
    type Case = BigSortCase;
    fn name(&self) -> &'static str {
        "large_spilled_sort"
    }
    fn rule(&self) -> &'static str {
        "the memory-limited run answered, really spilled (MemoryPool::spilled() > 0, plan has ExternalSort), into >= 2 sorted runs of which one that is merged (an initial run, or an intermediate run of a multi-pass merge) is longer than the 8192-row merge read buffer, and the spilled byte count equals the harness's per-batch size model (so the run layout the labels report is the real one)"
    }
    fn cases(&self, tier: Tier) -> u32 {
        tier.pick(64, 2400)
    }
    fn max_shrink_iters(&self) -> u32 {
        24
    }
    fn strategy(&self, tier: Tier) -> BoxedStrategy<BigSortCase> {
        raw_strategy(tier).prop_map(finalize).boxed()
    }
    fn test(&self, c: &BigSortCase, obs: &mut Obs) -> Verdict {
        if c.keys.is_empty() || c.keys.iter().any(|k| k.col >= 5) || c.rows == 0 || c.batch_rows == 0 {
            return Verdict::Discard("malformed case".into());
        }
        let t = build_table(c);
        let sql = sql_of(c);
        let ex = expected(&t, c);
        let model = spill_model(&batch_sizes(&t, c), c.mem_limit);
        obs.sample(serde_json::json!({ "sql": sql, "rows": c.rows, "batch_rows": c.batch_rows, "mem_limit": c.mem_limit, "model_runs": model.runs }));

        // generator distribution
        let n = t.rows.len();
        obs.label(format!("keys:{}", c.keys.len()));
        for k in &c.keys {
            obs.label(format!(
                "key:{}:{}{}",
                COL_NAMES[k.col],
                if k.desc { "desc" } else { "asc" },
                match k.nulls_first {
                    None => "",
                    Some(true) => ":nulls_first",
                    Some(false) => ":nulls_last",
                }
            ));
        }
        obs.label(format!("layout:{}", ["random", "presorted", "reversed"][c.layout.min(2) as usize]));
        let groups = ex.group_at.last().map(|g| *g as usize + 1).unwrap_or(0);
        obs.label(format!("tie_groups:{}", if groups == n { "all_unique" } else if groups * 10 >= n * 9 { "few_ties" } else if groups > 100 { "many_ties" } else { "heavy_ties(<=100 groups)" }));
        let cut = |p: usize| p > 0 && p < n && ex.group_at[p - 1] == ex.group_at[p];
        if (c.limit.is_some() && cut(ex.end)) || (c.offset.is_some() && cut(ex.off)) {
            obs.label("tie_group_cut_by_window");
        }
        if c.keys.iter().any(|k| t.rows.iter().any(|r| r[k.col].is_null())) {
            obs.label("null_in_key");
        }
        let window = match (c.limit, c.offset) {
            (None, None) => "full_sort".to_string(),
            (Some(_), None) => format!("limit_only:{}", if ex.end <= MERGE_BUFFER_ROWS { "<=8192" } else { ">8192" }),
            (None, Some(_)) => "offset_only".to_string(),
            (Some(_), Some(_)) => format!(
                "limit_offset:{}",
                if ex.end <= MERGE_BUFFER_ROWS {
                    "head(<=8192)"
                } else if ex.end * 10 >= n * 8 {
                    "tail(last 20%)"
                } else {
                    "middle"
                }
            ),
        };
        obs.label(format!("window:{}", window));
        if ex.end > ex.off && ex.end > MERGE_BUFFER_ROWS {
            obs.label("window_reaches_past_row_8192");
        }

        // the spilling configuration
        let r = run(&t, c, &sql, Some(c.mem_limit));
        let fail = |cfg: &str, spilled: usize, class: &str, why: String| {
            format!(
                "[config {}{}] {}: {}\n sql: {}\n table big: {} rows generated from the case parameters (id = input position), registered in batches of {} rows; memory limit {} B\n modelled sorted runs (rows): {:?}{}\n case: {}",
                cfg,
                if spilled > 0 { ", spilled" } else { "" },
                class,
                why,
                sql,
                c.rows,
                c.batch_rows,
                c.mem_limit,
                model.runs,
                if model.multi_pass { " (multi-pass merge)" } else { "" },
                serde_json::to_string(c).unwrap_or_default()
            )
        };
        let mut verdict = Verdict::Pass;
        match &r.rows {
            Err(e) => obs.label(format!("engine_error[spill]:{}", crate::sqlcheck::short_err(e))),
            Ok(got) => {
                obs.label("engine_ok[spill]");
                let external = r.plan.contains("ExternalSort");
                obs.label(if external { "plan:ExternalSort" } else { "plan:no_ExternalSort" });
                obs.label(if r.plan.lines().any(|l| l.trim_start().starts_with("Limit")) { "plan:Limit_above_sort" } else { "plan:no_Limit_operator" });
                let model_exact = r.spilled == model.total_bytes;
                if r.spilled > 0 {
                    obs.label("path:spilled");
                    obs.label(if model_exact { "spilled_bytes=model" } else { "spilled_bytes!=model" });
                    obs.label(format!("runs:{}", if model.runs.len() > MAX_MERGE_FANIN { "9+(multi_pass)".to_string() } else { model.runs.len().to_string() }));
                    obs.label(format!("longest_merged_run:{}", bucket(model.longest_merged_run)));
                } else {
                    obs.label("path:not_spilled");
                }
                let long_run = r.spilled > 0 && model.spills && model.runs.len() >= 2 && model.longest_merged_run > MERGE_BUFFER_ROWS;
                if long_run {
                    obs.label("spilled_with_run>8192");
                    if ex.end > ex.off && ex.end > MERGE_BUFFER_ROWS {
                        obs.label("spilled_with_run>8192_and_window_past_row_8192");
                    }
                }
                obs.nontrivial(external && long_run && model_exact);
                if let Err((class, why)) = judge(&t, c, &ex, got) {
                    obs.label(format!("mismatch[spill]:{}", class));
                    verdict = Verdict::Fail(fail("spill", r.spilled, class, why));
                }
            }
        }
        // the same statement with default memory: in-memory sort / fused top-k over a multi-partition scan
        if c.also_in_memory && matches!(verdict, Verdict::Pass) {
            let m = run(&t, c, &sql, None);
            match &m.rows {
                Err(e) => obs.label(format!("engine_error[mem]:{}", crate::sqlcheck::short_err(e))),
                Ok(got) => {
                    obs.label("engine_ok[mem]");
                    if m.spilled > 0 {
                        obs.label("mem_config_spilled");
                    }
                    if let Err((class, why)) = judge(&t, c, &ex, got) {
                        obs.label(format!("mismatch[mem]:{}", class));
                        verdict = Verdict::Fail(fail("mem", m.spilled, class, why));
                    }
                }
            }
        }
        verdict
    }
}
