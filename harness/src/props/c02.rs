//! C02 — Three-valued logic decides which rows a predicate keeps.
//!
//! Generator: ONE table `t` whose rows are the full cross product of the tiny
//! nullable domains of the 1–4 columns the generated tree references
//! (`a,b` BIGINT, `c,e` INTEGER ∈ {NULL,0,1,2}; `s` VARCHAR ∈ {NULL,'','a','ab','a%'};
//! `d` DATE, `f,g` DOUBLE, `p` BOOLEAN — each with NULL), so every expression
//! meets every NULL / non-NULL operand combination by construction (≤ 320
//! rows); the other columns cycle through their domains. A one-row table
//! `o(k = 1, n = NULL)` is the join partner. Boolean trees of depth ≤ 4 over
//! comparisons, IS [NOT] NULL, IN-lists with/without NULL elements, [NOT]
//! BETWEEN, [NOT] LIKE, AND/OR/NOT, IS [NOT] DISTINCT FROM, boolean columns,
//! CASE/COALESCE/NULLIF/arithmetic operands and literal-only subtrees
//! (`(NULL = 1) OR TRUE`, `CAST(NULL AS BOOLEAN)`, bare `NULL`) for constant
//! folding. A third of the trees is drawn from the all-numeric grammar the
//! compiled predicate path admits (`compiled_expr.rs`); whether the engine
//! really compiled the WHERE predicate is asked from the engine itself
//! (`CompiledPredicate::compile` on the optimized plan's filter) and labelled.
//!
//! Every tree is observed six ways (check `tvl_placements`):
//!   where       SELECT t.id FROM t WHERE e
//!   project     SELECT t.id, e AS v FROM t            (v must be exactly TRUE/FALSE/NULL)
//!   having      SELECT t.id FROM t GROUP BY t.id[, cols] HAVING e   (single-row groups;
//!               either grouped by all referenced columns or through MIN/MAX(col))
//!   above_left  SELECT o2.j, t.id FROM o2 LEFT JOIN t ON o2.j = t.id WHERE e
//!               (o2 holds some ids of t plus two unmatched values: the tree also
//!               meets the all-NULL null-extended rows, and — for the NULL-free
//!               VARCHAR column `r` — the dictionary-encoded column the join emits)
//!   inner       SELECT t.id FROM t INNER JOIN o ON e  (e may reference o.k / o.n)
//!   left        SELECT t.id, o.k FROM t LEFT JOIN o ON e
//! and check `scalar_nulls` projects CASE/COALESCE/NULLIF/arithmetic trees.
//!
//! Oracle: `refsql` (3VL), plus an independent per-row evaluator in this module
//! (`ev`) that must agree with refsql on the kept ids (oracle self-check) and
//! that also evaluates the tree under *null-strict* connectives (the arrow
//! `and`/`or` kernels the engine used before commit 202a3e0) for the
//! non-triviality rule.
use super::Property;
use crate::data::*;
use crate::engine::*;
use crate::refsql::{self, Db};
use crate::runner::*;
use crate::sqlast::*;
use crate::sqlcheck::*;
use crate::sqlgen::{SqlCase, Tape};
use proptest::prelude::*;
use serde::{Deserialize, Serialize};
use std::cmp::Ordering;
use std::collections::BTreeSet;

// ---------------------------------------------------------------------------
// schema
// ---------------------------------------------------------------------------

struct ColDef {
    name: &'static str,
    ty: ColType,
}
const COLS: [ColDef; 10] = [
    ColDef { name: "a", ty: ColType::Int },
    ColDef { name: "b", ty: ColType::Int },
    ColDef { name: "c", ty: ColType::Int32 },
    ColDef { name: "e", ty: ColType::Int32 },
    ColDef { name: "s", ty: ColType::Str },
    ColDef { name: "d", ty: ColType::Date },
    ColDef { name: "f", ty: ColType::Double },
    ColDef { name: "g", ty: ColType::Double },
    ColDef { name: "p", ty: ColType::Bool },
    // VARCHAR without NULLs: above an outer join its NULLs come only from the
    // null extension (the join then hands the filter a dictionary-encoded column)
    ColDef { name: "r", ty: ColType::Str },
];
const D0: i32 = 10957; // 2000-01-01
const D1: i32 = 10972; // 2000-01-16

fn domain(ci: usize) -> Vec<Value> {
    let s = |x: &str| Value::Str(x.to_string());
    match COLS[ci].name {
        "a" | "b" | "c" | "e" => vec![Value::Null, Value::Int(0), Value::Int(1), Value::Int(2)],
        "s" => vec![Value::Null, s(""), s("a"), s("ab"), s("a%")],
        "d" => vec![Value::Null, Value::Date(D0), Value::Date(D1)],
        "f" => vec![Value::Null, Value::Double(0.5), Value::Double(1.0), Value::Double(1.5)],
        "g" => vec![Value::Null, Value::Double(0.5), Value::Double(1.0)],
        "p" => vec![Value::Null, Value::Bool(true), Value::Bool(false)],
        "r" => vec![s(""), s("a"), s("ab"), s("a%")],
        _ => unreachable!(),
    }
}

/// `t`: id + all columns; rows = cross product of the domains of `chosen`.
fn build_t(chosen: &[usize]) -> Table {
    let doms: Vec<Vec<Value>> = (0..COLS.len()).map(domain).collect();
    let n: usize = chosen.iter().map(|c| doms[*c].len()).product::<usize>().max(1);
    let mut cols = vec![Column { name: "id".into(), ty: ColType::Int }];
    cols.extend(COLS.iter().map(|c| Column { name: c.name.into(), ty: c.ty }));
    let mut rows = Vec::with_capacity(n);
    for i in 0..n {
        let mut row = vec![Value::Int(i as i64 + 1)];
        let mut rest = i;
        let mut digits = vec![usize::MAX; COLS.len()];
        for c in chosen {
            digits[*c] = rest % doms[*c].len();
            rest /= doms[*c].len();
        }
        for (ci, d) in doms.iter().enumerate() {
            let k = if digits[ci] != usize::MAX { digits[ci] } else { (i * 7 + ci * 3 + i / 5) % d.len() };
            row.push(d[k].clone());
        }
        rows.push(row);
    }
    Table { name: "t".into(), cols, rows }
}

/// `o2(j)`: ids 1..=min(n,40) of `t` plus two values without a partner
fn build_o2(n: usize) -> Table {
    let mut rows: Vec<Vec<Value>> = (1..=n.min(40)).map(|j| vec![Value::Int(j as i64)]).collect();
    rows.push(vec![Value::Int(n as i64 + 1)]);
    rows.push(vec![Value::Int(n as i64 + 2)]);
    Table { name: "o2".into(), cols: vec![Column { name: "j".into(), ty: ColType::Int }], rows }
}

fn build_o() -> Table {
    Table {
        name: "o".into(),
        cols: vec![Column { name: "k".into(), ty: ColType::Int }, Column { name: "n".into(), ty: ColType::Int }],
        rows: vec![vec![Value::Int(1), Value::Null]],
    }
}

// ---------------------------------------------------------------------------
// generator
// ---------------------------------------------------------------------------

struct G {
    t: Tape,
    /// indices into COLS the tree may reference
    chosen: Vec<usize>,
    /// restrict to the grammar the compiled predicate path admits
    numeric_only: bool,
    /// allow o.k / o.n leaves
    with_o: bool,
    feats: BTreeSet<&'static str>,
}

fn tcol(name: &str) -> Expr {
    Expr::qcol("t", name)
}

impl G {
    fn feat(&mut self, f: &'static str) {
        self.feats.insert(f);
    }
    fn cols_of(&self, pred: impl Fn(ColType) -> bool) -> Vec<usize> {
        self.chosen.iter().copied().filter(|c| pred(COLS[*c].ty)).collect()
    }
    fn lit(&mut self, ty: ColType) -> Expr {
        Expr::Lit(match ty {
            ColType::Int | ColType::Int32 => Value::Int(self.t.pick(4) as i64),
            ColType::Double => Value::Double([1.0, 0.5, 1.5, 0.25][self.t.pick(4)]),
            ColType::Str => Value::Str(["a", "", "ab", "a%", "b"][self.t.pick(5)].to_string()),
            ColType::Date => Value::Date([D0, D1, D0 + 7][self.t.pick(3)]),
            ColType::Bool => Value::Bool(self.t.pick(2) == 0),
        })
    }
    /// the type family used for literals compared with a column of type `ty`
    fn pick_col(&mut self, pred: impl Fn(ColType) -> bool) -> Option<usize> {
        let v = self.cols_of(pred);
        if v.is_empty() {
            None
        } else {
            Some(v[self.t.pick(v.len())])
        }
    }
    /// a non-boolean column (preferred), else an Int literal
    fn any_col(&mut self) -> (Expr, ColType) {
        match self.pick_col(|t| t != ColType::Bool) {
            Some(c) => (tcol(COLS[c].name), COLS[c].ty),
            None => (self.lit(ColType::Int), ColType::Int),
        }
    }
    fn same_family(a: ColType, b: ColType) -> bool {
        a == b || (a.is_int() && b.is_int())
    }
    /// operand of the given family: literal, column of the family, NULL, o.k/o.n, small scalar expression
    fn operand(&mut self, ty: ColType, depth: u32) -> Expr {
        let k = self.t.pick(16);
        match k {
            0..=5 => self.lit(ty),
            6..=9 => match self.pick_col(|t| Self::same_family(t, ty)) {
                Some(c) => tcol(COLS[c].name),
                None => self.lit(ty),
            },
            // (the engine cannot coerce an untyped NULL against DATE / BOOLEAN: an
            // error, allowed but uninformative — kept rare for those types)
            10 if !self.numeric_only && (!matches!(ty, ColType::Date | ColType::Bool) || self.t.chance(15)) => {
                self.feat("null_literal_operand");
                Expr::Lit(Value::Null)
            }
            // (an INTEGER = BIGINT equi-join key panics in the hash join — "index out of
            // bounds", C29's business — so INTEGER columns meet o.k / o.n only rarely)
            11 | 12 if self.with_o && (ty == ColType::Int || (ty == ColType::Int32 && self.t.chance(6))) => {
                if self.t.chance(50) {
                    self.feat("o_n");
                    Expr::qcol("o", "n")
                } else {
                    self.feat("o_k");
                    Expr::qcol("o", "k")
                }
            }
            13 | 14 if depth > 0 && !self.numeric_only => self.scalar(ty, depth - 1),
            15 if self.numeric_only && ty == ColType::Double => {
                // f64 arithmetic side (compiled as register arithmetic)
                self.feat("arith");
                let a = match self.pick_col(|t| t == ColType::Double) {
                    Some(c) => tcol(COLS[c].name),
                    None => self.lit(ty),
                };
                let op = [BinOp::Add, BinOp::Sub, BinOp::Mul][self.t.pick(3)];
                Expr::bin(a, op, self.lit(ty))
            }
            _ => self.lit(ty),
        }
    }

    /// scalar expression of type family `ty` (CASE / COALESCE / NULLIF / arithmetic)
    fn scalar(&mut self, ty: ColType, depth: u32) -> Expr {
        // exact types: the engine's COALESCE rejects INTEGER mixed with BIGINT (and
        // integer literals are BIGINT), so INTEGER-typed scalars are built from
        // INTEGER columns only; an INTEGER scalar with no INTEGER column degrades to BIGINT
        let col_or_lit = |g: &mut G| match g.pick_col(|t| t == ty) {
            Some(c) if ty == ColType::Int32 || g.t.pick(4) != 3 => tcol(COLS[c].name),
            _ => {
                if g.t.chance(15) {
                    Expr::Lit(Value::Null)
                } else {
                    g.lit(ty)
                }
            }
        };
        if depth == 0 {
            return col_or_lit(self);
        }
        let numeric = ty.is_numeric();
        match self.t.pick(9) {
            0 | 1 if numeric => {
                self.feat("arith");
                let op = [BinOp::Add, BinOp::Sub, BinOp::Mul][self.t.pick(3)];
                let a = self.scalar(ty, depth - 1);
                let b = col_or_lit(self);
                Expr::bin(a, op, b)
            }
            2 | 3 => {
                self.feat("coalesce");
                let n = 2 + self.t.pick(2);
                // the engine's COALESCE wants identical argument types (INTEGER with a
                // BIGINT literal is an error): INTEGER arguments are columns only, and a
                // mixed INTEGER/BIGINT list stays rare
                let mixed_ok = self.t.chance(8);
                let exact = |g: &mut G| -> Expr {
                    let cols = g.cols_of(|t| if mixed_ok { Self::same_family(t, ty) } else { t == ty });
                    let lit_ok = ty != ColType::Int32 || mixed_ok;
                    if !cols.is_empty() && (!lit_ok || g.t.pick(4) != 3) {
                        tcol(COLS[cols[g.t.pick(cols.len())]].name)
                    } else if g.t.chance(15) {
                        Expr::Lit(Value::Null)
                    } else {
                        g.lit(ty)
                    }
                };
                let first = if ty == ColType::Int32 && !mixed_ok { exact(self) } else { self.scalar(ty, depth - 1) };
                let mut v = vec![first];
                for _ in 1..n {
                    v.push(exact(self));
                }
                Expr::Coalesce(v)
            }
            4 => {
                self.feat("nullif");
                let a = self.scalar(ty, depth - 1);
                let b = col_or_lit(self);
                Expr::NullIf(Box::new(a), Box::new(b))
            }
            5 | 6 => {
                self.feat("case");
                let n = 1 + self.t.pick(2);
                let mut whens = vec![];
                for _ in 0..n {
                    let w = self.tree(depth - 1);
                    // (`THEN NULL` with a typed ELSE is an engine error "Casting from … to Null": rare)
                    let th = if self.t.chance(4) { Expr::Lit(Value::Null) } else { self.scalar(ty, depth - 1) };
                    whens.push((w, th));
                }
                let els = if self.t.chance(60) { Some(Box::new(col_or_lit(self))) } else { None };
                Expr::Case { operand: None, whens, els }
            }
            7 if self.t.chance(10) => {
                // simple CASE: an open finding (operand ignored) — kept rare
                self.feat("case_simple");
                let (op, oty) = self.any_col();
                let w = self.lit(if oty == ColType::Int32 { ColType::Int } else { oty });
                let th = col_or_lit(self);
                let els = if self.t.chance(60) { Some(Box::new(col_or_lit(self))) } else { None };
                Expr::Case { operand: Some(Box::new(op)), whens: vec![(w, th)], els }
            }
            _ => col_or_lit(self),
        }
    }

    fn cmp_op(&mut self) -> BinOp {
        [BinOp::Eq, BinOp::Ne, BinOp::Lt, BinOp::Le, BinOp::Gt, BinOp::Ge][self.t.pick(6)]
    }

    fn atom(&mut self, depth: u32) -> Expr {
        if self.numeric_only {
            // compiled subset: same-typed comparisons and BETWEEN only. BIGINT
            // columns against integer literals / each other, INTEGER columns
            // against each other, DATE and DOUBLE against literals / each other.
            let (l, ty) = self.any_col();
            let rhs = |g: &mut G, ty: ColType| -> Expr {
                if ty == ColType::Int32 {
                    match g.pick_col(|t| t == ColType::Int32) {
                        Some(c) => tcol(COLS[c].name),
                        None => g.lit(ty),
                    }
                } else {
                    g.operand(ty, 0)
                }
            };
            if self.t.chance(25) {
                self.feat("between");
                let lo = rhs(self, ty);
                let hi = rhs(self, ty);
                return Expr::Between { e: Box::new(l), lo: Box::new(lo), hi: Box::new(hi), neg: self.t.chance(35) };
            }
            let op = self.cmp_op();
            let r = rhs(self, ty);
            return if self.t.chance(20) { Expr::bin(r, op, l) } else { Expr::bin(l, op, r) };
        }
        match self.t.pick(20) {
            0..=4 => {
                let (l, ty) = self.any_col();
                let l = if depth > 0 && self.t.chance(15) { self.scalar(ty, depth - 1) } else { l };
                let op = self.cmp_op();
                let r = self.operand(ty, depth);
                if self.t.chance(15) {
                    Expr::bin(r, op, l)
                } else {
                    Expr::bin(l, op, r)
                }
            }
            5 | 6 => {
                self.feat("is_null");
                let (l, ty) = self.any_col();
                let l = if depth > 0 && self.t.chance(30) { self.scalar(ty, depth - 1) } else { l };
                Expr::IsNull { e: Box::new(l), neg: self.t.chance(50) }
            }
            7 | 8 | 9 => {
                self.feat("in_list");
                let (l, ty) = self.any_col();
                let l = match self.t.pick(12) {
                    0 => {
                        self.feat("in_list_null_lhs_literal");
                        Expr::Lit(Value::Null)
                    }
                    1 => self.lit(ty),
                    _ => l,
                };
                let n = 1 + self.t.pick(3);
                let mut list: Vec<Expr> = (0..n).map(|_| self.lit(ty)).collect();
                if self.t.chance(35) {
                    self.feat("in_list_null_element");
                    let pos = self.t.pick(list.len() + 1);
                    list.insert(pos, Expr::Lit(Value::Null));
                }
                if self.t.chance(10) {
                    // a column as list element
                    if let Some(c) = self.pick_col(|t| Self::same_family(t, ty)) {
                        self.feat("in_list_column_element");
                        list.push(tcol(COLS[c].name));
                    }
                }
                Expr::InList { e: Box::new(l), list, neg: self.t.chance(45) }
            }
            10 | 11 => {
                self.feat("between");
                let (l, ty) = self.any_col();
                let lo = self.operand(ty, 0);
                let hi = self.operand(ty, 0);
                Expr::Between { e: Box::new(l), lo: Box::new(lo), hi: Box::new(hi), neg: self.t.chance(40) }
            }
            12 | 13 => match self.pick_col(|t| t == ColType::Str) {
                Some(c) => {
                    self.feat("like");
                    let pat = ["a%", "%", "_", "%b", "a_", "", "%a%", "ab", "a%%", "__"][self.t.pick(10)].to_string();
                    Expr::Like { e: Box::new(tcol(COLS[c].name)), pat, neg: self.t.chance(40) }
                }
                None => {
                    let (l, ty) = self.any_col();
                    let op = self.cmp_op();
                    let r = self.operand(ty, 0);
                    Expr::bin(l, op, r)
                }
            },
            14 | 15 => {
                self.feat("is_distinct_from");
                let (l, ty) = self.any_col();
                let r = self.operand(ty, 0);
                Expr::IsDistinct { a: Box::new(l), b: Box::new(r), neg: self.t.chance(50) }
            }
            16 | 17 => match self.pick_col(|t| t == ColType::Bool) {
                Some(c) => {
                    self.feat("bool_column");
                    tcol(COLS[c].name)
                }
                None => {
                    let (l, ty) = self.any_col();
                    let op = self.cmp_op();
                    let r = self.operand(ty, 0);
                    Expr::bin(l, op, r)
                }
            },
            _ => self.literal_only(),
        }
    }

    /// literal-only subtree (constant folding)
    fn literal_only(&mut self) -> Expr {
        self.feat("literal_only");
        let null = || Expr::Lit(Value::Null);
        // 22 slots: kinds 0..9 twice, the bare NULL once, IS DISTINCT once
        let k = match self.t.pick(22) {
            x @ 0..=19 => x / 2,
            20 => 10,
            _ => 11,
        };
        match k {
            0 => Expr::Lit(Value::Bool(true)),
            1 => Expr::Lit(Value::Bool(false)),
            2 => Expr::bin(null(), BinOp::Eq, Expr::int(1)),
            3 => Expr::bin(Expr::int(1), self.cmp_op(), Expr::int(self.t.pick(3) as i64)),
            4 => Expr::bin(Expr::int(1), BinOp::Lt, null()),
            5 => {
                self.feat("cast_null_boolean");
                Expr::Cast(Box::new(null()), ColType::Bool)
            }
            6 => Expr::InList { e: Box::new(Expr::int(2)), list: vec![Expr::int(1), null()], neg: self.t.chance(50) },
            7 => Expr::IsNull { e: Box::new(null()), neg: self.t.chance(50) },
            8 => Expr::Between { e: Box::new(Expr::int(1)), lo: Box::new(null()), hi: Box::new(Expr::int(self.t.pick(3) as i64)), neg: self.t.chance(50) },
            9 => Expr::bin(Expr::Lit(Value::Str("a".into())), BinOp::Eq, Expr::Lit(Value::Str(["a", "b"][self.t.pick(2)].into()))),
            10 => {
                // a bare NULL as a boolean operand: the engine has no typed NULL
                // here and mostly answers with an error (allowed) — kept rare
                self.feat("bare_null_boolean");
                null()
            }
            _ => Expr::IsDistinct { a: Box::new(null()), b: Box::new(Expr::int(1)), neg: self.t.chance(50) },
        }
    }

    fn tree(&mut self, depth: u32) -> Expr {
        if depth == 0 {
            return self.atom(0);
        }
        // deeper levels prefer connectives so depth is really reached
        match self.t.pick(10) {
            0 | 1 => self.atom(depth),
            2 | 3 | 4 => {
                self.feat("and");
                let a = self.tree(depth - 1);
                let b = self.tree(depth - 1);
                Expr::bin(a, BinOp::And, b)
            }
            5 | 6 | 7 => {
                self.feat("or");
                let a = self.tree(depth - 1);
                let b = self.tree(depth - 1);
                Expr::bin(a, BinOp::Or, b)
            }
            _ => {
                self.feat("not");
                Expr::Not(Box::new(self.tree(depth - 1)))
            }
        }
    }
}

/// replace o.k / o.n by their values (placements without the join partner)
fn subst_o(e: &Expr) -> Expr {
    map_expr(e, &|x| match x {
        Expr::Col { rel: Some(r), name } if r == "o" => Some(if name == "k" { Expr::int(1) } else { Expr::Lit(Value::Null) }),
        _ => None,
    })
}

/// structural map (pre-order: `f` may replace a node, otherwise children are mapped)
fn map_expr(e: &Expr, f: &dyn Fn(&Expr) -> Option<Expr>) -> Expr {
    if let Some(r) = f(e) {
        return r;
    }
    let m = |x: &Expr| Box::new(map_expr(x, f));
    match e {
        Expr::Col { .. } | Expr::Lit(_) => e.clone(),
        Expr::Bin(a, op, b) => Expr::Bin(m(a), *op, m(b)),
        Expr::Not(a) => Expr::Not(m(a)),
        Expr::Neg(a) => Expr::Neg(m(a)),
        Expr::IsNull { e, neg } => Expr::IsNull { e: m(e), neg: *neg },
        Expr::InList { e, list, neg } => Expr::InList { e: m(e), list: list.iter().map(|x| map_expr(x, f)).collect(), neg: *neg },
        Expr::Between { e, lo, hi, neg } => Expr::Between { e: m(e), lo: m(lo), hi: m(hi), neg: *neg },
        Expr::Like { e, pat, neg } => Expr::Like { e: m(e), pat: pat.clone(), neg: *neg },
        Expr::Case { operand, whens, els } => Expr::Case {
            operand: operand.as_ref().map(|o| m(o)),
            whens: whens.iter().map(|(w, t)| (map_expr(w, f), map_expr(t, f))).collect(),
            els: els.as_ref().map(|x| m(x)),
        },
        Expr::Coalesce(v) => Expr::Coalesce(v.iter().map(|x| map_expr(x, f)).collect()),
        Expr::NullIf(a, b) => Expr::NullIf(m(a), m(b)),
        Expr::IsDistinct { a, b, neg } => Expr::IsDistinct { a: m(a), b: m(b), neg: *neg },
        Expr::Cast(x, t) => Expr::Cast(m(x), *t),
        other => other.clone(),
    }
}

fn referenced_t_cols(e: &Expr) -> Vec<String> {
    let mut v: Vec<String> = vec![];
    e.walk(&mut |x| {
        if let Expr::Col { rel: Some(r), name } = x {
            if r == "t" && !v.contains(name) {
                v.push(name.clone());
            }
        }
    });
    v
}

#[derive(Clone, Debug, Serialize, Deserialize)]
pub struct TvlCase {
    /// the WHERE placement (`SELECT t.id FROM t WHERE e`, o.k/o.n replaced by
    /// their values) over the tables [t, o] — what `probe` loads
    pub sql_case: SqlCase,
    /// the generated tree (may reference o.k / o.n): the ON predicate
    pub expr: Expr,
    /// HAVING placement through MIN(col) over single-row groups instead of grouping by the columns
    pub having_minmax: bool,
}

fn from_t() -> Vec<From> {
    vec![From::Table { name: "t".into(), alias: None }]
}
fn id_item() -> Item {
    Item::Expr(tcol("id"), Some("id".into()))
}

fn gen_tvl(tape: Vec<u16>, cuts: Vec<usize>, max_depth: u32) -> TvlCase {
    let mut t = Tape::new(tape);
    let numeric_only = t.chance(33);
    let candidates: Vec<usize> = if numeric_only { (0..COLS.len()).filter(|c| COLS[*c].ty != ColType::Str && COLS[*c].ty != ColType::Bool).collect() } else { (0..COLS.len()).collect() };
    let k = 1 + t.pick(4);
    let mut pool = candidates;
    let mut chosen = vec![];
    for _ in 0..k {
        if pool.is_empty() {
            break;
        }
        let i = t.pick(pool.len());
        chosen.push(pool.remove(i));
    }
    chosen.sort();
    let depth = 1 + t.pick(max_depth as usize) as u32;
    let with_o = !numeric_only || t.chance(50);
    let having_minmax = t.chance(50);
    let mut g = G { t, chosen: chosen.clone(), numeric_only, with_o, feats: BTreeSet::new() };
    let expr = g.tree(depth);
    let mut feats: Vec<String> = g.feats.iter().map(|s| s.to_string()).collect();
    if numeric_only {
        feats.push("numeric_only".into());
    }
    feats.push(format!("depth{}", depth));
    // the table is the cross product over the columns actually referenced (all chosen ones
    // when the tree happens to reference none)
    let used: Vec<usize> = {
        let names = referenced_t_cols(&expr);
        let u: Vec<usize> = chosen.iter().copied().filter(|c| names.iter().any(|n| n == COLS[*c].name)).collect();
        if u.is_empty() {
            chosen.clone()
        } else {
            u
        }
    };
    let t_tab = build_t(&used);
    let o2 = build_o2(t_tab.rows.len());
    let tables = vec![t_tab, build_o(), o2];
    let n = tables[0].rows.len();
    let cuts_t: Vec<usize> = cuts.iter().map(|c| c % (n + 1)).collect();
    let q = Query::select(Select::simple(vec![id_item()], from_t(), Some(subst_o(&expr))));
    TvlCase { sql_case: SqlCase { tables, query: q, cuts: vec![cuts_t, vec![], vec![]], features: feats }, expr, having_minmax }
}

fn tvl_strategy(tier: Tier) -> BoxedStrategy<TvlCase> {
    let max_depth = 4;
    let _ = tier;
    (proptest::collection::vec(any::<u16>(), 0..160), proptest::collection::vec(0usize..400, 0..3))
        .prop_map(move |(tape, cuts)| gen_tvl(tape, cuts, max_depth))
        .boxed()
}

// ---------------------------------------------------------------------------
// independent per-row evaluator (Kleene and null-strict connectives)
// ---------------------------------------------------------------------------

#[derive(Clone, Copy, PartialEq, Eq, Debug)]
enum Logic {
    Kleene,
    /// AND / OR / BETWEEN / IN are NULL as soon as one operand is NULL (the
    /// null-propagating arrow `and`/`or` kernels)
    Strict,
}

struct Row<'a> {
    cols: &'a [Column],
    vals: &'a [Value],
}

fn cmp_vals(a: &Value, b: &Value) -> Result<Option<Ordering>, String> {
    if a.is_null() || b.is_null() {
        return Ok(None);
    }
    Ok(Some(match (a, b) {
        (Value::Int(x), Value::Int(y)) => x.cmp(y),
        (Value::Str(x), Value::Str(y)) => x.as_bytes().cmp(y.as_bytes()),
        (Value::Date(x), Value::Date(y)) => x.cmp(y),
        (Value::Bool(x), Value::Bool(y)) => x.cmp(y),
        (x, y) => match (x.as_f64(), y.as_f64()) {
            (Some(p), Some(q)) => p.partial_cmp(&q).ok_or("nan")?,
            _ => return Err(format!("cmp {:?} {:?}", x, y)),
        },
    }))
}

fn b3(v: &Value) -> Result<Option<bool>, String> {
    match v {
        Value::Null => Ok(None),
        Value::Bool(b) => Ok(Some(*b)),
        o => Err(format!("not boolean {:?}", o)),
    }
}
fn vb(b: Option<bool>) -> Value {
    b.map(Value::Bool).unwrap_or(Value::Null)
}
fn and3(lg: Logic, x: Option<bool>, y: Option<bool>) -> Option<bool> {
    match (lg, x, y) {
        (Logic::Strict, None, _) | (Logic::Strict, _, None) => None,
        (_, Some(false), _) | (_, _, Some(false)) => Some(false),
        (_, Some(true), Some(true)) => Some(true),
        _ => None,
    }
}
fn or3(lg: Logic, x: Option<bool>, y: Option<bool>) -> Option<bool> {
    match (lg, x, y) {
        (Logic::Strict, None, _) | (Logic::Strict, _, None) => None,
        (_, Some(true), _) | (_, _, Some(true)) => Some(true),
        (_, Some(false), Some(false)) => Some(false),
        _ => None,
    }
}

fn simple_like(s: &[char], p: &[char]) -> bool {
    match p.split_first() {
        None => s.is_empty(),
        Some(('%', rest)) => (0..=s.len()).any(|i| simple_like(&s[i..], rest)),
        Some(('_', rest)) => !s.is_empty() && simple_like(&s[1..], rest),
        Some((c, rest)) => s.first() == Some(c) && simple_like(&s[1..], rest),
    }
}

/// `null_sub` is set when some boolean sub-result is NULL.
fn ev(e: &Expr, r: &Row, lg: Logic, null_sub: &mut bool) -> Result<Value, String> {
    let out = match e {
        Expr::Col { name, .. } => {
            let i = r.cols.iter().position(|c| &c.name == name).ok_or("col")?;
            return Ok(r.vals[i].clone());
        }
        Expr::Lit(v) => return Ok(v.clone()),
        Expr::Cast(x, _) => return ev(x, r, lg, null_sub),
        Expr::Bin(a, op, b) => {
            let x = ev(a, r, lg, null_sub)?;
            let y = ev(b, r, lg, null_sub)?;
            match op {
                BinOp::And => vb(and3(lg, b3(&x)?, b3(&y)?)),
                BinOp::Or => vb(or3(lg, b3(&x)?, b3(&y)?)),
                BinOp::Add | BinOp::Sub | BinOp::Mul => {
                    if x.is_null() || y.is_null() {
                        return Ok(Value::Null);
                    }
                    return Ok(match (&x, &y) {
                        (Value::Int(p), Value::Int(q)) => Value::Int(match op {
                            BinOp::Add => p + q,
                            BinOp::Sub => p - q,
                            _ => p * q,
                        }),
                        _ => {
                            let (p, q) = (x.as_f64().ok_or("arith")?, y.as_f64().ok_or("arith")?);
                            let v = match op {
                                BinOp::Add => p + q,
                                BinOp::Sub => p - q,
                                _ => p * q,
                            };
                            if v == 0.0 && v.is_sign_negative() {
                                return Err("negative zero".into());
                            }
                            Value::Double(v)
                        }
                    });
                }
                _ => vb(cmp_vals(&x, &y)?.map(|o| match op {
                    BinOp::Eq => o == Ordering::Equal,
                    BinOp::Ne => o != Ordering::Equal,
                    BinOp::Lt => o == Ordering::Less,
                    BinOp::Le => o != Ordering::Greater,
                    BinOp::Gt => o == Ordering::Greater,
                    _ => o != Ordering::Less,
                })),
            }
        }
        Expr::Not(x) => vb(b3(&ev(x, r, lg, null_sub)?)?.map(|b| !b)),
        Expr::IsNull { e, neg } => Value::Bool(ev(e, r, lg, null_sub)?.is_null() != *neg),
        Expr::InList { e, list, neg } => {
            let x = ev(e, r, lg, null_sub)?;
            let mut acc: Option<bool> = Some(false);
            for it in list {
                let y = ev(it, r, lg, null_sub)?;
                let eq = cmp_vals(&x, &y)?.map(|o| o == Ordering::Equal);
                acc = or3(lg, acc, eq);
            }
            vb(acc.map(|b| b != *neg))
        }
        Expr::Between { e, lo, hi, neg } => {
            let x = ev(e, r, lg, null_sub)?;
            let l = ev(lo, r, lg, null_sub)?;
            let h = ev(hi, r, lg, null_sub)?;
            let ge = cmp_vals(&x, &l)?.map(|o| o != Ordering::Less);
            let le = cmp_vals(&x, &h)?.map(|o| o != Ordering::Greater);
            vb(and3(lg, ge, le).map(|b| b != *neg))
        }
        Expr::Like { e, pat, neg } => match ev(e, r, lg, null_sub)? {
            Value::Null => Value::Null,
            Value::Str(s) => {
                let sc: Vec<char> = s.chars().collect();
                let pc: Vec<char> = pat.chars().collect();
                Value::Bool(simple_like(&sc, &pc) != *neg)
            }
            o => return Err(format!("like {:?}", o)),
        },
        Expr::IsDistinct { a, b, neg } => {
            let x = ev(a, r, lg, null_sub)?;
            let y = ev(b, r, lg, null_sub)?;
            let same = match (x.is_null(), y.is_null()) {
                (true, true) => true,
                (true, false) | (false, true) => false,
                _ => cmp_vals(&x, &y)? == Some(Ordering::Equal),
            };
            Value::Bool(!same != *neg)
        }
        Expr::Case { operand, whens, els } => {
            let opv = match operand {
                Some(o) => Some(ev(o, r, lg, null_sub)?),
                None => None,
            };
            for (w, t) in whens {
                let wv = ev(w, r, lg, null_sub)?;
                let hit = match &opv {
                    Some(o) => cmp_vals(o, &wv)? == Some(Ordering::Equal),
                    None => b3(&wv)? == Some(true),
                };
                if hit {
                    return ev(t, r, lg, null_sub);
                }
            }
            return match els {
                Some(x) => ev(x, r, lg, null_sub),
                None => Ok(Value::Null),
            };
        }
        Expr::Coalesce(v) => {
            for x in v {
                let y = ev(x, r, lg, null_sub)?;
                if !y.is_null() {
                    return Ok(y);
                }
            }
            return Ok(Value::Null);
        }
        Expr::NullIf(a, b) => {
            let x = ev(a, r, lg, null_sub)?;
            let y = ev(b, r, lg, null_sub)?;
            return Ok(if cmp_vals(&x, &y)? == Some(Ordering::Equal) { Value::Null } else { x });
        }
        other => return Err(format!("outside the C02 grammar: {}", other.sql())),
    };
    if out.is_null() {
        *null_sub = true;
    }
    Ok(out)
}

// ---------------------------------------------------------------------------
// known-finding signatures specific to this property
// ---------------------------------------------------------------------------

fn tvl_classify(c: &SqlCase, ev: &BTreeSet<&'static str>, _msg: &str) -> Option<&'static str> {
    // simple CASE: the operand is ignored (shared signature, evaluated for some row)
    if ev.contains("case_simple") {
        return Some("case-simple-operand-ignored");
    }
    // LEFT JOIN whose whole ON condition constant-folds to an untyped NULL literal
    if has(c, "place_left") {
        if let SetExpr::Select(s) = &c.query.body {
            if let Some(From::Join { on: Some(on), .. }) = s.from.first() {
                if matches!(engine_fold(on), Expr::Lit(Value::Null)) {
                    return Some("join-on-untyped-null");
                }
            }
        }
    }
    None
}

/// What the engine's ConstantFolding rule makes of a literal-only boolean
/// expression: AND/OR of two boolean literals are evaluated, `x AND TRUE`,
/// `x OR FALSE` reduce to `x`, integer/string literal comparisons are
/// evaluated; nothing else is touched (in particular NULL literals stay).
fn engine_fold(e: &Expr) -> Expr {
    match e {
        Expr::Bin(a, op, b) => {
            let (x, y) = (engine_fold(a), engine_fold(b));
            let bl = |v: &Expr| if let Expr::Lit(Value::Bool(b)) = v { Some(*b) } else { None };
            match op {
                BinOp::And => match (bl(&x), bl(&y)) {
                    (Some(p), Some(q)) => Expr::Lit(Value::Bool(p && q)),
                    (_, Some(true)) => x,
                    (Some(true), _) => y,
                    (Some(false), _) | (_, Some(false)) => Expr::Lit(Value::Bool(false)),
                    _ => Expr::bin(x, *op, y),
                },
                BinOp::Or => match (bl(&x), bl(&y)) {
                    (Some(p), Some(q)) => Expr::Lit(Value::Bool(p || q)),
                    (_, Some(false)) => x,
                    (Some(false), _) => y,
                    (Some(true), _) | (_, Some(true)) => Expr::Lit(Value::Bool(true)),
                    _ => Expr::bin(x, *op, y),
                },
                o if o.is_cmp() => match (&x, &y) {
                    (Expr::Lit(p @ (Value::Int(_) | Value::Str(_))), Expr::Lit(q @ (Value::Int(_) | Value::Str(_)))) => match cmp_vals(p, q) {
                        Ok(Some(ord)) => Expr::Lit(Value::Bool(match o {
                            BinOp::Eq => ord == Ordering::Equal,
                            BinOp::Ne => ord != Ordering::Equal,
                            BinOp::Lt => ord == Ordering::Less,
                            BinOp::Le => ord != Ordering::Greater,
                            BinOp::Gt => ord == Ordering::Greater,
                            _ => ord != Ordering::Less,
                        })),
                        _ => Expr::bin(x, *op, y),
                    },
                    _ => Expr::bin(x, *op, y),
                },
                _ => Expr::bin(x, *op, y),
            }
        }
        other => other.clone(),
    }
}

// ---------------------------------------------------------------------------
// the check
// ---------------------------------------------------------------------------

/// Did the engine compile the WHERE predicate of this statement (asks the
/// engine's own compiler about the optimized plan's filters)?
/// finer class of an engine error (evidence labels only)
fn err_class(c: &SqlCase) -> String {
    let ctx = mem_context(c);
    match run_sql(&ctx, &c.query.sql()) {
        Ok(_) => "none".into(),
        Err(e) => {
            let e = e.lines().next().unwrap_or("").to_string();
            if let Ok(pat) = std::env::var("C02_DUMP_ERR") {
                // development aid
                if e.contains(&pat) {
                    eprintln!("C02_DUMP_ERR {} :: {}", e, c.query.sql());
                }
            }
            let tail = e.rsplit("failed: ").next().unwrap_or(&e).to_string();
            let t: String = tail.chars().filter(|ch| !ch.is_ascii_digit()).take(70).collect();
            t
        }
    }
}

fn engine_compiles_filter(ctx: &query_engine::ExecutionContext, sql: &str) -> Option<bool> {
    use query_engine::physical::compiled_expr::CompiledPredicate;
    use query_engine::planner::LogicalPlan;
    let plan = std::panic::catch_unwind(std::panic::AssertUnwindSafe(|| ctx.optimized_plan(sql))).ok()?.ok()?;
    fn walk(p: &LogicalPlan, found: &mut Vec<bool>) {
        match p {
            LogicalPlan::Filter(n) => {
                let schema = n.input.schema().to_arrow_schema();
                found.push(CompiledPredicate::compile(&n.predicate, &schema).is_some());
            }
            LogicalPlan::Scan(n) => {
                if let Some(f) = &n.filter {
                    let schema = n.schema.to_arrow_schema();
                    found.push(CompiledPredicate::compile(f, &schema).is_some());
                }
            }
            _ => {}
        }
        for c in p.children() {
            walk(c, found);
        }
    }
    let mut found = vec![];
    walk(&plan, &mut found);
    if found.is_empty() {
        None
    } else {
        Some(found.iter().any(|b| *b))
    }
}

struct Placement {
    name: &'static str,
    case: SqlCase,
}

fn placements(c: &TvlCase) -> Vec<Placement> {
    let base = &c.sql_case;
    let e_plain = subst_o(&c.expr);
    let mk = |name: &'static str, q: Query| {
        let mut features = base.features.clone();
        features.push(format!("place_{}", name));
        Placement { name, case: SqlCase { tables: base.tables.clone(), query: q, cuts: base.cuts.clone(), features } }
    };
    let mut out = vec![];
    out.push(mk("where", base.query.clone()));
    out.push(mk(
        "project",
        Query::select(Select::simple(vec![id_item(), Item::Expr(e_plain.clone(), Some("v".into()))], from_t(), None)),
    ));
    // HAVING over single-row groups
    let refs = referenced_t_cols(&e_plain);
    // MIN/MAX of a BOOLEAN, and an aggregate inside IN / BETWEEN, are "not
    // implemented" errors in the engine: those trees group by the columns
    let mut unsupported = refs.iter().any(|n| n == "p");
    e_plain.walk(&mut |x| {
        if matches!(x, Expr::InList { .. } | Expr::Between { .. }) {
            unsupported = true;
        }
    });
    let has_bool_col = unsupported;
    let having = if c.having_minmax && !has_bool_col {
        let h = map_expr(&e_plain, &|x| match x {
            Expr::Col { rel: Some(r), name } if r == "t" => Some(Expr::agg(if name.as_bytes()[0] % 2 == 0 { AggF::Min } else { AggF::Max }, x.clone())),
            _ => None,
        });
        Select { distinct: false, items: vec![id_item()], from: from_t(), where_: None, group: Group::By(vec![tcol("id")]), having: Some(h) }
    } else {
        let mut keys = vec![tcol("id")];
        keys.extend(refs.iter().map(|n| tcol(n)));
        Select { distinct: false, items: vec![id_item()], from: from_t(), where_: None, group: Group::By(keys), having: Some(e_plain.clone()) }
    };
    out.push(mk(if c.having_minmax && !has_bool_col { "having_minmax" } else { "having_keys" }, Query::select(having)));
    let join = |kind: JoinKind| From::Join {
        l: Box::new(From::Table { name: "t".into(), alias: None }),
        r: Box::new(From::Table { name: "o".into(), alias: None }),
        kind,
        on: Some(c.expr.clone()),
    };
    // WHERE above an outer join: the null-extended rows (all t columns NULL) meet the tree
    if base.tables.len() >= 3 {
        let f = From::Join {
            l: Box::new(From::Table { name: "o2".into(), alias: None }),
            r: Box::new(From::Table { name: "t".into(), alias: None }),
            kind: JoinKind::Left,
            on: Some(Expr::eq(Expr::qcol("o2", "j"), tcol("id"))),
        };
        out.push(mk(
            "above_left",
            Query::select(Select::simple(vec![Item::Expr(Expr::qcol("o2", "j"), Some("j".into())), id_item()], vec![f], Some(e_plain.clone()))),
        ));
    }
    out.push(mk("inner", Query::select(Select::simple(vec![id_item()], vec![join(JoinKind::Inner)], None))));
    out.push(mk(
        "left",
        Query::select(Select::simple(vec![id_item(), Item::Expr(Expr::qcol("o", "k"), Some("k".into()))], vec![join(JoinKind::Left)], None)),
    ));
    out
}

struct Tvl;

impl Check for Tvl {
    type Case = TvlCase;
    fn name(&self) -> &'static str {
        "tvl_placements"
    }
    fn rule(&self) -> &'static str {
        "for some row of the cross-product table a boolean sub-result is NULL and null-strict (non-Kleene) AND/OR/BETWEEN/IN evaluation would keep/drop that row differently from SQL three-valued logic; and the engine answered at least the WHERE placement"
    }
    fn cases(&self, tier: Tier) -> u32 {
        tier.pick(1500, 60_000)
    }
    fn max_shrink_iters(&self) -> u32 {
        1500
    }
    fn strategy(&self, tier: Tier) -> BoxedStrategy<TvlCase> {
        tvl_strategy(tier)
    }
    fn test(&self, c: &TvlCase, obs: &mut Obs) -> Verdict {
        let t = &c.sql_case.tables[0];
        let e_plain = subst_o(&c.expr);
        for f in &c.sql_case.features {
            obs.label(format!("feat:{}", f));
        }
        obs.label(format!("rows:{}", (t.rows.len() / 50) * 50));
        // ---- independent evaluation: Kleene and null-strict
        let mut kept: Vec<i64> = vec![];
        let mut verdict_differs = false;
        let mut value_differs = false;
        let mut any_null_sub = false;
        let mut own_ok = true;
        for r in &t.rows {
            let row = Row { cols: &t.cols, vals: r };
            let mut ns = false;
            let k = ev(&e_plain, &row, Logic::Kleene, &mut ns);
            let mut ns2 = false;
            let s = ev(&e_plain, &row, Logic::Strict, &mut ns2);
            match (k, s) {
                (Ok(k), Ok(s)) => {
                    let (k, s) = match (b3(&k), b3(&s)) {
                        (Ok(k), Ok(s)) => (k, s),
                        _ => {
                            own_ok = false;
                            break;
                        }
                    };
                    if k == Some(true) {
                        if let Value::Int(i) = r[0] {
                            kept.push(i);
                        }
                    }
                    any_null_sub |= ns;
                    if ns && (k == Some(true)) != (s == Some(true)) {
                        verdict_differs = true;
                    }
                    if ns && k != s {
                        value_differs = true;
                    }
                }
                _ => {
                    own_ok = false;
                    break;
                }
            }
        }
        if !own_ok {
            // -0.0 or a bare NULL where a boolean is required etc.: refsql decides (it discards)
            obs.label("own_eval:err");
        }
        if any_null_sub {
            obs.label("null_sub_result");
        }
        if verdict_differs {
            obs.label("strict_differs:verdict");
        }
        if value_differs {
            obs.label("strict_differs:value");
        }

        // ---- oracle self-check on the WHERE placement
        if own_ok {
            match Db::new(&c.sql_case.tables).run(&c.sql_case.query) {
                Ok(a) => {
                    let mut ids: Vec<i64> = a.rows.iter().filter_map(|r| if let Value::Int(i) = r[0] { Some(i) } else { None }).collect();
                    ids.sort();
                    let mut mine = kept.clone();
                    mine.sort();
                    if ids != mine {
                        return Verdict::Fail(format!(
                            "ORACLE SELF-CHECK: refsql and the module's own evaluator disagree on the kept ids (harness bug, not an engine defect)\n sql: {}\n refsql: {:?}\n own: {:?}",
                            c.sql_case.query.sql(),
                            ids,
                            mine
                        ));
                    }
                }
                Err(_) => {}
            }
        }

        // ---- the five placements
        let mut worst: Option<Verdict> = None;
        let mut discards = 0;
        let mut where_answered = false;
        let pls = placements(c);
        let npl = pls.len();
        for p in pls {
            let mut o2 = Obs::default();
            let out = judge(&p.case, &mut o2, 0.0, tvl_classify);
            for l in o2.labels {
                if !l.starts_with("feat:") {
                    obs.label(format!("{}:{}", p.name, l));
                }
            }
            if out.engine_rows.is_none() && !matches!(out.verdict, Verdict::Discard(_)) {
                obs.label(format!("{}:err:{}", p.name, err_class(&p.case)));
            }
            if p.name == "where" {
                if let Some(s) = o2.sample {
                    obs.sample(s);
                }
                where_answered = out.engine_rows.is_some();
                if where_answered {
                    let ctx = mem_context(&p.case);
                    match engine_compiles_filter(&ctx, &p.case.query.sql()) {
                        Some(true) => obs.label("where:compiled_predicate"),
                        Some(false) => obs.label("where:interpreted_predicate"),
                        None => obs.label("where:no_filter_in_plan"),
                    }
                }
            }
            match out.verdict {
                Verdict::Pass => {}
                Verdict::Discard(why) => {
                    discards += 1;
                    obs.label(format!("{}:discard:{}", p.name, why));
                }
                Verdict::Fail(m) => {
                    let m = format!("[placement {}] {}", p.name, m);
                    if !matches!(worst, Some(Verdict::Fail(_))) {
                        worst = Some(Verdict::Fail(m));
                    }
                }
                Verdict::Known { id, msg } => {
                    if worst.is_none() {
                        worst = Some(Verdict::Known { id, msg: format!("[placement {}] {}", p.name, msg) });
                    }
                }
            }
        }
        obs.nontrivial(verdict_differs && where_answered);
        match worst {
            Some(v) => v,
            None if discards == npl => Verdict::Discard("all placements outside the reference dialect".into()),
            None => Verdict::Pass,
        }
    }
}

// ---------------------------------------------------------------------------
// scalar expressions: NULL exactly where SQL says
// ---------------------------------------------------------------------------

fn gen_scalar(tape: Vec<u16>, cuts: Vec<usize>) -> SqlCase {
    let mut t = Tape::new(tape);
    let k = 1 + t.pick(4);
    let mut pool: Vec<usize> = (0..COLS.len()).collect();
    let mut chosen = vec![];
    for _ in 0..k {
        let i = t.pick(pool.len());
        chosen.push(pool.remove(i));
    }
    chosen.sort();
    let mut g = G { t, chosen: chosen.clone(), numeric_only: false, with_o: false, feats: BTreeSet::new() };
    let n_items = 1 + g.t.pick(3);
    let mut items = vec![id_item()];
    let mut exprs = vec![];
    for i in 0..n_items {
        let ty = match g.pick_col(|t| t != ColType::Bool) {
            Some(c) => COLS[c].ty,
            None => ColType::Int,
        };
        let depth = 1 + g.t.pick(3) as u32;
        let e = g.scalar(ty, depth);
        exprs.push(e.clone());
        items.push(Item::Expr(e, Some(format!("v{}", i))));
    }
    let mut feats: Vec<String> = g.feats.iter().map(|s| s.to_string()).collect();
    feats.push("place_scalar".into());
    let mut names: Vec<String> = vec![];
    for e in &exprs {
        for n in referenced_t_cols(e) {
            if !names.contains(&n) {
                names.push(n);
            }
        }
    }
    let used: Vec<usize> = {
        let u: Vec<usize> = chosen.iter().copied().filter(|c| names.iter().any(|n| n == COLS[*c].name)).collect();
        if u.is_empty() {
            chosen
        } else {
            u
        }
    };
    let tables = vec![build_t(&used), build_o()];
    let n = tables[0].rows.len();
    let cuts_t: Vec<usize> = cuts.iter().map(|c| c % (n + 1)).collect();
    SqlCase { tables, query: Query::select(Select::simple(items, from_t(), None)), cuts: vec![cuts_t, vec![]], features: feats }
}

struct ScalarNulls;
impl Check for ScalarNulls {
    type Case = SqlCase;
    fn name(&self) -> &'static str {
        "scalar_nulls"
    }
    fn rule(&self) -> &'static str {
        "some projected CASE/COALESCE/NULLIF/arithmetic expression is NULL for one row and non-NULL for another row of the cross-product table, and the engine answered"
    }
    fn cases(&self, tier: Tier) -> u32 {
        tier.pick(1200, 40_000)
    }
    fn max_shrink_iters(&self) -> u32 {
        1500
    }
    fn strategy(&self, _tier: Tier) -> BoxedStrategy<SqlCase> {
        (proptest::collection::vec(any::<u16>(), 0..120), proptest::collection::vec(0usize..400, 0..3)).prop_map(|(tape, cuts)| gen_scalar(tape, cuts)).boxed()
    }
    fn test(&self, c: &SqlCase, obs: &mut Obs) -> Verdict {
        let out = judge(c, obs, 0.0, tvl_classify);
        if out.engine_rows.is_none() && !matches!(out.verdict, Verdict::Discard(_)) {
            obs.label(format!("err:{}", err_class(c)));
        }
        // NULL-ness varies over the rows of some projected expression
        let mut varies = false;
        if let Ok(a) = Db::new(&c.tables).run(&c.query) {
            let w = a.cols.len();
            for j in 1..w {
                let nulls = a.rows.iter().filter(|r| r[j].is_null()).count();
                if nulls > 0 && nulls < a.rows.len() {
                    varies = true;
                }
            }
        }
        obs.nontrivial(varies && out.engine_rows.is_some());
        out.verdict
    }
}

pub fn property() -> Property {
    let _ = refsql::truth;
    Property {
        id: "C02",
        level: "exploration",
        assumptions: &[
            "the reference evaluator refsql implements SQL three-valued logic (cross-checked against SQLite; additionally cross-checked per case against this module's own row evaluator)",
            "an engine error is an allowed outcome (e.g. a bare NULL literal as a boolean operand is rejected by the engine's type check); only wrong answers are violations",
            "statements producing -0.0 are discarded (engine-defined)",
        ],
        checks: vec![Box::new(Tvl), Box::new(ScalarNulls)],
    }
}
