//! C02 — not implemented yet.
use super::Property;

pub fn property() -> Property {
    Property { id: "C02", level: "exploration", assumptions: &[], checks: vec![] }
}
