//! C29 — not implemented yet.
use super::Property;

pub fn property() -> Property {
    Property { id: "C29", level: "exploration", assumptions: &[], checks: vec![] }
}
