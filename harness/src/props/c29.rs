//! C29 — No SQL input crashes or hangs the engine.
//!
//! Every statement is executed in a *worker sub-process* (crash isolation: a
//! stack overflow or abort kills the worker, not the check). The parent keeps
//! one long-lived worker per runner thread, speaks a line protocol with it and
//! enforces a per-statement watchdog; a worker that dies or stalls is
//! respawned and the statement is re-run alone in a fresh worker with a much
//! larger budget before anything is reported.
//!
//! Sources of text: (1) grammar-generated valid statements, (2) the same,
//! *damaged* at token level (delete / duplicate / swap / splice), (3) hostile
//! shapes (deep nesting of parentheses, NOT, CASE, subqueries, long IN lists,
//! long AND/OR chains, huge LIMIT/OFFSET, megabyte literals, unusual tokens),
//! (4) every SQL string harvested from the repository's own tests and sources
//! (`corpus/sql_corpus.txt`) and the 22 TPC-H queries, plain and damaged.
//! The schema: generated small tables r/s/u plus the TPC-H tables at SF 0.001.
//!
//! Oracle: the call returns Ok/Err — never a panic (caught in the worker and
//! reported with its message/location), never a worker death (abort, stack
//! overflow, OOM kill), never a hang (10 s watchdog, confirmed alone with 90 s).
use super::Property;
use crate::data::*;
use crate::runner::*;
use crate::sqlgen::*;
use proptest::prelude::*;
use serde::{Deserialize, Serialize};
use std::cell::RefCell;
use std::io::{BufRead, BufReader, Write};
use std::process::{Child, Command, Stdio};
use std::sync::mpsc::{channel, Receiver};
use std::time::Duration;

#[derive(Clone, Debug, Serialize, Deserialize)]
pub struct CrashCase {
    pub tables: Vec<Table>,
    pub sql: String,
    pub source: String,
}

// ---------------------------------------------------------------------------
// worker side
// ---------------------------------------------------------------------------

static LAST_PANIC: std::sync::Mutex<String> = std::sync::Mutex::new(String::new());

pub fn worker(_args: &[String]) {
    std::panic::set_hook(Box::new(|info| {
        let loc = info.location().map(|l| format!("{}:{}", l.file(), l.line())).unwrap_or_default();
        let msg = if let Some(s) = info.payload().downcast_ref::<&str>() {
            s.to_string()
        } else if let Some(s) = info.payload().downcast_ref::<String>() {
            s.clone()
        } else {
            "non-string payload".into()
        };
        *LAST_PANIC.lock().unwrap() = format!("{} @ {}", msg, loc);
    }));
    let stdin = std::io::stdin();
    let mut out = std::io::stdout();
    let mut ctx: Option<(u64, query_engine::ExecutionContext)> = None;
    for line in stdin.lock().lines() {
        let line = match line {
            Ok(l) => l,
            Err(_) => break,
        };
        let req: serde_json::Value = match serde_json::from_str(&line) {
            Ok(v) => v,
            Err(_) => continue,
        };
        let tables: Vec<Table> = serde_json::from_value(req["tables"].clone()).unwrap_or_default();
        let sql = req["sql"].as_str().unwrap_or("").to_string();
        let key = hash_json(&req["tables"]);
        if ctx.as_ref().map(|(k, _)| *k != key).unwrap_or(true) {
            let mut c = query_engine::ExecutionContext::new();
            // TPC-H tables at a tiny scale so harvested queries reach execution
            let mut g = query_engine::tpch::TpchGenerator::new(0.001);
            g.generate_all(&mut c);
            for t in &tables {
                crate::engine::register_mem(&mut c, t, &[t.rows.len() / 2]);
            }
            ctx = Some((key, c));
        }
        let c = &ctx.as_ref().unwrap().1;
        *LAST_PANIC.lock().unwrap() = String::new();
        let r = std::panic::catch_unwind(std::panic::AssertUnwindSafe(|| crate::engine::block_on(c.sql(&sql))));
        let reply = match r {
            Ok(Ok(q)) => serde_json::json!({"status": "ok", "rows": q.row_count}),
            Ok(Err(e)) => {
                let m = e.to_string();
                let class = m.split(':').next().unwrap_or("").chars().take(40).collect::<String>();
                // a panic on an engine thread that the engine converted into an error
                let lp = LAST_PANIC.lock().unwrap().clone();
                if lp.is_empty() {
                    serde_json::json!({"status": "err", "class": class})
                } else {
                    serde_json::json!({"status": "panic", "msg": lp, "surfaced_as": class})
                }
            }
            Err(_) => serde_json::json!({"status": "panic", "msg": LAST_PANIC.lock().unwrap().clone()}),
        };
        let _ = writeln!(out, "{}", reply);
        let _ = out.flush();
    }
}

// ---------------------------------------------------------------------------
// parent side: worker handles
// ---------------------------------------------------------------------------

struct Handle {
    child: Child,
    rx: Receiver<String>,
}
impl Handle {
    fn spawn() -> Handle {
        let exe = std::env::current_exe().expect("current_exe");
        let mut child = Command::new(exe)
            .args(["--worker", "c29"])
            .stdin(Stdio::piped())
            .stdout(Stdio::piped())
            .stderr(Stdio::null())
            .spawn()
            .expect("spawn worker");
        let stdout = child.stdout.take().unwrap();
        let (tx, rx) = channel();
        std::thread::spawn(move || {
            for l in BufReader::new(stdout).lines() {
                match l {
                    Ok(l) => {
                        if tx.send(l).is_err() {
                            break;
                        }
                    }
                    Err(_) => break,
                }
            }
        });
        Handle { child, rx }
    }
    /// Ok(reply json) | Err("died") | Err("timeout")
    fn ask(&mut self, c: &CrashCase, timeout: Duration) -> Result<serde_json::Value, &'static str> {
        let req = serde_json::json!({"tables": c.tables, "sql": c.sql});
        let stdin = self.child.stdin.as_mut().unwrap();
        if writeln!(stdin, "{}", req).is_err() || stdin.flush().is_err() {
            return Err("died");
        }
        match self.rx.recv_timeout(timeout) {
            Ok(l) => serde_json::from_str(&l).map_err(|_| "died"),
            Err(std::sync::mpsc::RecvTimeoutError::Timeout) => Err("timeout"),
            Err(std::sync::mpsc::RecvTimeoutError::Disconnected) => Err("died"),
        }
    }
    fn kill(&mut self) {
        let _ = self.child.kill();
        let _ = self.child.wait();
    }
}
impl Drop for Handle {
    fn drop(&mut self) {
        self.kill();
    }
}

thread_local! {
    static WORKER: RefCell<Option<Handle>> = const { RefCell::new(None) };
}

fn run_in_worker(c: &CrashCase, timeout: Duration) -> Result<serde_json::Value, &'static str> {
    WORKER.with(|w| {
        let mut w = w.borrow_mut();
        if w.is_none() {
            *w = Some(Handle::spawn());
        }
        let r = w.as_mut().unwrap().ask(c, timeout);
        if r.is_err() {
            // dead or stalled: never reuse it
            *w = None;
        }
        r
    })
}

fn run_alone(c: &CrashCase, timeout: Duration) -> (Result<serde_json::Value, &'static str>, Option<i32>) {
    let mut h = Handle::spawn();
    let r = h.ask(c, timeout);
    let code = if r.is_err() {
        std::thread::sleep(Duration::from_millis(50));
        h.child.try_wait().ok().flatten().and_then(|s| {
            use std::os::unix::process::ExitStatusExt;
            s.signal().map(|x| -x).or(s.code())
        })
    } else {
        None
    };
    (r, code)
}

// ---------------------------------------------------------------------------
// known findings (panic signatures)
// ---------------------------------------------------------------------------

/// (id, substrings that must ALL occur in "message @ file:line") — file names,
/// not line numbers, so unrelated edits do not move a signature.
pub const PANIC_SIGS: &[(&str, &[&str])] = &[
    // SpillableHashJoin probe indexes build_key_arrays with a stale build-batch id
    // (seen with an IN/EXISTS subquery predicate above a join)
    ("panic-hashjoin-probe-index-oob", &["index out of bounds", "src/physical/operators/hash_join.rs"]),
];

fn classify_panic(msg: &str) -> Option<&'static str> {
    PANIC_SIGS.iter().find(|(_, pats)| pats.iter().all(|p| msg.contains(p))).map(|(id, _)| *id)
}

/// depth of directly nested EXISTS( … EXISTS( … )) in the text
fn exists_nesting(sql: &str) -> usize {
    sql.to_uppercase().matches("EXISTS (SELECT").count().max(sql.to_uppercase().matches("EXISTS(SELECT").count())
}

// ---------------------------------------------------------------------------
// generators
// ---------------------------------------------------------------------------

fn tokens(sql: &str) -> Vec<String> {
    let mut out = vec![];
    let mut cur = String::new();
    let mut in_str = false;
    for ch in sql.chars() {
        if in_str {
            cur.push(ch);
            if ch == '\'' {
                in_str = false;
                out.push(std::mem::take(&mut cur));
            }
            continue;
        }
        if ch == '\'' {
            if !cur.is_empty() {
                out.push(std::mem::take(&mut cur));
            }
            cur.push(ch);
            in_str = true;
        } else if ch.is_alphanumeric() || ch == '_' || ch == '.' {
            cur.push(ch);
        } else {
            if !cur.is_empty() {
                out.push(std::mem::take(&mut cur));
            }
            if !ch.is_whitespace() {
                out.push(ch.to_string());
            }
        }
    }
    if !cur.is_empty() {
        out.push(cur);
    }
    out
}

const SPLICE: &[&str] = &[
    "(", ")", ",", "SELECT", "FROM", "WHERE", "GROUP BY", "ORDER BY", "HAVING", "JOIN", "ON", "UNION", "ALL", "NOT", "NULL", "IN", "EXISTS", "AND", "OR",
    "CASE", "WHEN", "THEN", "END", "AS", "*", "-", "/", "%", "0", "-1", "9223372036854775808", "1e400", "''", "'", "\"", ";", "--", "/*", "OVER", "PARTITION BY",
    "ROWS BETWEEN", "LIMIT", "OFFSET", "DISTINCT", "nosuch", "r.nosuch", "COUNT(", "SUM(DISTINCT", "CAST(", "AS BIGINT)", "INTERVAL '1' DAY", "DATE 'x'", "[1,2]", "::", "||",
    "LATERAL", "WITH RECURSIVE", "VALUES", "GROUPING SETS", "ROLLUP", "CUBE", "NULLS FIRST", "LIKE", "ESCAPE", "BETWEEN", "IS", "TRUE", "\u{0}", "é", "\u{202e}",
];

fn damage(sql: &str, t: &mut Tape) -> String {
    let mut toks = tokens(sql);
    let n = 1 + t.pick(4);
    for _ in 0..n {
        if toks.is_empty() {
            break;
        }
        let i = t.pick(toks.len());
        match t.pick(6) {
            0 => {
                toks.remove(i);
            }
            1 => {
                let x = toks[i].clone();
                toks.insert(i, x);
            }
            2 => {
                let j = t.pick(toks.len());
                toks.swap(i, j);
            }
            3 => toks.insert(i, SPLICE[t.pick(SPLICE.len())].to_string()),
            4 => toks[i] = SPLICE[t.pick(SPLICE.len())].to_string(),
            _ => toks.truncate(i),
        }
    }
    toks.join(" ")
}

fn hostile(t: &mut Tape) -> String {
    let depth_choices = [3usize, 17, 60, 150, 400, 1200, 5000];
    let d = depth_choices[t.pick(depth_choices.len())];
    match t.pick(14) {
        0 => format!("SELECT {}1{} FROM r", "(".repeat(d), ")".repeat(d)),
        1 => format!("SELECT * FROM r WHERE {} a = 1", "NOT ".repeat(d)),
        2 => format!("SELECT {} 1 {} FROM r", "CASE WHEN a = 1 THEN ".repeat(d.min(1500)), "ELSE 0 END ".repeat(d.min(1500))),
        3 => {
            let mut s = String::from("SELECT a FROM r");
            for _ in 0..d.min(300) {
                s = format!("SELECT a FROM ({}) AS x", s);
            }
            s
        }
        4 => format!("SELECT * FROM r WHERE a IN ({})", (0..d.min(5000)).map(|i| i.to_string()).collect::<Vec<_>>().join(",")),
        5 => format!("SELECT * FROM r WHERE {}", (0..d.min(3000)).map(|i| format!("a = {}", i)).collect::<Vec<_>>().join(if t.chance(50) { " OR " } else { " AND " })),
        6 => format!("SELECT * FROM r ORDER BY a LIMIT {} OFFSET {}", ["0", "18446744073709551615", "9223372036854775807", "-1", "1e10", "NULL"][t.pick(6)], ["0", "18446744073709551615", "-5", "9223372036854775807"][t.pick(4)]),
        7 => format!("SELECT '{}' FROM r", "x".repeat([10usize, 1000, 100_000, 2_000_000][t.pick(4)])),
        8 => {
            let mut s = String::from("a");
            for _ in 0..d.min(2000) {
                s = format!("({} + 1)", s);
            }
            format!("SELECT {} FROM r", s)
        }
        9 => format!("SELECT a FROM r WHERE a = (SELECT {} a FROM r AS q LIMIT 1)", "(SELECT ".repeat(0)),
        10 => {
            let mut s = String::from("SELECT 1");
            // planning time grows ~2.3x per nesting level (open finding
            // nested-exists-exponential-time, witness = 17 levels): generated cases stay
            // at <= 5 levels so that one statement does not eat the whole budget
            for _ in 0..d.min(5) {
                s = format!("SELECT 1 WHERE EXISTS ({})", s);
            }
            s
        }
        11 => (0..d.min(600)).map(|_| "SELECT a FROM r".to_string()).collect::<Vec<_>>().join(" UNION ALL "),
        12 => format!("WITH {} SELECT * FROM c0", (0..d.min(300)).map(|i| format!("c{} AS (SELECT a FROM {})", i, if i + 1 < d.min(300) { format!("c{}", i + 1) } else { "r".into() })).collect::<Vec<_>>().join(", ")),
        _ => format!("SELECT {} FROM r", (0..d.min(3000)).map(|i| format!("a AS c{}", i)).collect::<Vec<_>>().join(", ")),
    }
}

/// Text the byte-oriented paths of string functions trip over: multi-byte
/// characters at both ends, combining marks, 4-byte code points, pattern and
/// JSON / URL metacharacters.
const ODD_TEXT: &[&str] = &[
    "", "a", "abc", "é", "café", "naïve café", "日本語", "日本語テキスト", "a日b", "😀", "x😀y😀", "e\u{301}", "ß", "İ", "ǅ", "\u{feff}a", "  pad  ", "%", "a%b_c", "(", "[a-", "\\", "*", "a|b", "(?P<n>x)", "$1", "{\"a\":[1,2,{\"b\":null}]}", "[1,2", "http://u:p@h.example:8080/p/q?k=v&k2=é#f", "://", "2024-02-30", "0000-00-00", "12:61:00", "1e999", "-0", "9223372036854775808", "1,2,3", ",", "aaaaaaaaaaaaaaaaaaaaaaaaaaaaaaaaaaaaaaaa",
];
const ODD_NUMS: &[&str] = &["0", "1", "2", "3", "-1", "-2", "5", "7", "16", "36", "37", "64", "100", "255", "256", "-2147483648", "2147483647", "2147483648", "9223372036854775807", "-9223372036854775807", "0.5", "-0.5", "1e308", "-1e308", "1e-320", "100000"];

fn function_names() -> &'static Vec<&'static str> {
    static C: std::sync::OnceLock<Vec<&'static str>> = std::sync::OnceLock::new();
    C.get_or_init(|| include_str!("../../corpus/function_names.txt").lines().map(|s| s.trim()).filter(|s| !s.is_empty()).collect())
}

fn sql_text(s: &str) -> String {
    format!("'{}'", s.replace('\'', "''"))
}

/// One call of a function the binder knows, with 0..4 arguments drawn from
/// columns of the generated tables, odd text, edge numbers, NULL, dates, arrays
/// and (one level of) nested calls; placed in the SELECT list, a WHERE
/// predicate, a GROUP BY key or an aggregate argument.
fn function_call(t: &mut Tape, tables: &[Table], depth: u32) -> String {
    let names = function_names();
    let f = names[t.pick(names.len())];
    let n_args = [1usize, 2, 2, 3, 1, 0, 4][t.pick(7)];
    let mut args = vec![];
    for _ in 0..n_args {
        let a = match t.pick(12) {
            0 | 1 | 2 => {
                let tb = &tables[0];
                let c = &tb.cols[t.pick(tb.cols.len())];
                c.name.clone()
            }
            3 | 4 | 5 => sql_text(ODD_TEXT[t.pick(ODD_TEXT.len())]),
            6 | 7 => ODD_NUMS[t.pick(ODD_NUMS.len())].to_string(),
            8 => "NULL".to_string(),
            9 => ["DATE '2024-02-29'", "DATE '0001-01-01'", "DATE '9999-12-31'", "TRUE", "FALSE", "'day'", "'month'", "'%Y-%m-%d'"][t.pick(8)].to_string(),
            10 => ["ARRAY[1,2,3]", "ARRAY[]", "ARRAY['é','日本']", "ARRAY[NULL]", "ARRAY[1.5, NULL]"][t.pick(5)].to_string(),
            _ if depth == 0 => function_call(t, tables, 1),
            _ => sql_text(ODD_TEXT[t.pick(ODD_TEXT.len())]),
        };
        args.push(a);
    }
    format!("{}({})", f, args.join(", "))
}

fn function_statement(t: &mut Tape, tables: &mut Vec<Table>) -> String {
    // put odd text into the string cells of the first table so that column
    // arguments carry it too (the generated tables are ASCII-only)
    if let Some(tb) = tables.first_mut() {
        for row in tb.rows.iter_mut() {
            for v in row.iter_mut() {
                if let Value::Str(_) = v {
                    if t.chance(60) {
                        *v = Value::Str(ODD_TEXT[t.pick(ODD_TEXT.len())].to_string());
                    }
                }
            }
        }
    }
    let name = tables[0].name.clone();
    let call = function_call(t, tables, 0);
    match t.pick(6) {
        0 | 1 | 2 => format!("SELECT {} FROM {}", call, name),
        3 => format!("SELECT COUNT(*) FROM {} WHERE {} IS NOT NULL", name, call),
        4 => format!("SELECT {} AS k, COUNT(*) FROM {} GROUP BY {}", call, name, call),
        _ => format!("SELECT {}", call),
    }
}

fn corpus() -> &'static Vec<String> {
    static C: std::sync::OnceLock<Vec<String>> = std::sync::OnceLock::new();
    C.get_or_init(|| {
        let mut v: Vec<String> = include_str!("../../corpus/sql_corpus.txt").lines().map(|s| s.to_string()).filter(|s| !s.trim().is_empty()).collect();
        for q in 1..=22 {
            if let Some(s) = query_engine::tpch::get_query(q) {
                v.push(s.to_string());
            }
        }
        v
    })
}

fn case_strategy() -> BoxedStrategy<CrashCase> {
    let mut tp = TableProfile::default();
    tp.max_rows = 6;
    tp.min_tables = 3;
    (tables_strategy(tp), proptest::collection::vec(any::<u16>(), 0..260))
        .prop_map(|(mut tables, tape)| {
            let mut t = Tape::new(tape.clone());
            let kind = t.pick(13);
            let rest: Vec<u16> = tape.iter().skip(1).copied().collect();
            let (sql, source) = match kind {
                0 | 1 | 2 => {
                    let mut p = Profile::full();
                    p.semi_anti_joins = true;
                    let cat = Catalog::of(&tables);
                    let mut g = Gen::new(rest, &p);
                    let (q, _) = g.query(&cat, 2);
                    (q.sql(), "generated")
                }
                3 | 4 | 5 => {
                    let p = Profile::full();
                    let cat = Catalog::of(&tables);
                    let mut g = Gen::new(rest, &p);
                    let (q, _) = g.query(&cat, 2);
                    (damage(&q.sql(), &mut t), "generated_damaged")
                }
                6 => (hostile(&mut t), "hostile"),
                7 => {
                    let c = corpus();
                    (c[t.pick(c.len())].clone(), "corpus")
                }
                10 | 11 | 12 => (function_statement(&mut t, &mut tables), "function_calls"),
                _ => {
                    let c = corpus();
                    let s = c[t.pick(c.len())].clone();
                    (damage(&s, &mut t), "corpus_damaged")
                }
            };
            CrashCase { tables, sql, source: source.to_string() }
        })
        .boxed()
}

pub struct NoCrash;
impl Check for NoCrash {
    type Case = CrashCase;
    fn name(&self) -> &'static str {
        "no_crash_no_hang"
    }
    fn rule(&self) -> &'static str {
        "the statement got past the parser (the engine answered Ok, or failed with a non-parse error class)"
    }
    fn cases(&self, tier: Tier) -> u32 {
        tier.pick(6000, 400_000)
    }
    fn workers(&self, _t: Tier) -> usize {
        12
    }
    fn max_shrink_iters(&self) -> u32 {
        200
    }
    fn exhaustive(&self, _t: Tier) -> Option<Box<dyn Iterator<Item = CrashCase> + '_>> {
        // the whole harvested corpus, undamaged, every run
        let tables = vec![
            Table { name: "r".into(), cols: vec![Column { name: "a".into(), ty: ColType::Int }, Column { name: "b".into(), ty: ColType::Str }], rows: vec![vec![Value::Int(1), Value::Str("x".into())], vec![Value::Null, Value::Null]] },
            Table { name: "s".into(), cols: vec![Column { name: "a".into(), ty: ColType::Int }, Column { name: "b".into(), ty: ColType::Double }], rows: vec![vec![Value::Int(1), Value::Double(0.5)]] },
            Table { name: "u".into(), cols: vec![Column { name: "a".into(), ty: ColType::Date }, Column { name: "b".into(), ty: ColType::Bool }], rows: vec![] },
        ];
        Some(Box::new(corpus().iter().map(move |s| CrashCase { tables: tables.clone(), sql: s.clone(), source: "corpus".into() })))
    }
    fn strategy(&self, _tier: Tier) -> BoxedStrategy<CrashCase> {
        case_strategy()
    }
    fn test(&self, c: &CrashCase, obs: &mut Obs) -> Verdict {
        obs.label(format!("source:{}", c.source));
        obs.sample(serde_json::json!({"source": c.source, "sql": c.sql.chars().take(300).collect::<String>()}));
        let first = run_in_worker(c, Duration::from_secs(10));
        let reply = match first {
            Ok(r) => r,
            Err(kind) => {
                // confirm alone, fresh process, generous budget
                let (again, code) = run_alone(c, Duration::from_secs(90));
                match again {
                    Ok(r) => {
                        obs.label(format!("unconfirmed_{}", kind));
                        r
                    }
                    Err("timeout") if exists_nesting(&c.sql) >= 12 => {
                        return Verdict::Known {
                            id: "nested-exists-exponential-time".into(),
                            msg: format!("HANG: {} nested EXISTS subqueries did not finish within 90 s (time roughly x2.3 per level)", exists_nesting(&c.sql)),
                        }
                    }
                    Err("timeout") => {
                        return Verdict::Fail(format!(
                            "HANG: no answer within 90 s when run alone in a fresh process (first attempt: {})\n sql ({} chars): {}",
                            kind,
                            c.sql.len(),
                            c.sql.chars().take(2000).collect::<String>()
                        ))
                    }
                    Err(_) => {
                        let how = match code {
                            Some(-11) => "SIGSEGV (stack overflow)".to_string(),
                            Some(-6) => "SIGABRT".to_string(),
                            Some(-9) => "SIGKILL".to_string(),
                            Some(x) => format!("exit status/signal {}", x),
                            None => "unknown".into(),
                        };
                        let msg = format!(
                            "CRASH: the worker process died ({}) executing this statement alone\n sql ({} chars): {}",
                            how,
                            c.sql.len(),
                            c.sql.chars().take(2000).collect::<String>()
                        );
                        let sig = format!("process-death:{}", how);
                        return match classify_panic(&sig) {
                            Some(id) => Verdict::Known { id: id.into(), msg },
                            None => Verdict::Fail(msg),
                        };
                    }
                }
            }
        };
        match reply["status"].as_str().unwrap_or("") {
            "ok" => {
                obs.label("stage:executed");
                obs.nontrivial(true);
                Verdict::Pass
            }
            "err" => {
                let class = reply["class"].as_str().unwrap_or("").to_string();
                let parse = class.to_lowercase().contains("pars") || class.to_lowercase().contains("sql");
                obs.label(format!("err:{}", class));
                obs.nontrivial(!parse);
                Verdict::Pass
            }
            "panic" => {
                let m = reply["msg"].as_str().unwrap_or("").to_string();
                let msg = format!("PANIC: {}\n sql ({} chars): {}", m, c.sql.len(), c.sql.chars().take(2000).collect::<String>());
                match classify_panic(&m) {
                    Some(id) => Verdict::Known { id: id.into(), msg },
                    None => Verdict::Fail(msg),
                }
            }
            other => Verdict::Fail(format!("worker protocol error: {:?}", other)),
        }
    }
}

/// The *function grid*: every function name the binder knows, called with
/// every argument tuple of arity 0..2 over a 9-value pool and of arity 3 over a
/// 6-value pool (a string column holding multi-byte text, an integer column
/// with NULL and extremes, multi-byte / ASCII literals, 1, -1, i64::MAX, 0.5,
/// NULL). Enumerated completely on every run, consumed by 12 threads.
pub struct FunctionGrid;

fn grid_tables() -> Vec<Table> {
    vec![Table {
        name: "r".into(),
        cols: vec![Column { name: "a".into(), ty: ColType::Int }, Column { name: "b".into(), ty: ColType::Str }],
        rows: vec![
            vec![Value::Int(1), Value::Str("café".into())],
            vec![Value::Null, Value::Str("x😀y".into())],
            vec![Value::Int(-3), Value::Null],
            vec![Value::Int(i64::MAX), Value::Str("".into())],
            vec![Value::Int(40), Value::Str("日本語テキスト".into())],
        ],
    }]
}

const GRID_POOL: &[&str] = &["b", "a", "'é日'", "'abc'", "1", "-1", "9223372036854775807", "0.5", "NULL"];
const GRID_POOL3: &[&str] = &["b", "'a日é'", "2", "-1", "9223372036854775807", "NULL"];

fn grid_statements() -> impl Iterator<Item = String> {
    function_names().iter().flat_map(|f| {
        let mut v = vec![format!("SELECT {}() FROM r", f)];
        for x in GRID_POOL {
            v.push(format!("SELECT {}({}) FROM r", f, x));
            for y in GRID_POOL {
                v.push(format!("SELECT {}({}, {}) FROM r", f, x, y));
            }
        }
        for x in GRID_POOL3 {
            for y in GRID_POOL3 {
                for z in GRID_POOL3 {
                    v.push(format!("SELECT {}({}, {}, {}) FROM r", f, x, y, z));
                }
            }
        }
        v.into_iter()
    })
}

impl Check for FunctionGrid {
    type Case = CrashCase;
    fn name(&self) -> &'static str {
        "function_grid"
    }
    fn rule(&self) -> &'static str {
        "the call got past the binder (the engine answered Ok, or failed with a non-parse, non-bind error class: the function's evaluator ran)"
    }
    fn cases(&self, _tier: Tier) -> u32 {
        0
    }
    fn exhaustive_workers(&self, _t: Tier) -> usize {
        12
    }
    fn exhaustive(&self, _t: Tier) -> Option<Box<dyn Iterator<Item = CrashCase> + '_>> {
        let tables = grid_tables();
        Some(Box::new(grid_statements().map(move |sql| CrashCase { tables: tables.clone(), sql, source: "function_grid".into() })))
    }
    fn strategy(&self, _tier: Tier) -> BoxedStrategy<CrashCase> {
        case_strategy()
    }
    fn test(&self, c: &CrashCase, obs: &mut Obs) -> Verdict {
        NoCrash.test(c, obs)
    }
}

pub fn property() -> Property {
    Property {
        id: "C29",
        level: "exploration",
        assumptions: &[
            "a hang is only reported after the statement also exceeds 90 s alone in a fresh process on tables of <= 6 rows + TPC-H SF 0.001",
            "engine panics are observed through a panic hook in the worker (also when the engine converted a panic on one of its threads into an error)",
        ],
        checks: vec![Box::new(NoCrash), Box::new(FunctionGrid)],
    }
}
