//! C28 — Each CTE reference yields that CTE's rows.
//!
//! Generator (own, focused; choice tape): 1–3 small tables; a statement with a
//! WITH clause of 1–3 CTEs (simple / filtered / joined / UNION ALL / COUNT(*)
//! bodies, later CTEs referencing earlier ones, sometimes named like a base
//! table, sometimes with a column list) whose body references the CTEs 1–3
//! times: joins (comma, INNER, LEFT, CROSS), self-joins of one CTE, UNION [ALL]
//! branches, `t.*`, and CTE references inside EXISTS / IN / scalar COUNT
//! subqueries in WHERE or in the SELECT list. Nested WITH clauses occur in
//! derived tables, CTE bodies, parenthesised set-operation branches and
//! subquery expressions; an inner WITH prefers to REUSE a name visible from
//! the enclosing scope, usually with a different body and column set.
//! All references are valid by construction against the *lexical* catalog.
//!
//! Oracles:
//!  1. `refsql` (lexical scoping: nearest enclosing definition wins);
//!  2. metamorphic: the statement with every CTE reference textually replaced
//!     by its definition as a derived table (no WITH left) must give the same
//!     rows — both statements through the engine. The harness first checks that
//!     the reference itself gives both texts the same answer.
//! An engine error (on either text) is an allowed outcome.
use super::Property;
use crate::data::*;
use crate::engine::run_sql;
use crate::refsql::Db;
use crate::runner::*;
use crate::sqlast::*;
use crate::sqlcheck::{fmt_tables, mem_context};
use crate::sqlgen::*;
use proptest::prelude::*;
use std::collections::HashMap;

#[path = "c24_util.rs"]
mod util;
use util::*;

#[path = "c28_shadow.rs"]
pub mod shadow;

// ---------------------------------------------------------------------------
// generator
// ---------------------------------------------------------------------------

#[derive(Clone, Debug)]
struct RelInfo {
    name: String,
    cols: Vec<(String, ColType)>,
    cte: bool,
    /// base relations joined once the relation is inlined
    flat: usize,
}

#[derive(Clone, Debug)]
struct SCol {
    rel: String,
    name: String,
    ty: ColType,
}
fn cx(c: &SCol) -> Expr {
    Expr::qcol(&c.rel, &c.name)
}

struct G {
    t: Tape,
    feats: Vec<&'static str>,
    seq: usize,
    max_depth: u32,
}

fn visible(cat: &[RelInfo]) -> Vec<RelInfo> {
    let mut out: Vec<RelInfo> = vec![];
    for r in cat.iter().rev() {
        if !out.iter().any(|x| x.name.eq_ignore_ascii_case(&r.name)) {
            out.push(r.clone());
        }
    }
    out.reverse();
    out
}

impl G {
    fn feat(&mut self, f: &'static str) {
        if !self.feats.contains(&f) {
            self.feats.push(f);
        }
    }
    fn fresh(&mut self, p: &str) -> String {
        self.seq += 1;
        format!("{}{}", p, self.seq)
    }
    fn lit(&mut self, ty: ColType) -> Expr {
        Expr::Lit(match ty {
            ColType::Int | ColType::Int32 => Value::Int(self.t.pick(5) as i64),
            ColType::Double => Value::Double((self.t.pick(9) as i64 - 4) as f64 * 0.25 + 0.0),
            ColType::Str => Value::Str(["a", "", "ab", "b"][self.t.pick(4)].to_string()),
            ColType::Date => Value::Date(10957 + self.t.pick(4) as i32 * 15),
            ColType::Bool => Value::Bool(self.t.pick(2) == 1),
        })
    }

    fn pick_rel(&mut self, cat: &[RelInfo], cte_pct: u32) -> RelInfo {
        let vis = visible(cat);
        let ctes: Vec<&RelInfo> = vis.iter().filter(|r| r.cte).collect();
        if !ctes.is_empty() && self.t.chance(cte_pct) {
            // most recent definitions first (0 → the nearest one)
            let i = self.t.pick(ctes.len());
            return ctes[ctes.len() - 1 - i].clone();
        }
        let i = self.t.pick(vis.len());
        vis[i].clone()
    }

    fn equi(&mut self, l: &[SCol], r: &[SCol]) -> Option<Expr> {
        let mut pairs = vec![];
        for a in l {
            for b in r {
                if a.ty == b.ty && a.ty != ColType::Double && a.ty != ColType::Bool {
                    pairs.push((a, b));
                }
            }
        }
        if pairs.is_empty() {
            return None;
        }
        let i = self.t.pick(pairs.len());
        Some(Expr::eq(cx(pairs[i].0), cx(pairs[i].1)))
    }

    fn simple_pred(&mut self, scope: &[SCol]) -> Expr {
        let c = scope[self.t.pick(scope.len())].clone();
        match self.t.pick(5) {
            0 => Expr::IsNull { e: Box::new(cx(&c)), neg: true },
            1 if c.ty != ColType::Bool => Expr::bin(cx(&c), BinOp::Le, self.lit(c.ty)),
            2 if c.ty != ColType::Bool => Expr::bin(cx(&c), BinOp::Ne, self.lit(c.ty)),
            3 if c.ty != ColType::Bool => Expr::bin(cx(&c), BinOp::Gt, self.lit(c.ty)),
            _ => Expr::eq(cx(&c), self.lit(c.ty)),
        }
    }

    /// WITH list; pushes the definitions onto `cat`.
    fn cte_list(&mut self, cat: &mut Vec<RelInfo>, depth: u32) -> Vec<Cte> {
        let n = 1 + self.t.pick(3);
        let mut out: Vec<Cte> = vec![];
        let outer_ctes: Vec<String> = visible(cat).iter().filter(|r| r.cte).map(|r| r.name.clone()).collect();
        let bases: Vec<String> = cat.iter().filter(|r| !r.cte).map(|r| r.name.clone()).collect();
        for _ in 0..n {
            let mut name = if depth > 0 && !outer_ctes.is_empty() && self.t.chance(65) {
                self.feat("name_reused_in_inner_scope");
                outer_ctes[self.t.pick(outer_ctes.len())].clone()
            } else if self.t.chance(8) {
                self.feat("cte_named_like_base_table");
                bases[self.t.pick(bases.len())].clone()
            } else {
                self.fresh("w")
            };
            if out.iter().any(|c| c.name == name) {
                name = self.fresh("w");
            }
            let nested = depth + 1 <= self.max_depth && self.t.chance(12);
            if nested {
                self.feat("with_in_cte_body");
            }
            let (q, mut cols, flat) = self.query(cat, depth + 1, nested, None);
            let col_list = if self.t.chance(3) {
                self.feat("cte_column_list");
                let names: Vec<String> = cols.iter().map(|_| self.fresh("k")).collect();
                for (c, n) in cols.iter_mut().zip(&names) {
                    c.0 = n.clone();
                }
                Some(names)
            } else {
                None
            };
            cat.push(RelInfo { name: name.clone(), cols, cte: true, flat });
            out.push(Cte { name, cols: col_list, q });
        }
        out
    }

    /// (query, output columns, flat relation count)
    fn query(&mut self, cat: &[RelInfo], depth: u32, with: bool, want: Option<&[ColType]>) -> (Query, Vec<(String, ColType)>, usize) {
        let mut cat: Vec<RelInfo> = cat.to_vec();
        let with_list = if with { self.cte_list(&mut cat, depth) } else { vec![] };
        let k = self.t.pick(10);
        let (body, out, flat) = if k >= 8 && (depth == 0 || with) {
            // UNION [ALL] of two or three selects
            let (s1, out, f1) = self.select(&cat, depth, want);
            let types: Vec<ColType> = out.iter().map(|(_, t)| *t).collect();
            let mut body = SetExpr::Select(Box::new(s1));
            let mut flat = f1;
            let n = 1 + self.t.pick(2);
            for _ in 0..n {
                let all = self.t.chance(70);
                self.feat(if all { "union_all" } else { "union" });
                let r = if depth < self.max_depth && self.t.chance(25) {
                    // parenthesised branch with its own WITH
                    self.feat("with_in_setop_branch");
                    let (q, _, f) = self.query(&cat, depth + 1, true, Some(&types));
                    flat = flat.max(f);
                    SetExpr::Nested(Box::new(q))
                } else {
                    let (s, _, f) = self.select(&cat, depth, Some(&types));
                    flat = flat.max(f);
                    SetExpr::Select(Box::new(s))
                };
                body = SetExpr::Op { op: SetOp::Union, all, l: Box::new(body), r: Box::new(r) };
            }
            (body, out, flat)
        } else {
            let (s, out, f) = self.select(&cat, depth, want);
            (SetExpr::Select(Box::new(s)), out, f)
        };
        let mut q = Query::of(body);
        q.with = with_list;
        (q, out, flat)
    }

    fn from_item(&mut self, cat: &[RelInfo], depth: u32) -> (From, Vec<SCol>, usize) {
        if depth < self.max_depth && self.t.chance(12) {
            self.feat("with_in_derived_table");
            let (q, out, flat) = self.query(cat, depth + 1, true, None);
            let alias = self.fresh("d");
            let cols = out.iter().map(|(n, t)| SCol { rel: alias.clone(), name: n.clone(), ty: *t }).collect();
            return (From::Derived { q: Box::new(q), alias, cols: None }, cols, flat);
        }
        let r = self.pick_rel(cat, 75);
        let alias = self.fresh("t");
        let cols = r.cols.iter().map(|(n, t)| SCol { rel: alias.clone(), name: n.clone(), ty: *t }).collect();
        (From::Table { name: r.name.clone(), alias: Some(alias) }, cols, r.flat)
    }

    /// EXISTS / IN / scalar-COUNT predicate over (preferably) a CTE
    fn subquery_pred(&mut self, cat: &[RelInfo], scope: &[SCol], depth: u32) -> Expr {
        let nested = depth < self.max_depth && self.t.chance(20);
        let mut cat2: Vec<RelInfo> = cat.to_vec();
        let with = if nested {
            self.feat("with_in_subquery");
            self.cte_list(&mut cat2, depth + 1)
        } else {
            vec![]
        };
        let r = self.pick_rel(&cat2, 85);
        let alias = self.fresh("x");
        let inner: Vec<SCol> = r.cols.iter().map(|(n, t)| SCol { rel: alias.clone(), name: n.clone(), ty: *t }).collect();
        let from = vec![From::Table { name: r.name.clone(), alias: Some(alias) }];
        let mut conds = vec![];
        if self.t.chance(25) {
            if let Some(e) = self.equi(&inner, scope) {
                self.feat("correlated");
                conds.push(e);
            }
        }
        if self.t.chance(30) {
            conds.push(self.simple_pred(&inner));
        }
        let where_ = conds.into_iter().reduce(Expr::and);
        let mk = |sel: Select, with: Vec<Cte>| {
            let mut q = Query::select(sel);
            q.with = with;
            Box::new(q)
        };
        match self.t.pick(3) {
            0 => {
                self.feat("exists");
                let sel = Select::simple(vec![Item::Expr(Expr::int(1), None)], from, where_);
                Expr::Exists { q: mk(sel, with), neg: self.t.chance(40) }
            }
            1 => {
                // pick an inner column and an outer column of the same type
                let mut pairs = vec![];
                for a in scope {
                    for b in &inner {
                        if a.ty == b.ty && a.ty != ColType::Double && a.ty != ColType::Bool {
                            pairs.push((a.clone(), b.clone()));
                        }
                    }
                }
                if pairs.is_empty() {
                    self.feat("exists");
                    let sel = Select::simple(vec![Item::Expr(Expr::int(1), None)], from, where_);
                    return Expr::Exists { q: mk(sel, with), neg: false };
                }
                let (a, b) = pairs[self.t.pick(pairs.len())].clone();
                let neg = self.t.chance(30);
                self.feat(if neg { "not_in_subquery" } else { "in_subquery" });
                let sel = Select::simple(vec![Item::Expr(cx(&b), None)], from, where_);
                Expr::InSub { e: Box::new(cx(&a)), q: mk(sel, with), neg }
            }
            _ => {
                self.feat("scalar_subquery");
                let sel = Select::simple(vec![Item::Expr(Expr::count_star(), None)], from, where_);
                let op = [BinOp::Ge, BinOp::Eq, BinOp::Lt][self.t.pick(3)];
                Expr::bin(Expr::Scalar(mk(sel, with)), op, Expr::int(self.t.pick(3) as i64))
            }
        }
    }

    fn select(&mut self, cat: &[RelInfo], depth: u32, want: Option<&[ColType]>) -> (Select, Vec<(String, ColType)>, usize) {
        let nfrom = match self.t.pick(10) {
            0..=3 => 1,
            4..=8 => 2,
            _ => 3,
        };
        let (mut cur, mut scope, mut flat) = self.from_item(cat, depth);
        let mut comma: Vec<From> = vec![];
        let mut conds: Vec<Expr> = vec![];
        let mut names_used: Vec<String> = vec![];
        if let From::Table { name, .. } = &cur {
            names_used.push(name.clone());
        }
        for _ in 1..nfrom {
            // keep most blocks at <= 2 flattened relations (open finding join-3way)
            let (f, cols, fl) = self.from_item(cat, depth);
            if flat + fl > 2 && !self.t.chance(12) {
                break;
            }
            if let From::Table { name, .. } = &f {
                if names_used.contains(name) {
                    self.feat("same_relation_twice_in_from");
                }
                names_used.push(name.clone());
            }
            flat += fl;
            let eq = self.equi(&scope, &cols);
            match (self.t.pick(5), eq) {
                (0, Some(e)) => {
                    self.feat("join_comma");
                    conds.push(e);
                    comma.push(std::mem::replace(&mut cur, f));
                }
                (1, Some(e)) | (4, Some(e)) => {
                    self.feat("join_inner");
                    cur = From::Join { l: Box::new(cur), r: Box::new(f), kind: JoinKind::Inner, on: Some(e) };
                }
                (2, Some(e)) => {
                    self.feat("join_left");
                    cur = From::Join { l: Box::new(cur), r: Box::new(f), kind: JoinKind::Left, on: Some(e) };
                }
                _ => {
                    self.feat("join_cross");
                    cur = From::Join { l: Box::new(cur), r: Box::new(f), kind: JoinKind::Cross, on: None };
                }
            }
            scope.extend(cols);
        }
        comma.push(cur);
        if self.t.chance(35) {
            self.feat("where");
            conds.push(self.simple_pred(&scope));
        }
        if self.t.chance(12) {
            conds.push(self.subquery_pred(cat, &scope, depth));
        }
        let where_ = conds.into_iter().reduce(Expr::and);

        let mut items = vec![];
        let mut out = vec![];
        match want {
            Some(types) => {
                for ty in types {
                    let cands: Vec<SCol> = scope.iter().filter(|c| c.ty == *ty).cloned().collect();
                    let e = if !cands.is_empty() && !self.t.chance(10) { cx(&cands[self.t.pick(cands.len())]) } else { self.lit(*ty) };
                    let a = self.fresh("c");
                    items.push(Item::Expr(e, Some(a.clone())));
                    out.push((a, *ty));
                }
            }
            None => {
                let k = self.t.pick(12);
                if k == 11 {
                    self.feat("count_star");
                    let a = self.fresh("c");
                    items.push(Item::Expr(Expr::count_star(), Some(a.clone())));
                    out.push((a, ColType::Int));
                } else if k == 10 && comma.len() == 1 && matches!(comma[0], From::Table { .. } | From::Derived { .. }) {
                    self.feat("qualified_star");
                    let rel = scope[0].rel.clone();
                    items.push(Item::QStar(rel));
                    for c in &scope {
                        out.push((c.name.clone(), c.ty));
                    }
                } else {
                    let n = 1 + self.t.pick(3);
                    for _ in 0..n {
                        let c = scope[self.t.pick(scope.len())].clone();
                        let a = self.fresh("c");
                        items.push(Item::Expr(cx(&c), Some(a.clone())));
                        out.push((a, c.ty));
                    }
                    if self.t.chance(8) {
                        // scalar COUNT subquery over a CTE in the SELECT list
                        self.feat("scalar_subquery_in_select_list");
                        let r = self.pick_rel(cat, 90);
                        let alias = self.fresh("x");
                        let inner: Vec<SCol> = r.cols.iter().map(|(n, t)| SCol { rel: alias.clone(), name: n.clone(), ty: *t }).collect();
                        let w = if self.t.chance(50) {
                            let e = self.equi(&inner, &scope);
                            if e.is_some() {
                                self.feat("correlated");
                            }
                            e
                        } else {
                            None
                        };
                        let sel = Select::simple(vec![Item::Expr(Expr::count_star(), None)], vec![From::Table { name: r.name.clone(), alias: Some(alias) }], w);
                        let a = self.fresh("c");
                        items.push(Item::Expr(Expr::Scalar(Box::new(Query::select(sel))), Some(a.clone())));
                        out.push((a, ColType::Int));
                    }
                }
            }
        }
        let distinct = want.is_none() && self.t.chance(10);
        if distinct {
            self.feat("distinct");
        }
        (Select { distinct, items, from: comma, where_, group: Group::None, having: None }, out, flat)
    }
}

fn build(tables: Vec<Table>, tape: Vec<u16>, cuts: Vec<Vec<usize>>, max_depth: u32) -> SqlCase {
    let cat: Vec<RelInfo> = tables
        .iter()
        .map(|t| RelInfo { name: t.name.clone(), cols: t.cols.iter().map(|c| (c.name.clone(), c.ty)).collect(), cte: false, flat: 1 })
        .collect();
    let mut g = G { t: Tape::new(tape), feats: vec![], seq: 0, max_depth };
    let (query, _, _) = g.query(&cat, 0, true, None);
    let features = g.feats.iter().map(|s| s.to_string()).collect();
    SqlCase { cuts: cuts.into_iter().take(tables.len()).collect(), tables, query, features }
}

pub fn strategy(tier: Tier) -> BoxedStrategy<SqlCase> {
    let mut tp = TableProfile::default();
    tp.max_rows = tier.pick(7, 20);
    tp.max_cols = 3;
    tp.types = vec![ColType::Int, ColType::Int, ColType::Int, ColType::Str, ColType::Date, ColType::Double];
    tp.null_pcts = vec![0, 0, 20, 40];
    let max_rows = tp.max_rows;
    let max_depth = 2;
    (
        tables_strategy(tp),
        proptest::collection::vec(any::<u16>(), 0..320),
        proptest::collection::vec(proptest::collection::vec(0..=max_rows, 0..3), 3),
    )
        .prop_map(move |(tables, tape, cuts)| build(tables, tape, cuts, max_depth))
        .boxed()
}

// ---------------------------------------------------------------------------
// scope analysis of a statement (lexical resolution vs one statement-global map)
// ---------------------------------------------------------------------------

#[derive(Default, Debug)]
pub struct ScopeFacts {
    /// some WITH name is defined by two WITH clauses of the statement
    pub name_defined_twice: bool,
    /// some CTE definition is referenced at least twice
    pub referenced_twice: bool,
    /// some table reference resolves differently under "one map for the whole
    /// statement, filled in binding order, never popped" than under lexical scoping
    pub global_map_misresolves: bool,
    /// two definitions of one name are BOTH referenced (a by-name cache conflates them)
    pub same_name_two_live_definitions: bool,
    /// some query block references `alias.col` where another item of the same FROM
    /// clause exposes a column of that name too, and at least one of the two
    /// items is a derived table or a CTE reference
    pub join_inputs_share_column_name: bool,
    pub cte_refs: usize,
}

struct Walk<'a> {
    tables: &'a [Table],
    /// output column names of every definition id
    def_cols: Vec<Vec<String>>,
    clash: bool,
    lex: Vec<(String, usize)>,
    glob: HashMap<String, usize>,
    next: usize,
    refs: HashMap<usize, usize>,
    def_names: Vec<String>,
    mis: bool,
}

impl<'a> Walk<'a> {
    /// (is base table, column names) of a FROM leaf, lexically resolved
    fn leaf_cols(&self, f: &From) -> Vec<(String, bool, Vec<String>)> {
        match f {
            From::Table { name, alias } => {
                let n = name.to_lowercase();
                let a = alias.clone().unwrap_or_else(|| name.clone());
                match self.lex.iter().rev().find(|(x, _)| *x == n) {
                    Some((_, id)) => vec![(a, false, self.def_cols[*id].clone())],
                    None => {
                        let cols = self.tables.iter().find(|t| t.name.eq_ignore_ascii_case(name)).map(|t| t.cols.iter().map(|c| c.name.to_lowercase()).collect()).unwrap_or_default();
                        vec![(a, true, cols)]
                    }
                }
            }
            From::Derived { q, alias, cols } => {
                let names = match cols {
                    Some(c) => c.iter().map(|x| x.to_lowercase()).collect(),
                    None => self.out_names(q),
                };
                vec![(alias.clone(), false, names)]
            }
            From::Join { l, r, .. } => {
                let mut v = self.leaf_cols(l);
                v.extend(self.leaf_cols(r));
                v
            }
        }
    }
    /// output column names of a query, evaluated in the CURRENT lexical scope
    /// (nested WITH clauses of `q` itself are handled by a sub-walk)
    fn out_names(&self, q: &Query) -> Vec<String> {
        let mut sub = Walk { tables: self.tables, def_cols: self.def_cols.clone(), clash: false, lex: self.lex.clone(), glob: HashMap::new(), next: self.next, refs: HashMap::new(), def_names: vec![], mis: false };
        // register q's own WITH definitions (ids continue after the existing ones)
        sub.next = sub.def_cols.len();
        for c in &q.with {
            let names = match &c.cols {
                Some(cl) => cl.iter().map(|x| x.to_lowercase()).collect(),
                None => sub.out_names(&c.q),
            };
            let id = sub.def_cols.len();
            sub.def_cols.push(names);
            sub.lex.push((c.name.to_lowercase(), id));
        }
        fn leftmost(s: &SetExpr) -> Option<&SetExpr> {
            match s {
                SetExpr::Op { l, .. } => leftmost(l),
                o => Some(o),
            }
        }
        match leftmost(&q.body) {
            Some(SetExpr::Select(sel)) => {
                let leaves: Vec<(String, bool, Vec<String>)> = sel.from.iter().flat_map(|f| sub.leaf_cols(f)).collect();
                let mut out = vec![];
                for it in &sel.items {
                    match it {
                        Item::Expr(_, Some(a)) => out.push(a.to_lowercase()),
                        Item::Expr(Expr::Col { name, .. }, None) => out.push(name.to_lowercase()),
                        Item::Expr(e, None) => out.push(e.sql().to_lowercase()),
                        Item::Star => {
                            for (_, _, c) in &leaves {
                                out.extend(c.iter().cloned());
                            }
                        }
                        Item::QStar(r) => {
                            for (a, _, c) in &leaves {
                                if a.eq_ignore_ascii_case(r) {
                                    out.extend(c.iter().cloned());
                                }
                            }
                        }
                    }
                }
                out
            }
            Some(SetExpr::Nested(inner)) => sub.out_names(inner),
            _ => vec![],
        }
    }

    fn query(&mut self, q: &Query) {
        let mark = self.lex.len();
        for c in &q.with {
            self.query(&c.q);
            let names = match &c.cols {
                Some(cl) => cl.iter().map(|x| x.to_lowercase()).collect(),
                None => self.out_names(&c.q),
            };
            let id = self.next;
            self.next += 1;
            debug_assert_eq!(id, self.def_cols.len());
            self.def_cols.push(names);
            let n = c.name.to_lowercase();
            self.def_names.push(n.clone());
            self.lex.push((n.clone(), id));
            self.glob.insert(n, id);
        }
        self.set(&q.body);
        for k in &q.order_by {
            self.expr(&k.e);
        }
        self.lex.truncate(mark);
    }
    fn set(&mut self, s: &SetExpr) {
        match s {
            SetExpr::Select(sel) => {
                let leaves: Vec<(String, bool, Vec<String>)> = sel.from.iter().flat_map(|f| self.leaf_cols(f)).collect();
                // qualified column references of this block (also from inside its
                // subquery expressions: correlated references)
                let mut refs: Vec<(String, String)> = vec![];
                {
                    let mut note = |e: &Expr| {
                        if let Expr::Col { rel: Some(r), name } = e {
                            refs.push((r.to_lowercase(), name.to_lowercase()));
                        }
                    };
                    let mut top = |e: &Expr| {
                        e.walk(&mut |x| {
                            note(x);
                            match x {
                                Expr::Exists { q, .. } | Expr::Scalar(q) | Expr::InSub { q, .. } => crate::kf_sql::walk_query_exprs(q, &mut |y| note(y)),
                                _ => {}
                            }
                        });
                    };
                    for it in &sel.items {
                        if let Item::Expr(e, _) = it {
                            top(e);
                        }
                    }
                    for e in sel.where_.iter().chain(sel.having.iter()) {
                        top(e);
                    }
                    fn ons<'x>(f: &'x From, out: &mut Vec<&'x Expr>) {
                        if let From::Join { l, r, on, .. } = f {
                            ons(l, out);
                            ons(r, out);
                            if let Some(e) = on {
                                out.push(e);
                            }
                        }
                    }
                    let mut on_exprs = vec![];
                    for f in &sel.from {
                        ons(f, &mut on_exprs);
                    }
                    for e in on_exprs {
                        top(e);
                    }
                }
                for (rel, name) in &refs {
                    if let Some(me) = leaves.iter().position(|l| l.0.to_lowercase() == *rel && l.2.contains(name)) {
                        for (j, other) in leaves.iter().enumerate() {
                            if j != me && other.2.contains(name) && (!other.1 || !leaves[me].1) {
                                self.clash = true;
                            }
                        }
                    }
                }
                for f in &sel.from {
                    self.from(f);
                }
                if let Some(w) = &sel.where_ {
                    self.expr(w);
                }
                for it in &sel.items {
                    if let Item::Expr(e, _) = it {
                        self.expr(e);
                    }
                }
                if let Some(h) = &sel.having {
                    self.expr(h);
                }
            }
            SetExpr::Op { l, r, .. } => {
                self.set(l);
                self.set(r);
            }
            SetExpr::Nested(q) => self.query(q),
            SetExpr::Values(_) => {}
        }
    }
    fn from(&mut self, f: &From) {
        match f {
            From::Table { name, .. } => {
                let n = name.to_lowercase();
                let lexical = self.lex.iter().rev().find(|(x, _)| *x == n).map(|(_, id)| *id);
                let global = self.glob.get(&n).copied();
                if lexical != global {
                    self.mis = true;
                }
                if let Some(id) = lexical {
                    *self.refs.entry(id).or_insert(0) += 1;
                }
            }
            From::Derived { q, .. } => self.query(q),
            From::Join { l, r, on, .. } => {
                self.from(l);
                self.from(r);
                if let Some(e) = on {
                    self.expr(e);
                }
            }
        }
    }
    fn expr(&mut self, e: &Expr) {
        let mut subs: Vec<&Query> = vec![];
        e.walk(&mut |x| match x {
            Expr::Exists { q, .. } | Expr::Scalar(q) | Expr::InSub { q, .. } => subs.push(q),
            _ => {}
        });
        for q in subs {
            self.query(q);
        }
    }
}

pub fn scope_facts(q: &Query, tables: &[Table]) -> ScopeFacts {
    let mut w = Walk { tables, def_cols: vec![], clash: false, lex: vec![], glob: HashMap::new(), next: 0, refs: HashMap::new(), def_names: vec![], mis: false };
    w.query(q);
    let mut f = ScopeFacts::default();
    f.join_inputs_share_column_name = w.clash;
    f.global_map_misresolves = w.mis;
    f.cte_refs = w.refs.values().sum();
    f.referenced_twice = w.refs.values().any(|n| *n >= 2);
    for (i, n) in w.def_names.iter().enumerate() {
        for (j, m) in w.def_names.iter().enumerate() {
            if i < j && n == m {
                f.name_defined_twice = true;
                if w.refs.get(&i).copied().unwrap_or(0) > 0 && w.refs.get(&j).copied().unwrap_or(0) > 0 {
                    f.same_name_two_live_definitions = true;
                }
            }
        }
    }
    f
}

// ---------------------------------------------------------------------------
// textual inlining: every CTE reference becomes a derived table
// ---------------------------------------------------------------------------

type Env = Vec<(String, Query, Option<Vec<String>>)>;

fn inline_expr(e: &Expr, env: &Env) -> Expr {
    let b = |x: &Expr| Box::new(inline_expr(x, env));
    let v = |xs: &[Expr]| xs.iter().map(|x| inline_expr(x, env)).collect::<Vec<_>>();
    match e {
        Expr::Col { .. } | Expr::Lit(_) => e.clone(),
        Expr::Bin(a, op, c) => Expr::Bin(b(a), *op, b(c)),
        Expr::Not(a) => Expr::Not(b(a)),
        Expr::Neg(a) => Expr::Neg(b(a)),
        Expr::IsNull { e, neg } => Expr::IsNull { e: b(e), neg: *neg },
        Expr::InList { e, list, neg } => Expr::InList { e: b(e), list: v(list), neg: *neg },
        Expr::Between { e, lo, hi, neg } => Expr::Between { e: b(e), lo: b(lo), hi: b(hi), neg: *neg },
        Expr::Like { e, pat, neg } => Expr::Like { e: b(e), pat: pat.clone(), neg: *neg },
        Expr::Case { operand, whens, els } => Expr::Case {
            operand: operand.as_ref().map(|o| b(o)),
            whens: whens.iter().map(|(w, t)| (inline_expr(w, env), inline_expr(t, env))).collect(),
            els: els.as_ref().map(|o| b(o)),
        },
        Expr::Coalesce(xs) => Expr::Coalesce(v(xs)),
        Expr::NullIf(a, c) => Expr::NullIf(b(a), b(c)),
        Expr::IsDistinct { a, b: c, neg } => Expr::IsDistinct { a: b(a), b: b(c), neg: *neg },
        Expr::Agg { f, arg, distinct } => Expr::Agg { f: *f, arg: arg.as_ref().map(|a| b(a)), distinct: *distinct },
        Expr::Exists { q, neg } => Expr::Exists { q: Box::new(inline_query(q, env)), neg: *neg },
        Expr::InSub { e, q, neg } => Expr::InSub { e: b(e), q: Box::new(inline_query(q, env)), neg: *neg },
        Expr::Scalar(q) => Expr::Scalar(Box::new(inline_query(q, env))),
        Expr::Win(_) | Expr::Grouping(_) => e.clone(),
        Expr::Cast(x, t) => Expr::Cast(b(x), *t),
    }
}

fn inline_from(f: &From, env: &Env) -> From {
    match f {
        From::Table { name, alias } => match env.iter().rev().find(|(n, _, _)| n.eq_ignore_ascii_case(name)) {
            Some((_, body, cols)) => From::Derived { q: Box::new(body.clone()), alias: alias.clone().unwrap_or_else(|| name.clone()), cols: cols.clone() },
            None => f.clone(),
        },
        From::Derived { q, alias, cols } => From::Derived { q: Box::new(inline_query(q, env)), alias: alias.clone(), cols: cols.clone() },
        From::Join { l, r, kind, on } => From::Join {
            l: Box::new(inline_from(l, env)),
            r: Box::new(inline_from(r, env)),
            kind: *kind,
            on: on.as_ref().map(|e| inline_expr(e, env)),
        },
    }
}

fn inline_set(s: &SetExpr, env: &Env) -> SetExpr {
    match s {
        SetExpr::Select(sel) => SetExpr::Select(Box::new(Select {
            distinct: sel.distinct,
            items: sel
                .items
                .iter()
                .map(|i| match i {
                    Item::Expr(e, a) => Item::Expr(inline_expr(e, env), a.clone()),
                    o => o.clone(),
                })
                .collect(),
            from: sel.from.iter().map(|f| inline_from(f, env)).collect(),
            where_: sel.where_.as_ref().map(|e| inline_expr(e, env)),
            group: sel.group.clone(),
            having: sel.having.as_ref().map(|e| inline_expr(e, env)),
        })),
        SetExpr::Op { op, all, l, r } => SetExpr::Op { op: *op, all: *all, l: Box::new(inline_set(l, env)), r: Box::new(inline_set(r, env)) },
        SetExpr::Nested(q) => SetExpr::Nested(Box::new(inline_query(q, env))),
        SetExpr::Values(_) => s.clone(),
    }
}

/// The same query without any WITH clause.
pub fn inline_query(q: &Query, env: &Env) -> Query {
    let mut env: Env = env.clone();
    for c in &q.with {
        let body = inline_query(&c.q, &env);
        env.push((c.name.clone(), body, c.cols.clone()));
    }
    Query {
        with: vec![],
        body: inline_set(&q.body, &env),
        order_by: q.order_by.iter().map(|k| OrderKey { e: inline_expr(&k.e, &env), desc: k.desc, nulls_first: k.nulls_first }).collect(),
        limit: q.limit,
        offset: q.offset,
    }
}

// ---------------------------------------------------------------------------
// classification
// ---------------------------------------------------------------------------

/// the shared signatures except `shared-subplan-self-join`, which this property refines
fn shared_sigs(c: &SqlCase, ev: &Ev, _msg: &str) -> Option<&'static str> {
    crate::kf_sql::SIGS.iter().filter(|s| s.id != "shared-subplan-self-join").find(|s| (s.pred)(c, ev)).map(|s| s.id)
}

fn classify(c: &SqlCase, ev: &Ev, msg: &str) -> Option<&'static str> {
    let f = scope_facts(&c.query, &c.tables);
    // development switch: with the three fix patches applied, check that nothing
    // is left in their classes (everything must then fall to other signatures)
    // The three C28-specific defects below are FIXED in /repo (9d30f99, 25f4f8f):
    // a failing case is first attributed to the still-open shared signatures;
    // only if none matches do the fixed ids apply — and since they are listed
    // `fixed`, the runner then reports a VIOLATION naming the regressed finding.
    if let Some(id) = shared_sigs(c, ev, msg) {
        return Some(id);
    }
    if f.global_map_misresolves {
        return Some("cte-scope-global-map");
    }
    if f.same_name_two_live_definitions {
        return Some("cte-cache-keyed-by-name");
    }
    if f.join_inputs_share_column_name {
        return Some("join-inputs-share-column-name");
    }
    None
}

// ---------------------------------------------------------------------------
// check
// ---------------------------------------------------------------------------

struct CteCheck;

impl Check for CteCheck {
    type Case = SqlCase;
    fn name(&self) -> &'static str {
        "cte_scoping_and_sharing"
    }
    fn rule(&self) -> &'static str {
        "the engine answered and the statement defines some WITH name in two scopes, or references one CTE definition at least twice"
    }
    fn cases(&self, tier: Tier) -> u32 {
        tier.pick(9000, 120_000)
    }
    fn max_shrink_iters(&self) -> u32 {
        1500
    }
    fn strategy(&self, tier: Tier) -> BoxedStrategy<SqlCase> {
        strategy(tier)
    }
    fn test(&self, c: &SqlCase, obs: &mut Obs) -> Verdict {
        let sql = c.query.sql();
        let f = scope_facts(&c.query, &c.tables);
        if f.join_inputs_share_column_name {
            obs.label("fact:join_inputs_share_column_name");
        }
        if f.name_defined_twice {
            obs.label("fact:name_defined_twice");
        }
        if f.referenced_twice {
            obs.label("fact:cte_referenced_twice");
        }
        if f.global_map_misresolves {
            obs.label("fact:global_map_misresolves");
        }
        if f.same_name_two_live_definitions {
            obs.label("fact:same_name_two_live_definitions");
        }
        obs.label(format!("cte_refs:{}", f.cte_refs.min(6)));
        let out = judge_text(c, &sql, obs, 1e-9, &classify);
        for e in &out.events {
            obs.label(format!("ev:{}", e));
        }
        obs.nontrivial(out.got.is_some() && (f.name_defined_twice || f.referenced_twice));
        if !matches!(out.verdict, Verdict::Pass) {
            return out.verdict;
        }
        if let (Some(_), None) = (&out.reference, &out.got) {
            // the engine refused the CTE text: an allowed outcome, but note when it
            // accepts the WITH-free equivalent (the refusal is then about the CTEs)
            let inl = inline_query(&c.query, &vec![]);
            if run_sql(&mem_context(c), &inl.sql()).is_ok() {
                obs.label("engine_error_but_inlined_text_answered");
            }
        }
        let (Some(reference), Some(got)) = (&out.reference, &out.got) else { return out.verdict };

        // second oracle: textual inlining
        let inl = inline_query(&c.query, &vec![]);
        match Db::new(&c.tables).run(&inl) {
            Ok(r2) => {
                if !multiset_eq(&r2.rows, &reference.rows, 1e-9) {
                    return Verdict::Fail(format!(
                        "HARNESS BUG: the reference gives the inlined text another answer\n sql: {}\n inlined: {}\n ref: {}\n ref(inlined): {}",
                        sql,
                        inl.sql(),
                        show(&reference.rows),
                        show(&r2.rows)
                    ));
                }
            }
            Err(e) => {
                obs.label(format!("inline_ref_err:{}", crate::sqlcheck::short_err(&e)));
                return Verdict::Pass;
            }
        }
        let inl_sql = inl.sql();
        let ctx = mem_context(c);
        match run_sql(&ctx, &inl_sql) {
            Err(e) => {
                obs.label(format!("inlined_engine_error:{}", crate::sqlcheck::short_err(&e)));
                Verdict::Pass
            }
            Ok(rows2) => {
                obs.label("inlined_ok");
                if same_rows(got, &rows2, 1e-9) {
                    Verdict::Pass
                } else {
                    // the original text agreed with the reference, so the inlined
                    // text (no CTE left) is what the engine gets wrong
                    let msg = format!(
                        "CTE statement and its textual inlining disagree (engine vs engine)\n sql: {}\n  -> {}\n inlined: {}\n  -> {}\n tables: {}",
                        sql,
                        show(got),
                        inl_sql,
                        show(&rows2),
                        fmt_tables(&c.tables)
                    );
                    let ic = SqlCase { tables: c.tables.clone(), query: inl.clone(), cuts: c.cuts.clone(), features: c.features.clone() };
                    let db = Db::new(&c.tables);
                    let _ = db.run(&inl);
                    let ev = db.events.borrow().clone();
                    let fi = scope_facts(&inl, &c.tables);
                    let cls = if fi.join_inputs_share_column_name { Some("join-inputs-share-column-name") } else { shared_sigs(&ic, &ev, &msg) };
                    match cls {
                        Some(id) => Verdict::Known { id: id.to_string(), msg },
                        None => Verdict::Fail(msg),
                    }
                }
            }
        }
    }
}

pub fn property() -> Property {
    Property {
        id: "C28",
        level: "exploration",
        assumptions: &[
            "the reference evaluator refsql resolves a WITH name to the nearest enclosing definition (lexical scoping, a CTE is not visible in its own body), as the SQL standard prescribes",
            "replacing a non-recursive CTE reference by its definition as a derived table does not change the meaning of a statement (no volatile functions, no LIMIT without total order inside CTE bodies)",
            "an engine error is an allowed outcome (the property only forbids wrong rows)",
        ],
        checks: vec![Box::new(CteCheck), Box::new(shadow::ShadowTemplates)],
    }
}
