//! C28 — not implemented yet.
use super::Property;

pub fn property() -> Property {
    Property { id: "C28", level: "exploration", assumptions: &[], checks: vec![] }
}
