//! C30 — The reported result schema describes the returned rows.
//!
//! Generator: sqlgen's full grammar (60 %) plus hand-written shapes the grammar
//! lacks: window functions, GROUPING SETS / ROLLUP / CUBE with GROUPING(),
//! VALUES (bare and as a derived table with column aliases), `SELECT *` /
//! `t.*` over joins and self-joins (duplicate column names), aliases that
//! collide with or swap column names, unaliased aggregates / expressions /
//! literals, CAST and comparison outputs, set operations. Tables as C01's, both
//! as memory tables (random batch cuts) and as Parquet.
//! Oracle: for every statement that plans and executes, `QueryResult.schema`
//! and `ctx.physical_plan(sql).schema()` have the same column count, names and
//! types (up to nullability and dictionary encoding) as EVERY returned batch.
//! (The Flight GetSchema leg belongs to the Flight checks.)
use super::Property;
use crate::data::*;
use crate::engine::*;
use crate::runner::*;
use crate::sqlast::*;
use crate::sqlgen::*;
use arrow::datatypes::{DataType, Schema};
use proptest::prelude::*;
use proptest::strategy::BoxedStrategy;
use query_engine::ExecutionContext;
use serde::{Deserialize, Serialize};

#[derive(Clone, Debug, Serialize, Deserialize)]
pub struct SchemaCase {
    pub tables: Vec<Table>,
    pub sql: String,
    pub cuts: Vec<Vec<usize>>,
    pub layouts: Vec<ParquetLayout>,
    pub shape: String,
    /// the select list has at least one computed (non-column) output
    pub computed: bool,
}

fn norm_type(t: &DataType) -> DataType {
    match t {
        DataType::Dictionary(_, v) => norm_type(v),
        o => o.clone(),
    }
}

fn sig(s: &Schema) -> Vec<(String, DataType)> {
    s.fields().iter().map(|f| (f.name().clone(), norm_type(f.data_type()))).collect()
}

fn fmt_sig(s: &[(String, DataType)]) -> String {
    s.iter().map(|(n, t)| format!("{}: {:?}", n, t)).collect::<Vec<_>>().join(", ")
}

// ---------------------------------------------------------------------------
// hand-written shapes
// ---------------------------------------------------------------------------

struct H<'a> {
    t: Tape,
    tables: &'a [Table],
}

impl<'a> H<'a> {
    fn table(&mut self) -> &'a Table {
        &self.tables[self.t.pick(self.tables.len())]
    }
    fn col(&mut self, t: &'a Table) -> &'a Column {
        &t.cols[self.t.pick(t.cols.len())]
    }
    fn num_col(&mut self, t: &'a Table) -> Option<&'a Column> {
        let v: Vec<&Column> = t.cols.iter().filter(|c| c.ty.is_numeric()).collect();
        if v.is_empty() {
            None
        } else {
            Some(v[self.t.pick(v.len())])
        }
    }

    fn window(&mut self) -> String {
        let t = self.table();
        let (a, b, c) = (self.col(t).name.clone(), self.col(t).name.clone(), self.col(t).name.clone());
        let num = self.num_col(t).map(|c| c.name.clone());
        let f = match (self.t.pick(8), &num) {
            (0, _) => "ROW_NUMBER()".to_string(),
            (1, _) => "RANK()".to_string(),
            (2, _) => "DENSE_RANK()".to_string(),
            (3, Some(n)) => format!("SUM({})", n),
            (4, _) => "COUNT(*)".to_string(),
            (5, _) => format!("LAG({})", c),
            (6, _) => format!("FIRST_VALUE({})", c),
            (7, Some(n)) => format!("AVG({})", n),
            _ => format!("MAX({})", c),
        };
        let part = if self.t.chance(60) { format!("PARTITION BY {} ", b) } else { String::new() };
        let alias = if self.t.chance(50) { " AS w".to_string() } else { String::new() };
        let extra = if self.t.chance(40) { format!(", {} + 0", num.clone().unwrap_or_else(|| "1".into())) } else { String::new() };
        format!("SELECT {}, {} OVER ({}ORDER BY {}){}{} FROM {}", a, f, part, a, alias, extra, t.name)
    }

    fn grouping_sets(&mut self) -> String {
        let t = self.table();
        let (a, b) = (self.col(t).name.clone(), self.col(t).name.clone());
        let b = if a == b { t.cols.iter().map(|c| c.name.clone()).find(|n| *n != a).unwrap_or(b) } else { b };
        let num = self.num_col(t).map(|c| c.name.clone());
        let agg = match (self.t.pick(4), &num) {
            (0, _) => "COUNT(*)".to_string(),
            (1, Some(n)) => format!("SUM({})", n),
            (2, Some(n)) => format!("AVG({}) AS av", n),
            _ => format!("MIN({})", b),
        };
        let grp = match self.t.pick(3) {
            0 => format!("ROLLUP ({}, {})", a, b),
            1 => format!("CUBE ({}, {})", a, b),
            _ => format!("GROUPING SETS (({}, {}), ({}), ())", a, b, a),
        };
        let g = if self.t.chance(50) { format!(", GROUPING({})", a) } else { String::new() };
        format!("SELECT {}, {}, {}{} FROM {} GROUP BY {}", a, b, agg, g, t.name, grp)
    }

    fn values(&mut self) -> String {
        let n = 1 + self.t.pick(3);
        let w = 1 + self.t.pick(3);
        let mut rows = vec![];
        for r in 0..n {
            let mut cells = vec![];
            for k in 0..w {
                cells.push(match (k + self.t.pick(2)) % 4 {
                    0 => format!("{}", r + k),
                    1 => format!("'s{}'", r),
                    2 => {
                        if self.t.chance(30) {
                            "NULL".to_string()
                        } else {
                            format!("{}.5", r)
                        }
                    }
                    _ => if r % 2 == 0 { "TRUE" } else { "FALSE" }.to_string(),
                });
            }
            rows.push(format!("({})", cells.join(", ")));
        }
        // columns must have one type: regenerate column-wise consistent rows
        let mut rows2 = vec![];
        for r in 0..n {
            let mut cells = vec![];
            for k in 0..w {
                cells.push(match k % 3 {
                    0 => format!("{}", r + k),
                    1 => format!("'s{}'", r),
                    _ => format!("{}.5", r),
                });
            }
            rows2.push(format!("({})", cells.join(", ")));
        }
        let _ = rows;
        let body = format!("VALUES {}", rows2.join(", "));
        match self.t.pick(3) {
            0 => body,
            1 => format!("SELECT * FROM ({}) AS v", body),
            _ => {
                let names: Vec<String> = (0..w).map(|k| format!("x{}", k)).collect();
                format!("SELECT {} FROM ({}) AS v ({})", names[0], body, names.join(", "))
            }
        }
    }

    fn star_join(&mut self) -> String {
        let t = self.table();
        let u = self.table();
        let (a, b) = (self.col(t).name.clone(), self.col(u).name.clone());
        let kind = ["INNER JOIN", "LEFT JOIN", "FULL OUTER JOIN", "CROSS JOIN"][self.t.pick(4)];
        let on = if kind == "CROSS JOIN" { String::new() } else { format!(" ON t1.{} IS NOT DISTINCT FROM t2.{}", a, b) };
        let on = if self.t.chance(70) && kind != "CROSS JOIN" && t.cols.iter().find(|c| c.name == a).map(|c| c.ty) == u.cols.iter().find(|c| c.name == b).map(|c| c.ty) { format!(" ON t1.{} = t2.{}", a, b) } else { on };
        let items = match self.t.pick(4) {
            0 => "*".to_string(),
            1 => "t1.*".to_string(),
            2 => format!("t2.*, t1.{}", a),
            _ => format!("t1.{}, *", a),
        };
        format!("SELECT {} FROM {} AS t1 {} {} AS t2{}", items, t.name, kind, u.name, on)
    }

    fn alias_collision(&mut self) -> String {
        let t = self.table();
        let (a, b) = (self.col(t).name.clone(), self.col(t).name.clone());
        match self.t.pick(4) {
            0 => format!("SELECT {} AS {}, {} AS {} FROM {}", a, b, b, a, t.name),
            1 => format!("SELECT {} AS {}, {} FROM {} ORDER BY {}", a, b, b, t.name, b),
            2 => format!("SELECT {} AS x, {} AS x FROM {}", a, b, t.name),
            _ => format!("SELECT {a} AS {a}, COUNT(*) AS {b} FROM {t} GROUP BY {a}", a = a, b = b, t = t.name),
        }
    }

    fn unaliased(&mut self) -> String {
        let t = self.table();
        let a = self.col(t).name.clone();
        let num = self.num_col(t).map(|c| c.name.clone());
        let n = num.clone().unwrap_or_else(|| "1".to_string());
        match self.t.pick(6) {
            0 => format!("SELECT COUNT(*), MIN({}), MAX({}) FROM {}", a, a, t.name),
            1 => format!("SELECT {}, COUNT(*), SUM({}), AVG({}) FROM {} GROUP BY {}", a, n, n, t.name, a),
            2 => format!("SELECT {} + 1, {} * 2.5, - {}, {} = {} FROM {}", n, n, n, a, a, t.name),
            3 => format!("SELECT 1, 'x', NULL, TRUE, 2.5, CAST({} AS DOUBLE), CAST({} AS VARCHAR) FROM {}", n, a, t.name),
            4 => format!("SELECT CASE WHEN {} IS NULL THEN 0 ELSE 1 END, COALESCE({}, {}), {} IS NULL, {} BETWEEN {} AND {} FROM {}", a, a, a, a, a, a, a, t.name),
            _ => format!("SELECT DISTINCT {}, COUNT(DISTINCT {}) FROM {} GROUP BY {} ORDER BY 1 LIMIT 3", a, a, t.name, a),
        }
    }

    fn set_op(&mut self) -> String {
        let t = self.table();
        let a = self.col(t).name.clone();
        let op = ["UNION", "UNION ALL", "INTERSECT", "EXCEPT"][self.t.pick(4)];
        format!("SELECT {} AS first_name, 1 AS one FROM {} {} SELECT {} AS second_name, 2 FROM {}", a, t.name, op, a, t.name)
    }
}

fn schema_case(tier: Tier) -> BoxedStrategy<SchemaCase> {
    let mut tp = TableProfile::default();
    tp.max_rows = tier.pick(10, 40);
    let max_rows = tp.max_rows;
    (
        tables_strategy(tp),
        proptest::collection::vec(any::<u16>(), 1..200),
        proptest::collection::vec(proptest::collection::vec(0..=max_rows, 0..3), 3),
        proptest::collection::vec(parquet_layout_strategy(max_rows), 3),
    )
        .prop_map(|(mut tables, tape, cuts, layouts)| {
            // three quarters of the cases use table-unique column names (shared bare names
            // across joined tables are an open finding of their own)
            if tape.last().map(|x| x % 4 != 0).unwrap_or(true) {
                for t in tables.iter_mut() {
                    let p = t.name.clone();
                    for col in t.cols.iter_mut() {
                        col.name = format!("{}{}", p, col.name);
                    }
                }
            }
            let shape_sel = tape[0];
            let rest: Vec<u16> = tape[1..].to_vec();
            let k = pick_idx(shape_sel, 20);
            let (sql, shape, computed) = if k < 10 {
                let profile = Profile::full();
                let mut g = Gen::new(rest, &profile);
                let (q, _) = g.query(&Catalog::of(&tables), 2);
                let computed = match &q.body {
                    SetExpr::Select(s) => s.items.iter().any(|i| !matches!(i, Item::Expr(Expr::Col { .. }, _) | Item::Star | Item::QStar(_))),
                    _ => true,
                };
                (q.sql(), "sqlgen", computed)
            } else {
                let mut h = H { t: Tape::new(rest), tables: &tables };
                match k {
                    10 | 11 => (h.window(), "window", true),
                    12 | 13 => (h.grouping_sets(), "grouping_sets", true),
                    14 => (h.values(), "values", true),
                    15 | 16 => (h.star_join(), "star_join", false),
                    17 => (h.alias_collision(), "alias_collision", false),
                    18 => (h.unaliased(), "unaliased", true),
                    _ => (h.set_op(), "set_op", true),
                }
            };
            let n = tables.len();
            SchemaCase { tables, sql, cuts: cuts.into_iter().take(n).collect(), layouts: layouts.into_iter().take(n).collect(), shape: shape.to_string(), computed }
        })
        .boxed()
}

/// Signatures of C30's open findings: (shape, message) -> id
fn classify(c: &SchemaCase, reported: &[(String, DataType)], got: &[(String, DataType)]) -> Option<&'static str> {
    let sql = c.sql.to_uppercase();
    let names = |s: &[(String, DataType)]| s.iter().map(|x| x.0.clone()).collect::<Vec<_>>();
    let types = |s: &[(String, DataType)]| s.iter().map(|x| x.1.clone()).collect::<Vec<_>>();
    // two output columns of the same name: the second is looked up by name and returns the first
    let rn = names(reported);
    if (0..rn.len()).any(|i| rn[i + 1..].contains(&rn[i])) {
        return Some("duplicate-output-column-names");
    }
    // a set operation returns the batches of its second branch under that branch's own column names
    let widen = |t: &DataType| if *t == DataType::Int32 { DataType::Int64 } else { t.clone() };
    let same_types = types(reported).iter().map(widen).collect::<Vec<_>>() == types(got).iter().map(widen).collect::<Vec<_>>();
    if [" UNION ", " INTERSECT ", " EXCEPT "].iter().any(|k| sql.contains(k)) && reported.len() == got.len() && names(reported) != names(got) && same_types {
        return Some("set-operation-branch-column-names");
    }
    // same names, a column differs only by integer width: INTEGER arithmetic / aggregates are
    // planned as BIGINT but computed as INTEGER (or the reverse)
    if names(reported) == names(got) {
        let diff: Vec<(&DataType, &DataType)> = reported.iter().zip(got.iter()).filter(|(a, b)| a.1 != b.1).map(|(a, b)| (&a.1, &b.1)).collect();
        // (only COMPUTED outputs: a plain column reference that comes back with another width
        // than the base column's is a different defect and is not covered by this finding)
        let plain_column_output = |name: &str| -> bool {
            let n = name.to_uppercase();
            let is_col = |t: &str| {
                let bare = t.rsplit('.').next().unwrap_or(t);
                c.tables.iter().any(|tb| tb.cols.iter().any(|col| col.name.to_uppercase() == bare))
            };
            // every ` AS <name>`: the select item is a plain column iff the text before it is
            // `<SELECT|DISTINCT|,> <ident path naming a base column>`
            let pat = format!(" AS {}", n);
            let mut any_alias = false;
            let mut aliased_plain = false;
            for (i, _) in sql.match_indices(&pat) {
                let after = sql[i + pat.len()..].chars().next();
                if after.map(|ch| ch.is_alphanumeric() || ch == '_').unwrap_or(false) {
                    continue;
                }
                any_alias = true;
                let head = sql[..i].trim_end();
                let start = head.rfind(|ch: char| !(ch.is_alphanumeric() || ch == '_' || ch == '.')).map(|p| p + 1).unwrap_or(0);
                let tok = &head[start..];
                let before = head[..start].trim_end();
                let item_start = before.ends_with(',') || before.ends_with("SELECT") || before.ends_with("DISTINCT");
                if !tok.is_empty() && is_col(tok) && item_start {
                    aliased_plain = true;
                }
            }
            aliased_plain || (!any_alias && is_col(&n))
        };
        let diff_names: Vec<&String> = reported.iter().zip(got.iter()).filter(|(a, b)| a.1 != b.1).map(|(a, _)| &a.0).collect();
        if !diff.is_empty()
            && diff.iter().all(|(a, b)| matches!((a, b), (DataType::Int64, DataType::Int32) | (DataType::Int32, DataType::Int64)))
            // (a set operation's output column is computed from all branches: a plain column in one
            // branch says nothing about the others)
            && ([" UNION ", " INTERSECT ", " EXCEPT "].iter().any(|k| sql.contains(k)) || !diff_names.iter().any(|n| plain_column_output(n)))
        {
            return Some("integer-width-plan-vs-batch");
        }
        // FULL OUTER JOIN NULL-extension rows are assembled with another column's type
        if !diff.is_empty() && sql.contains("FULL OUTER JOIN") {
            return Some("full-join-null-extension-column-type");
        }
    }
    None
}

pub struct SchemaMatchesRows;

impl Check for SchemaMatchesRows {
    type Case = SchemaCase;
    fn name(&self) -> &'static str {
        "schema_matches_rows"
    }
    fn rule(&self) -> &'static str {
        "the statement executes, returns >= 1 row, and its select list has >= 1 computed (non-column) output"
    }
    fn cases(&self, tier: Tier) -> u32 {
        tier.pick(2000, 60_000)
    }
    fn strategy(&self, tier: Tier) -> BoxedStrategy<SchemaCase> {
        schema_case(tier)
    }
    fn test(&self, c: &SchemaCase, obs: &mut Obs) -> Verdict {
        obs.label(format!("shape:{}", c.shape));
        obs.sample(serde_json::json!({ "sql": c.sql }));
        let mut mem = ExecutionContext::new();
        for (i, t) in c.tables.iter().enumerate() {
            register_mem(&mut mem, t, c.cuts.get(i).map(|v| v.as_slice()).unwrap_or(&[]));
        }
        let dir = TempDir::new("c30");
        let mut pq = ExecutionContext::new();
        for (i, t) in c.tables.iter().enumerate() {
            let l = c.layouts.get(i).cloned().unwrap_or_else(ParquetLayout::single);
            if let Err(e) = register_parquet(&mut pq, t, dir.path(), &l) {
                return Verdict::Discard(format!("parquet_registration:{}", crate::sqlcheck::short_err(&e)));
            }
        }
        for (ctx, tag) in [(&mem, "memory"), (&pq, "parquet")] {
            let ans = match run_sql_full(ctx, &c.sql) {
                Ok(a) => a,
                Err(e) => {
                    obs.label(format!("{}:error:{}", tag, crate::sqlcheck::short_err(&e)));
                    continue;
                }
            };
            let rows: usize = ans.batches.iter().map(|b| b.num_rows()).sum();
            obs.label(format!("{}:{}", tag, if rows > 0 { "rows" } else { "no_rows" }));
            obs.nontrivial(rows > 0 && c.computed);
            let reported = sig(&ans.schema);
            let fail = |msg: String, rep: &[(String, DataType)], got: &[(String, DataType)]| {
                let full = format!("[{}] {}\n sql: {}\n tables: {}", tag, msg, c.sql, crate::sqlcheck::fmt_tables(&c.tables));
                match classify(c, rep, got) {
                    Some(id) => Verdict::Known { id: id.to_string(), msg: full },
                    None => Verdict::Fail(full),
                }
            };
            for (bi, b) in ans.batches.iter().enumerate() {
                let got = sig(&b.schema());
                if got != reported {
                    return fail(format!("QueryResult.schema [{}] does not describe returned batch #{} [{}] ({} rows)", fmt_sig(&reported), bi, fmt_sig(&got), b.num_rows()), &reported, &got);
                }
                // the batch's own columns must be what its schema says
                for (ci, col) in b.columns().iter().enumerate() {
                    if norm_type(col.data_type()) != got[ci].1 {
                        return fail(format!("batch #{} column {} holds {:?} but its schema says {:?}", bi, ci, col.data_type(), got[ci].1), &reported, &got);
                    }
                }
            }
            match std::panic::catch_unwind(std::panic::AssertUnwindSafe(|| ctx.physical_plan(&c.sql))) {
                Ok(Ok(p)) => {
                    let planned = sig(&p.schema());
                    if planned != reported {
                        return fail(format!("physical_plan(sql).schema() [{}] differs from QueryResult.schema [{}]", fmt_sig(&planned), fmt_sig(&reported)), &planned, &reported);
                    }
                    for (bi, b) in ans.batches.iter().enumerate() {
                        if sig(&b.schema()) != planned {
                            return fail(format!("physical_plan(sql).schema() [{}] does not describe returned batch #{} [{}]", fmt_sig(&planned), bi, fmt_sig(&sig(&b.schema()))), &planned, &sig(&b.schema()));
                        }
                    }
                }
                Ok(Err(e)) => obs.label(format!("{}:physical_plan_error:{}", tag, crate::sqlcheck::short_err(&e.to_string()))),
                Err(_) => obs.label(format!("{}:physical_plan_panic", tag)),
            }
        }
        Verdict::Pass
    }
}

pub fn property() -> Property {
    Property {
        id: "C30",
        level: "exploration",
        assumptions: &[
            "'up to nullability and dictionary encoding': Dictionary(_, T) is read as T; field nullability and metadata are ignored; names and all other types must match exactly",
            "statements that fail to plan or execute are outside the property (labelled); the Flight GetSchema leg is exercised by the Flight checks, not here",
        ],
        checks: vec![Box::new(SchemaMatchesRows)],
    }
}
