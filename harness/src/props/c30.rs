//! C30 — not implemented yet.
use super::Property;

pub fn property() -> Property {
    Property { id: "C30", level: "exploration", assumptions: &[], checks: vec![] }
}
