//! Shared by C03 / C31 (and reused by C32): statistics-bearing table generator,
//! focused statement generator (shapes that make the optimizer's rules fire),
//! the production rule list, and contexts (memory = no statistics, Parquet =
//! footer statistics).
#![allow(dead_code)]

use crate::data::*;
use crate::engine::*;
use crate::runner::Tier;
use crate::sqlast::*;
use crate::sqlgen::*;
use proptest::prelude::*;
use query_engine::optimizer::{self as qopt, Optimizer, OptimizerRule};
use query_engine::physical::operators::TableStatistics;
use query_engine::planner::LogicalPlan;
use query_engine::ExecutionContext;
use serde::{Deserialize, Serialize};
use std::collections::HashMap;
use std::sync::Arc;

// ---------------------------------------------------------------------------
// case
// ---------------------------------------------------------------------------

#[derive(Clone, Debug, Serialize, Deserialize)]
pub struct OptCase {
    pub sql_case: SqlCase,
    /// Parquet layout per table (same order as sql_case.tables)
    pub layouts: Vec<ParquetLayout>,
}

// ---------------------------------------------------------------------------
// tables: integer key columns with the statistics profiles the rules gate on
// ---------------------------------------------------------------------------

/// value of an integer key column at row `i` with per-cell selector `o` (0..8)
fn key_value(profile: u8, unique: bool, i: usize, o: u8, int32: bool) -> i64 {
    // most wide-range columns are made truly unique (the statistics rules are then
    // right to treat them as keys); the duplicated variants are the "uniqueness trap"
    let o = if unique && profile != 0 { i.min(7) } else { (o % 8) as usize };
    if unique && profile != 0 && i > 7 {
        return key_value(profile, true, 7, 0, int32) + (i as i64 - 7) * if profile == 5 && int32 { 0 } else { 11 };
    }
    match profile {
        // tiny domain: duplicates, ndv << rows (eager aggregation's fan-out gate)
        0 => (o % 4) as i64,
        // the uniqueness trap: null-free, max-min+1 >= row count, yet duplicates
        1 => {
            if unique {
                [1, 2, 3, 5, 8, 13, 40, 1000][o]
            } else {
                [1, 1, 2, 2, 3, 5, 40, 1000][o]
            }
        }
        // truly unique dense key
        2 => 1 + i as i64,
        // truly unique sparse key
        3 => 10 + 3 * i as i64,
        // negative minimum (packing must decline)
        4 => {
            if unique {
                [-3, -1, 0, 1, 2, 4, 5, 7][o]
            } else {
                [-3, -1, 0, 0, 1, 2, 2, 7][o]
            }
        }
        // straddling 2^31 (BIGINT) / near i32::MAX (INTEGER)
        5 => {
            if int32 {
                2147483647 - if unique { [0, 1, 2, 3, 4, 5, 9, 100][o] } else { [0, 0, 1, 2, 3, 3, 9, 100][o] }
            } else {
                2147483646 + if unique { [0, 1, 2, 3, 4, 5, 6, 9][o] } else { [0, 0, 1, 2, 3, 4, 5, 9][o] }
            }
        }
        // straddling 2^32 (BIGINT only; INTEGER falls back to the trap)
        6 => {
            if int32 {
                [1, 2, 3, 5, 8, 13, 40, 1000][o]
            } else {
                4294967294 + if unique { [0, 1, 2, 3, 4, 5, 6, 9][o] } else { [0, 0, 1, 2, 3, 4, 5, 9][o] }
            }
        }
        // two-valued with a far outlier
        _ => {
            if unique {
                [0, 1, 2, 3, 4, 5, 6, 65536][o]
            } else {
                [0, 0, 0, 1, 1, 1, 1, 65536][o]
            }
        }
    }
}

#[derive(Clone, Debug)]
struct ColSpec {
    /// 0 = BIGINT key, 1 = INTEGER key, 2 = small int, 3 = double, 4 = varchar, 5 = date
    kind: u8,
    profile: u8,
    nullable: bool,
    unique: bool,
}

fn col_spec(key_only: bool) -> BoxedStrategy<ColSpec> {
    let kind = if key_only {
        prop_oneof![3 => Just(0u8), 2 => Just(1u8)].boxed()
    } else {
        prop_oneof![2 => Just(0u8), 1 => Just(1u8), 3 => Just(2u8), 2 => Just(3u8), 2 => Just(4u8), 1 => Just(5u8)].boxed()
    };
    (
        kind,
        prop_oneof![3 => Just(0u8), 4 => Just(1u8), 3 => Just(2u8), 1 => Just(3u8), 1 => Just(4u8), 1 => Just(5u8), 1 => Just(6u8), 1 => Just(7u8)],
        prop_oneof![4 => Just(false), 1 => Just(true)],
        prop_oneof![4 => Just(true), 1 => Just(false)],
    )
        .prop_map(|(kind, profile, nullable, unique)| ColSpec { kind, profile, nullable, unique })
        .boxed()
}

fn stat_table(name: &'static str, unique_names: bool, all_bigint: bool, max_rows: usize) -> BoxedStrategy<Table> {
    (
        col_spec(true),
        col_spec(true),
        proptest::collection::vec(col_spec(false), 0..=2),
        0..=max_rows,
        proptest::collection::vec(proptest::collection::vec((any::<u8>(), any::<u8>()), 4), max_rows.max(1)),
    )
        .prop_map(move |(c0, c1, rest, n, cells)| {
            let mut specs = vec![c0, c1];
            specs.extend(rest);
            let letters = ["a", "b", "c", "d"];
            let cols: Vec<Column> = specs
                .iter()
                .enumerate()
                .map(|(i, s)| Column {
                    name: if unique_names { format!("{}{}", name, letters[i]) } else { letters[i].to_string() },
                    ty: match s.kind {
                        0 => ColType::Int,
                        1 => {
                            if all_bigint {
                                ColType::Int
                            } else {
                                ColType::Int32
                            }
                        }
                        2 => ColType::Int,
                        3 => ColType::Double,
                        4 => ColType::Str,
                        _ => ColType::Date,
                    },
                })
                .collect();
            let mut rows = vec![];
            for i in 0..n {
                let mut r = vec![];
                for (ci, s) in specs.iter().enumerate() {
                    let (o, nsel) = cells[i][ci];
                    if s.nullable && nsel < 56 {
                        r.push(Value::Null);
                        continue;
                    }
                    r.push(match s.kind {
                        0 => Value::Int(key_value(s.profile, s.unique, i, o, false)),
                        1 => Value::Int(key_value(s.profile, s.unique, i, o, !all_bigint)),
                        2 => Value::Int((o % 5) as i64),
                        3 => Value::Double(((o % 17) as i64 - 8) as f64 * 0.25),
                        4 => Value::Str(["", "a", "ab", "b", "B", "a%", "é"][(o % 7) as usize].to_string()),
                        _ => Value::Date(10957 + (o % 4) as i32 * 15),
                    });
                }
                rows.push(r);
            }
            Table { name: name.to_string(), cols, rows }
        })
        .boxed()
}

pub fn stat_tables(max_rows: usize) -> BoxedStrategy<Vec<Table>> {
    // half of the cases use BIGINT for every integer column: INTEGER/BIGINT mixes
    // run into the engine's missing coercions (known findings) far too often
    (1usize..=3, prop_oneof![6 => Just(true), 1 => Just(false)], any::<bool>())
        .prop_flat_map(move |(n, uniq, all_bigint)| {
            let names = ["r", "s", "u"];
            (0..n).map(|i| stat_table(names[i], uniq, all_bigint, max_rows)).collect::<Vec<_>>()
        })
        .boxed()
}

// ---------------------------------------------------------------------------
// focused statements
// ---------------------------------------------------------------------------

#[derive(Clone)]
struct Rel {
    from: From,
    cols: Vec<ScopeCol>,
    ti: usize,
}

pub struct Builder<'a> {
    pub g: Gen<'a>,
    tables: &'a [Table],
    seq: usize,
    bare_used: Vec<usize>,
    pub feats: Vec<String>,
    /// core mode: inner joins only (the subset measured free of open findings)
    pub core: bool,
}

fn cexpr(c: &ScopeCol) -> Expr {
    Expr::Col { rel: Some(c.rel.clone()), name: c.name.clone() }
}

impl<'a> Builder<'a> {
    pub fn new(tape: Vec<u16>, p: &'a Profile, tables: &'a [Table]) -> Self {
        Builder { g: Gen::new(tape, p), tables, seq: 0, bare_used: vec![], feats: vec![], core: false }
    }
    fn feat(&mut self, f: &str) {
        if !self.feats.iter().any(|x| x == f) {
            self.feats.push(f.to_string());
        }
    }
    fn fresh(&mut self, p: &str) -> String {
        self.seq += 1;
        format!("{}{}", p, self.seq)
    }
    fn rel(&mut self, ti: usize) -> Rel {
        let t = &self.tables[ti];
        let alias = if self.bare_used.contains(&ti) || self.g.t.chance(45) {
            Some(self.fresh("t"))
        } else {
            self.bare_used.push(ti);
            None
        };
        let q = alias.clone().unwrap_or_else(|| t.name.clone());
        let cols = t.cols.iter().map(|c| ScopeCol { rel: q.clone(), name: c.name.clone(), ty: c.ty }).collect();
        Rel { from: From::Table { name: t.name.clone(), alias }, cols, ti }
    }
    /// index of a table: mostly distinct tables, sometimes a repeat (self-join)
    fn pick_table(&mut self, used: &[usize]) -> usize {
        let n = self.tables.len();
        let unused: Vec<usize> = (0..n).filter(|i| !used.contains(i)).collect();
        if !unused.is_empty() && !self.g.t.chance(12) {
            unused[self.g.t.pick(unused.len())]
        } else {
            if !used.is_empty() {
                self.feat("self_join");
            }
            self.g.t.pick(n)
        }
    }
    /// an equi-join key pair: same integer type on both sides whenever the two
    /// relations allow it (INTEGER = BIGINT keys hit a known hash-join defect;
    /// they still occur when no same-type pair exists)
    fn key_pair(&mut self, l: &[ScopeCol], r: &[ScopeCol], _hint: Option<()>) -> (ScopeCol, ScopeCol) {
        let mut same = vec![];
        for a in l {
            for b in r {
                if a.ty == b.ty {
                    same.push((a.clone(), b.clone()));
                }
            }
        }
        if !same.is_empty() {
            return same[self.g.t.pick(same.len())].clone();
        }
        self.feat("join_key_mixed_types");
        (l[self.g.t.pick(l.len())].clone(), r[self.g.t.pick(r.len())].clone())
    }

    /// a literal taken from the column's actual data (so predicates select)
    fn data_literal(&mut self, c: &ScopeCol, ti: usize) -> Expr {
        let t = &self.tables[ti];
        if let Some(ci) = t.col_index(&c.name) {
            let vals: Vec<&Value> = t.rows.iter().map(|r| &r[ci]).filter(|v| !v.is_null()).collect();
            if !vals.is_empty() && !self.g.t.chance(15) {
                return Expr::Lit(vals[self.g.t.pick(vals.len())].clone());
            }
        }
        self.g.literal(c.ty)
    }

    /// FROM tree over `n` relations, each new one equi-joined to an earlier
    /// one on integer columns. Returns (from list, visible columns,
    /// WHERE-equalities of comma joins, relations).
    fn join_tree(&mut self, n: usize, two_col: bool, inner_only: bool) -> (Vec<From>, Vec<(ScopeCol, usize)>, Vec<Expr>, Vec<Rel>) {
        let core_outer = self.core && n == 2 && !inner_only;
        let mut used = vec![];
        let ti = self.pick_table(&used);
        used.push(ti);
        let first = self.rel(ti);
        let mut rels = vec![first.clone()];
        let mut cur = first.from.clone();
        // relations whose columns an ON clause of the current tree may name
        let mut tree: Vec<usize> = vec![0];
        let mut visible: Vec<(ScopeCol, usize)> = first.cols.iter().map(|c| (c.clone(), first.ti)).collect();
        let mut comma: Vec<From> = vec![];
        let mut where_eq = vec![];
        for _ in 1..n {
            let ti = self.pick_table(&used);
            used.push(ti);
            let r = self.rel(ti);
            let explicit = !self.g.t.chance(25);
            // partner: an earlier relation still visible
            let cands: Vec<usize> = if explicit { tree.clone() } else { (0..rels.len()).collect() };
            let cands: Vec<usize> = cands.into_iter().filter(|j| visible.iter().any(|(c, _)| c.rel == rels[*j].cols[0].rel)).collect();
            if cands.is_empty() {
                break;
            }
            let j = cands[self.g.t.pick(cands.len())];
            let lints: Vec<ScopeCol> = rels[j].cols.iter().filter(|c| c.ty.is_int()).cloned().collect();
            let rints: Vec<ScopeCol> = r.cols.iter().filter(|c| c.ty.is_int()).cloned().collect();
            let mut eqs = vec![];
            let (a, b) = self.key_pair(&lints, &rints, None);
            eqs.push(Expr::eq(cexpr(&a), cexpr(&b)));
            if two_col || self.g.t.chance(25) {
                let a2: Vec<ScopeCol> = lints.iter().filter(|c| c.name != a.name).cloned().collect();
                let b2: Vec<ScopeCol> = rints.iter().filter(|c| c.name != b.name).cloned().collect();
                if !a2.is_empty() && !b2.is_empty() {
                    self.feat("join_2col");
                    let (x, y) = self.key_pair(&a2, &b2, None);
                    eqs.push(Expr::eq(cexpr(&x), cexpr(&y)));
                }
            }
            if explicit {
                let kind = if core_outer {
                    [JoinKind::Inner, JoinKind::Left, JoinKind::Left, JoinKind::Right, JoinKind::Full][self.g.t.pick(5)]
                } else if inner_only || self.core {
                    JoinKind::Inner
                } else {
                    [
                        JoinKind::Inner,
                        JoinKind::Inner,
                        JoinKind::Inner,
                        JoinKind::Inner,
                        JoinKind::Inner,
                        JoinKind::Left,
                        JoinKind::Left,
                        JoinKind::Semi,
                        JoinKind::Anti,
                        JoinKind::Right,
                        JoinKind::Full,
                    ][self.g.t.pick(11)]
                };
                self.feat(match kind {
                    JoinKind::Inner => "join_inner",
                    JoinKind::Left => "join_left",
                    JoinKind::Right => "join_right",
                    JoinKind::Full => "join_full",
                    JoinKind::Semi => "join_semi",
                    JoinKind::Anti => "join_anti",
                    JoinKind::Cross => "join_cross",
                });
                let mut on = eqs.into_iter().reduce(Expr::and).unwrap();
                if self.g.t.chance(15) {
                    self.feat("join_residual");
                    let mut both: Vec<ScopeCol> = rels[j].cols.clone();
                    both.extend(r.cols.iter().cloned());
                    let sc = GenScope { cols: both, outer: vec![] };
                    let extra = self.g.comparison(&sc, 0, false);
                    on = Expr::and(on, extra);
                }
                cur = From::Join { l: Box::new(cur), r: Box::new(r.from.clone()), kind, on: Some(on) };
                if !matches!(kind, JoinKind::Semi | JoinKind::Anti) {
                    visible.extend(r.cols.iter().map(|c| (c.clone(), r.ti)));
                    tree.push(rels.len());
                }
            } else {
                self.feat("join_comma");
                where_eq.extend(eqs);
                comma.push(std::mem::replace(&mut cur, r.from.clone()));
                visible.extend(r.cols.iter().map(|c| (c.clone(), r.ti)));
                tree = vec![rels.len()];
            }
            rels.push(r);
        }
        comma.push(cur);
        (comma, visible, where_eq, rels)
    }

    fn filter(&mut self, visible: &[(ScopeCol, usize)], conds: &mut Vec<Expr>) {
        if self.g.t.chance(45) {
            self.feat("where");
            if self.g.t.chance(50) {
                // a selective predicate on real data
                let (c, ti) = visible[self.g.t.pick(visible.len())].clone();
                let lit = self.data_literal(&c, ti);
                let op = [BinOp::Eq, BinOp::Ge, BinOp::Lt, BinOp::Ne][self.g.t.pick(4)];
                conds.push(Expr::bin(cexpr(&c), op, lit));
            } else {
                let sc = GenScope { cols: visible.iter().map(|(c, _)| c.clone()).collect(), outer: vec![] };
                conds.push(self.g.bool_expr(&sc, 2, false));
            }
        }
    }

    fn order_limit(&mut self, q: &mut Query, out: &[String]) {
        if out.is_empty() || !self.g.t.chance(45) {
            return;
        }
        self.feat("order_by");
        let nk = 1 + self.g.t.pick(out.len().min(2));
        let mut used = vec![];
        for _ in 0..nk {
            let i = self.g.t.pick(out.len());
            if used.contains(&i) {
                continue;
            }
            used.push(i);
            q.order_by.push(OrderKey { e: Expr::col(&out[i]), desc: self.g.t.chance(50), nulls_first: None });
        }
        if self.g.t.chance(65) {
            self.feat("limit");
            q.limit = Some(self.g.t.pick(6) as u64);
            if self.g.t.chance(20) {
                self.feat("offset");
                q.offset = Some(self.g.t.pick(3) as u64);
            }
        }
    }

    /// Aggregate above a join tree. `mode`: 0 free, 1 SUM-only (eager
    /// aggregation), 2 two integer keys (packed group keys), 3 FD-shaped
    /// (first key integer, further keys from anywhere).
    fn agg_query(&mut self, mode: u8) -> Query {
        let n = 1 + self.g.t.pick(3);
        let n = if mode == 1 { n.max(2) } else { n };
        let inner_only = mode == 1 && self.g.t.chance(70);
        let (from, visible, where_eq, _rels) = self.join_tree(n, false, inner_only);
        let mut conds = where_eq;
        if mode != 1 || self.g.t.chance(30) {
            self.filter(&visible, &mut conds);
        }
        let ints: Vec<(ScopeCol, usize)> = visible.iter().filter(|(c, _)| c.ty.is_int()).cloned().collect();
        let nums: Vec<(ScopeCol, usize)> = visible.iter().filter(|(c, _)| c.ty.is_numeric()).cloned().collect();
        let mut keys: Vec<ScopeCol> = vec![];
        let nk = match mode {
            1 => self.g.t.pick(3),
            2 => 2,
            3 => 2 + self.g.t.pick(2),
            _ => 1 + self.g.t.pick(3),
        };
        // core mode: two integer keys above an outer join are PackedGroupKeys' open
        // NULL-extension finding; mostly avoid exactly that combination
        let outer = ["join_left", "join_right", "join_full"].iter().any(|f| self.feats.iter().any(|x| x == f));
        let nk = if self.core && outer && nk == 2 && !self.g.t.chance(15) { 3 } else { nk };
        for i in 0..nk {
            let pool: &Vec<(ScopeCol, usize)> = if mode == 2 || (mode == 3 && i == 0) { &ints } else { &visible };
            let c = pool[self.g.t.pick(pool.len())].0.clone();
            if !keys.iter().any(|k| k.rel == c.rel && k.name == c.name) {
                keys.push(c);
            }
        }
        let mut items = vec![];
        let mut out = vec![];
        for k in &keys {
            let a = self.fresh("c");
            items.push(Item::Expr(cexpr(k), Some(a.clone())));
            out.push(a);
        }
        let na = 1 + self.g.t.pick(2);
        let mut aggs = vec![];
        for _ in 0..na {
            let e = if mode == 1 {
                self.feat("sum_agg");
                let a = nums[self.g.t.pick(nums.len())].0.clone();
                match self.g.t.pick(5) {
                    0 | 1 => Expr::agg(AggF::Sum, cexpr(&a)),
                    2 | 3 => {
                        let b = nums[self.g.t.pick(nums.len())].0.clone();
                        Expr::agg(AggF::Sum, Expr::bin(cexpr(&a), BinOp::Mul, cexpr(&b)))
                    }
                    _ => {
                        let b = nums[self.g.t.pick(nums.len())].0.clone();
                        let op = [BinOp::Add, BinOp::Sub][self.g.t.pick(2)];
                        Expr::agg(AggF::Sum, Expr::bin(cexpr(&a), op, Expr::bin(cexpr(&b), BinOp::Mul, Expr::int(2))))
                    }
                }
            } else {
                let (c, _) = visible[self.g.t.pick(visible.len())].clone();
                match self.g.t.pick(7) {
                    0 => Expr::count_star(),
                    1 => Expr::agg(AggF::Count, cexpr(&c)),
                    2 if c.ty.is_numeric() => Expr::agg(AggF::Sum, cexpr(&c)),
                    3 if c.ty != ColType::Bool => Expr::agg(AggF::Min, cexpr(&c)),
                    4 if c.ty != ColType::Bool => Expr::agg(AggF::Max, cexpr(&c)),
                    5 if c.ty.is_numeric() => Expr::agg(AggF::Avg, cexpr(&c)),
                    6 if c.ty != ColType::Double => Expr::Agg { f: AggF::Count, arg: Some(Box::new(cexpr(&c))), distinct: true },
                    _ => Expr::count_star(),
                }
            };
            let a = self.fresh("c");
            aggs.push(e.clone());
            items.push(Item::Expr(e, Some(a.clone())));
            out.push(a);
        }
        let having = if mode != 1 && self.g.t.chance(25) {
            self.feat("having");
            let op = [BinOp::Gt, BinOp::Le, BinOp::Ne][self.g.t.pick(3)];
            Some(Expr::bin(aggs[0].clone(), op, Expr::int(self.g.t.pick(4) as i64)))
        } else {
            None
        };
        self.feat("group_by");
        if keys.is_empty() {
            self.feat("global_agg");
        }
        let group = if keys.is_empty() { Group::None } else { Group::By(keys.iter().map(cexpr).collect()) };
        let sel = Select { distinct: false, items, from, where_: conds.into_iter().reduce(Expr::and), group, having };
        let mut q = Query::select(sel);
        self.order_limit(&mut q, &out);
        q
    }

    /// `SELECT lk, COUNT(rcol) FROM l LEFT JOIN r ON lk = rk GROUP BY lk`
    fn left_count(&mut self) -> Query {
        self.feat("left_count");
        let lt = self.pick_table(&[]);
        let l = self.rel(lt);
        let rt = self.pick_table(&[lt]);
        let r = self.rel(rt);
        let lints: Vec<ScopeCol> = l.cols.iter().filter(|c| c.ty.is_int()).cloned().collect();
        let rints: Vec<ScopeCol> = r.cols.iter().filter(|c| c.ty.is_int()).cloned().collect();
        let (lk, rk) = self.key_pair(&lints, &rints, None);
        let rc = r.cols[self.g.t.pick(r.cols.len())].clone();
        let from = From::Join { l: Box::new(l.from), r: Box::new(r.from), kind: JoinKind::Left, on: Some(Expr::eq(cexpr(&lk), cexpr(&rk))) };
        let a1 = self.fresh("c");
        let a2 = self.fresh("c");
        let agg = if self.g.t.chance(80) { Expr::agg(AggF::Count, cexpr(&rc)) } else { Expr::count_star() };
        let sel = Select {
            distinct: false,
            items: vec![Item::Expr(cexpr(&lk), Some(a1.clone())), Item::Expr(agg, Some(a2.clone()))],
            from: vec![from],
            where_: None,
            group: Group::By(vec![cexpr(&lk)]),
            having: None,
        };
        let mut q = Query::select(sel);
        self.order_limit(&mut q, &[a1, a2]);
        q
    }

    /// plain projection above a join tree (two-column join keys on request)
    fn plain_query(&mut self, two_col: bool, or_shape: bool) -> Query {
        let n = if two_col || or_shape { 2 + self.g.t.pick(2) } else { 1 + self.g.t.pick(4) };
        let (from, visible, where_eq, _) = self.join_tree(n, two_col, or_shape);
        let mut conds = where_eq;
        if or_shape {
            self.feat("or_of_conjunctions");
            // (x = v1 AND y = w1) OR (x = v2 AND y = w2) [OR …] over columns of different relations
            let (x, xt) = visible[self.g.t.pick(visible.len())].clone();
            let others: Vec<(ScopeCol, usize)> = visible.iter().filter(|(c, _)| c.rel != x.rel).cloned().collect();
            let (y, yt) = if others.is_empty() { visible[self.g.t.pick(visible.len())].clone() } else { others[self.g.t.pick(others.len())].clone() };
            let nb = 2 + self.g.t.pick(2);
            let mut branches = vec![];
            for _ in 0..nb {
                let l1 = self.data_literal(&x, xt);
                let l2 = self.data_literal(&y, yt);
                let mut b = Expr::and(Expr::eq(cexpr(&x), l1), Expr::eq(cexpr(&y), l2));
                if self.g.t.chance(20) {
                    let sc = GenScope { cols: visible.iter().map(|(c, _)| c.clone()).collect(), outer: vec![] };
                    b = Expr::and(b, self.g.comparison(&sc, 0, false));
                }
                branches.push(b);
            }
            conds.push(branches.into_iter().reduce(|a, b| Expr::bin(a, BinOp::Or, b)).unwrap());
        }
        self.filter(&visible, &mut conds);
        let mut items = vec![];
        let mut out = vec![];
        let ni = 1 + self.g.t.pick(4);
        for _ in 0..ni {
            let (c, _) = visible[self.g.t.pick(visible.len())].clone();
            let a = self.fresh("c");
            let e = if c.ty.is_numeric() && self.g.t.chance(20) { Expr::bin(cexpr(&c), BinOp::Add, Expr::int(1)) } else { cexpr(&c) };
            items.push(Item::Expr(e, Some(a.clone())));
            out.push(a);
        }
        let distinct = self.g.t.chance(15);
        if distinct {
            self.feat("distinct");
        }
        let sel = Select { distinct, items, from, where_: conds.into_iter().reduce(Expr::and), group: Group::None, having: None };
        let mut q = Query::select(sel);
        if !distinct && self.g.t.chance(25) {
            // ORDER BY a column that is not in the select list (the Sort sits below the
            // projection and needs a column nothing else does)
            self.feat("order_by_unselected_column");
            let (c, _) = visible[self.g.t.pick(visible.len())].clone();
            q.order_by.push(OrderKey { e: cexpr(&c), desc: self.g.t.chance(50), nulls_first: None });
        } else {
            self.order_limit(&mut q, &out);
        }
        q
    }

    /// `… GROUP BY k HAVING SUM(v) > (SELECT SUM(v) * f FROM <same FROM/WHERE>)`
    fn having_total(&mut self) -> Query {
        self.feat("having_total");
        let n = 1 + self.g.t.pick(2);
        let (from, visible, where_eq, _) = self.join_tree(n, false, true);
        let mut conds = where_eq;
        self.filter(&visible, &mut conds);
        let where_ = conds.into_iter().reduce(Expr::and);
        let nums: Vec<ScopeCol> = visible.iter().filter(|(c, _)| c.ty.is_numeric()).map(|(c, _)| c.clone()).collect();
        let k = visible[self.g.t.pick(visible.len())].0.clone();
        let v = nums[self.g.t.pick(nums.len())].clone();
        let sum = Expr::agg(AggF::Sum, cexpr(&v));
        let inner_item = match self.g.t.pick(3) {
            0 => sum.clone(),
            1 => Expr::bin(sum.clone(), BinOp::Mul, Expr::Lit(Value::Double(0.25))),
            _ => Expr::bin(sum.clone(), BinOp::Mul, Expr::Lit(Value::Double(0.5))),
        };
        let inner = Select::simple(vec![Item::Expr(inner_item, None)], from.clone(), where_.clone());
        let op = [BinOp::Gt, BinOp::Ge, BinOp::Lt][self.g.t.pick(3)];
        let having = Expr::bin(sum.clone(), op, Expr::Scalar(Box::new(Query::select(inner))));
        let a1 = self.fresh("c");
        let a2 = self.fresh("c");
        let sel = Select {
            distinct: false,
            items: vec![Item::Expr(cexpr(&k), Some(a1.clone())), Item::Expr(sum, Some(a2.clone()))],
            from,
            where_,
            group: Group::By(vec![cexpr(&k)]),
            having: Some(having),
        };
        let mut q = Query::select(sel);
        self.order_limit(&mut q, &[a1, a2]);
        q
    }

    /// inner joins filtered by an EXISTS / IN subquery (semi/anti below joins)
    fn semi_below_join(&mut self) -> Query {
        self.feat("semi_below_join");
        let n = 2 + self.g.t.pick(2);
        let (from, visible, where_eq, _) = self.join_tree(n, false, true);
        let mut conds = where_eq;
        let st = self.pick_table(&[]);
        let sub = self.rel(st);
        let oints: Vec<ScopeCol> = visible.iter().filter(|(c, _)| c.ty.is_int()).map(|(c, _)| c.clone()).collect();
        let sints: Vec<ScopeCol> = sub.cols.iter().filter(|c| c.ty.is_int()).cloned().collect();
        let (o, s) = self.key_pair(&oints, &sints, None);
        let neg = self.g.t.chance(40);
        let mut sub_conds = vec![];
        if self.g.t.chance(40) {
            let c = sub.cols[self.g.t.pick(sub.cols.len())].clone();
            let lit = self.data_literal(&c, sub.ti);
            sub_conds.push(Expr::bin(cexpr(&c), [BinOp::Ge, BinOp::Ne, BinOp::Lt][self.g.t.pick(3)], lit));
        }
        let pred = if self.g.t.chance(50) {
            self.feat(if neg { "not_exists" } else { "exists" });
            self.feat("correlated");
            sub_conds.push(Expr::eq(cexpr(&s), cexpr(&o)));
            let sel = Select::simple(vec![Item::Expr(Expr::int(1), None)], vec![sub.from], sub_conds.into_iter().reduce(Expr::and));
            Expr::Exists { q: Box::new(Query::select(sel)), neg }
        } else {
            self.feat(if neg { "not_in_subquery" } else { "in_subquery" });
            let sel = Select::simple(vec![Item::Expr(cexpr(&s), None)], vec![sub.from], sub_conds.into_iter().reduce(Expr::and));
            Expr::InSub { e: Box::new(cexpr(&o)), q: Box::new(Query::select(sel)), neg }
        };
        conds.push(pred);
        self.filter(&visible, &mut conds);
        let mut items = vec![];
        let mut out = vec![];
        for _ in 0..1 + self.g.t.pick(3) {
            let (c, _) = visible[self.g.t.pick(visible.len())].clone();
            let a = self.fresh("c");
            items.push(Item::Expr(cexpr(&c), Some(a.clone())));
            out.push(a);
        }
        let sel = Select::simple(items, from, conds.into_iter().reduce(Expr::and));
        let mut q = Query::select(sel);
        self.order_limit(&mut q, &out);
        q
    }

    /// derived table whose computed columns shadow base-column names, grouped /
    /// joined above (by-name statistics lookups must not apply to them)
    fn shadowing_derived(&mut self) -> Query {
        let ti = self.pick_table(&[]);
        let t = &self.tables[ti];
        let ints: Vec<&Column> = t.cols.iter().filter(|c| c.ty.is_int()).collect();
        let a = ints[self.g.t.pick(ints.len())].name.clone();
        let b = ints[self.g.t.pick(ints.len())].name.clone();
        let b = if b == a { ints.iter().map(|c| c.name.clone()).find(|n| *n != a).unwrap_or(b) } else { b };
        let shift = [-5i64, -1, 3, 100][self.g.t.pick(4)];
        let (src_a, src_b) = (a.clone(), b.clone());
        let n_before = self.seq;
        // half of the time the computed columns get fresh names (no shadowing)
        let (a, b) = if self.g.t.chance(50) { (a, b) } else { (self.fresh("x"), self.fresh("x")) };
        let inner_items = vec![
            Item::Expr(Expr::bin(Expr::col(&src_a), BinOp::Add, Expr::int(shift)), Some(a.clone())),
            Item::Expr(Expr::bin(Expr::col(&src_b), BinOp::Sub, Expr::int(self.g.t.pick(4) as i64)), Some(b.clone())),
        ];
        if self.seq == n_before {
            self.feat("shadowing_derived");
        } else {
            self.feat("computed_derived");
        }
        let inner = Select::simple(inner_items, vec![From::Table { name: t.name.clone(), alias: None }], None);
        let d = self.fresh("d");
        let from = From::Derived { q: Box::new(Query::select(inner)), alias: d.clone(), cols: None };
        let (c1, c2, c3) = (self.fresh("c"), self.fresh("c"), self.fresh("c"));
        let sel = Select {
            distinct: false,
            items: vec![
                Item::Expr(Expr::qcol(&d, &a), Some(c1.clone())),
                Item::Expr(Expr::qcol(&d, &b), Some(c2.clone())),
                Item::Expr(Expr::count_star(), Some(c3.clone())),
            ],
            from: vec![from],
            where_: None,
            group: Group::By(vec![Expr::qcol(&d, &a), Expr::qcol(&d, &b)]),
            having: None,
        };
        let mut q = Query::select(sel);
        self.order_limit(&mut q, &[c1, c2, c3]);
        q
    }
}

/// One generated statement: half from `sqlgen`'s full grammar, half from the
/// focused shapes above.
/// the sqlgen feature subset measured free of optimizer-related open findings
pub fn core_profile() -> Profile {
    Profile::from_spec("minimal+logic+deep+in_list_null+like+is_distinct_from+bool_literals+distinct+order_by+limit+nulls_order+joins3+explicit_joins+residual_on+comma_joins+group_by+having+count_distinct+derived")
}

pub fn gen_statement(tables: &[Table], tape: Vec<u16>, core: bool) -> (Query, Vec<String>) {
    let mut profile = if core { core_profile() } else { Profile::full() };
    if !core {
        profile.semi_anti_joins = true;
    } else if tape.first().map(|x| x % 2 == 1).unwrap_or(false) {
        // the other core variant: at most two relations, any outer join
        profile.max_from = 2;
        profile.outer_joins = true;
    }
    let mut b = Builder::new(tape, &profile, tables);
    b.core = core;
    let shape = b.g.t.pick(20);
    // core mode: the shapes whose open findings are all outside it
    let shape = if core && matches!(shape, 13 | 17 | 18 | 19) { 6 + shape % 7 } else { shape };
    let q = match shape {
        0..=5 => {
            b.feat("shape:sqlgen");
            let cat = Catalog::of(tables);
            let (q, _) = b.g.query(&cat, 2);
            q
        }
        6 | 7 => {
            b.feat("shape:agg_free");
            b.agg_query(0)
        }
        8 | 9 => {
            b.feat("shape:agg_fd");
            b.agg_query(3)
        }
        10 | 11 => {
            b.feat("shape:agg_sum");
            b.agg_query(1)
        }
        12 => {
            b.feat("shape:agg_2int");
            b.agg_query(2)
        }
        13 => {
            b.feat("shape:left_count");
            b.left_count()
        }
        14 => {
            b.feat("shape:join_2col");
            b.plain_query(true, false)
        }
        15 => {
            b.feat("shape:or_conj");
            b.plain_query(false, true)
        }
        16 => {
            b.feat("shape:plain");
            b.plain_query(false, false)
        }
        17 => {
            b.feat("shape:having_total");
            b.having_total()
        }
        18 => {
            b.feat("shape:semi_below_join");
            b.semi_below_join()
        }
        _ => {
            b.feat("shape:shadowing_derived");
            b.shadowing_derived()
        }
    };
    let mut feats = b.feats.clone();
    for f in &b.g.features {
        if !feats.iter().any(|x| x == f) {
            feats.push(f.to_string());
        }
    }
    (q, feats)
}

pub fn opt_case_strategy(tier: Tier) -> BoxedStrategy<OptCase> {
    opt_case_strategy_mode(tier, false)
}

pub fn opt_case_strategy_mode(tier: Tier, core: bool) -> BoxedStrategy<OptCase> {
    let max_rows = tier.pick(10, 40);
    (
        stat_tables(max_rows),
        proptest::collection::vec(any::<u16>(), 0..200),
        proptest::collection::vec(parquet_layout_strategy(max_rows), 3),
        proptest::collection::vec(proptest::collection::vec(0..=max_rows, 0..3), 3),
    )
        .prop_map(move |(tables, tape, layouts, cuts)| {
            let (query, features) = gen_statement(&tables, tape, core);
            let n = tables.len();
            OptCase {
                sql_case: SqlCase { tables, query, cuts: cuts.into_iter().take(n).collect(), features },
                layouts: layouts
                    .into_iter()
                    .take(n)
                    .map(|mut l| {
                        // footer statistics are the point of the Parquet registration
                        if l.stats == 0 {
                            l.stats = 1;
                        }
                        l
                    })
                    .collect(),
            }
        })
        .boxed()
}

// ---------------------------------------------------------------------------
// contexts, rule lists
// ---------------------------------------------------------------------------

pub fn mem_context(c: &OptCase) -> ExecutionContext {
    crate::sqlcheck::mem_context(&c.sql_case)
}

pub fn parquet_context(c: &OptCase, dir: &TempDir) -> Result<ExecutionContext, String> {
    let mut ctx = ExecutionContext::new();
    for (i, t) in c.sql_case.tables.iter().enumerate() {
        let layout = c.layouts.get(i).cloned().unwrap_or_else(ParquetLayout::single);
        register_parquet(&mut ctx, t, dir.path(), &layout)?;
    }
    Ok(ctx)
}

pub fn stats_of(ctx: &ExecutionContext) -> HashMap<String, TableStatistics> {
    let mut stats = HashMap::new();
    for name in ctx.table_names() {
        if let Some(p) = ctx.table_provider(&name) {
            if let Some(s) = p.statistics() {
                stats.insert(name.clone(), s);
            }
        }
    }
    stats
}

/// The production rule order of `Optimizer::new()` (src/optimizer/mod.rs).
/// `production_matches` checks the copy against the engine on every case.
pub fn production() -> Vec<Arc<dyn OptimizerRule>> {
    vec![
        Arc::new(qopt::ConstantFolding),
        Arc::new(qopt::DeriveOrPredicates),
        Arc::new(qopt::PredicatePushdown),
        Arc::new(qopt::FlattenDependentJoin),
        Arc::new(qopt::SubqueryDecorrelation),
        Arc::new(qopt::SemiJoinPushdown),
        Arc::new(qopt::JoinReorder::new()),
        Arc::new(qopt::PredicatePushdown),
        Arc::new(qopt::HavingTotalCse),
        Arc::new(qopt::GroupKeyReduction::new()),
        Arc::new(qopt::EagerAggregation::new()),
        Arc::new(qopt::PackedGroupKeys::new()),
        Arc::new(qopt::PackedJoinKeys::new()),
        Arc::new(qopt::ProjectionPushdown),
        Arc::new(qopt::VectorSearchPushdown),
    ]
}

pub const STAT_RULES: [&str; 5] = ["JoinReorder", "GroupKeyReduction", "EagerAggregation", "PackedGroupKeys", "PackedJoinKeys"];

/// `optimize` with panics caught; statistics-aware when `stats` is non-empty.
pub fn optimize_with(rules: Vec<Arc<dyn OptimizerRule>>, stats: &HashMap<String, TableStatistics>, plan: &LogicalPlan) -> Result<LogicalPlan, String> {
    let opt = Optimizer::with_rules(rules).with_table_statistics(stats.clone());
    let plan = plan.clone();
    std::panic::catch_unwind(std::panic::AssertUnwindSafe(move || opt.optimize(plan)))
        .map_err(|p| format!("PANIC: {}", panic_text(p)))?
        .map_err(|e| e.to_string())
}

pub fn optimize_production(stats: &HashMap<String, TableStatistics>, plan: &LogicalPlan) -> Result<LogicalPlan, String> {
    let opt = Optimizer::new().with_table_statistics(stats.clone());
    let plan = plan.clone();
    std::panic::catch_unwind(std::panic::AssertUnwindSafe(move || opt.optimize(plan)))
        .map_err(|p| format!("PANIC: {}", panic_text(p)))?
        .map_err(|e| e.to_string())
}

pub fn bind(ctx: &ExecutionContext, sql: &str) -> Result<LogicalPlan, String> {
    std::panic::catch_unwind(std::panic::AssertUnwindSafe(|| ctx.logical_plan(sql)))
        .map_err(|p| format!("PANIC: {}", panic_text(p)))?
        .map_err(|e| e.to_string())
}

/// HavingTotalCse numbers its shared sub-plans from a process-global counter;
/// plan texts are compared modulo that number.
pub fn plan_text(p: &LogicalPlan) -> String {
    fn strip(s: &str, prefix: &str) -> String {
        let mut out = String::with_capacity(s.len());
        let mut rest = s;
        while let Some(i) = rest.find(prefix) {
            let (a, b) = rest.split_at(i + prefix.len());
            out.push_str(a);
            rest = b.trim_start_matches(|c: char| c.is_ascii_digit());
        }
        out.push_str(rest);
        out
    }
    // (FlattenDependentJoin numbers its DelimGet nodes the same way)
    strip(&strip(&format!("{:?}", p), "__having_total_cse_"), "delim_id: ")
}

/// The rule configurations examined per case: every production rule alone
/// (distinct names), every prefix of the production order, the whole list.
pub fn configurations() -> Vec<(String, Vec<Arc<dyn OptimizerRule>>)> {
    let prod = production();
    let mut out: Vec<(String, Vec<Arc<dyn OptimizerRule>>)> = vec![];
    let mut seen: Vec<String> = vec![];
    for r in &prod {
        let n = r.name().to_string();
        if !seen.contains(&n) {
            seen.push(n.clone());
            out.push((format!("alone:{}", n), vec![r.clone()]));
        }
    }
    for k in 2..=prod.len() {
        out.push((format!("prefix:{}:{}", k, prod[k - 1].name()), prod[..k].to_vec()));
    }
    out
}

// ---------------------------------------------------------------------------
// plan traversal helpers
// ---------------------------------------------------------------------------

use query_engine::planner as qp;

/// Pre-order visit of an expression tree (not descending into subquery plans).
pub fn expr_walk<'e>(e: &'e qp::Expr, f: &mut dyn FnMut(&'e qp::Expr)) {
    use qp::Expr as E;
    f(e);
    match e {
        E::Column(_) | E::Literal(_) | E::Wildcard | E::QualifiedWildcard(_) | E::ScalarSubquery(_) | E::Exists { .. } => {}
        E::BinaryExpr { left, right, .. } => {
            expr_walk(left, f);
            expr_walk(right, f);
        }
        E::UnaryExpr { expr, .. } | E::Cast { expr, .. } | E::Alias { expr, .. } | E::InSubquery { expr, .. } => expr_walk(expr, f),
        E::Aggregate { args, .. } | E::ScalarFunc { args, .. } => {
            for a in args {
                expr_walk(a, f);
            }
        }
        E::Case { operand, when_then, else_expr } => {
            if let Some(o) = operand {
                expr_walk(o, f);
            }
            for (w, t) in when_then {
                expr_walk(w, f);
                expr_walk(t, f);
            }
            if let Some(x) = else_expr {
                expr_walk(x, f);
            }
        }
        E::InList { expr, list, .. } => {
            expr_walk(expr, f);
            for x in list {
                expr_walk(x, f);
            }
        }
        E::Between { expr, low, high, .. } => {
            expr_walk(expr, f);
            expr_walk(low, f);
            expr_walk(high, f);
        }
        E::WindowFunction(w) => {
            for a in w.args.iter().chain(w.partition_by.iter()) {
                expr_walk(a, f);
            }
            for s in &w.order_by {
                expr_walk(&s.expr, f);
            }
        }
    }
}

/// Expressions held directly by a plan node.
pub fn node_exprs(p: &LogicalPlan) -> Vec<&qp::Expr> {
    let mut v: Vec<&qp::Expr> = vec![];
    match p {
        LogicalPlan::Scan(n) => v.extend(n.filter.iter()),
        LogicalPlan::Filter(n) => v.push(&n.predicate),
        LogicalPlan::Project(n) => v.extend(n.exprs.iter()),
        LogicalPlan::Join(n) => {
            for (l, r) in &n.on {
                v.push(l);
                v.push(r);
            }
            v.extend(n.filter.iter());
        }
        LogicalPlan::Aggregate(n) => {
            v.extend(n.group_by.iter());
            v.extend(n.aggregates.iter());
        }
        LogicalPlan::Window(n) => {
            for (_, w) in &n.window_exprs {
                v.extend(w.args.iter());
                v.extend(w.partition_by.iter());
                v.extend(w.order_by.iter().map(|s| &s.expr));
            }
        }
        LogicalPlan::Sort(n) => v.extend(n.order_by.iter().map(|s| &s.expr)),
        LogicalPlan::Values(n) => {
            for r in &n.values {
                v.extend(r.iter());
            }
        }
        LogicalPlan::DelimJoin(n) => {
            for (l, r) in &n.on {
                v.push(l);
                v.push(r);
            }
            v.extend(n.delim_columns.iter());
        }
        LogicalPlan::DelimGet(n) => v.extend(n.columns.iter()),
        LogicalPlan::VectorSearch(n) => {
            v.push(&n.sort_key.expr);
            v.extend(n.filter.iter());
        }
        LogicalPlan::Limit(_) | LogicalPlan::Distinct(_) | LogicalPlan::Union(_) | LogicalPlan::SubqueryAlias(_) | LogicalPlan::EmptyRelation(_) => {}
    }
    v
}

/// Every plan node, including the plans of subqueries inside expressions.
pub fn for_each_node<'p>(p: &'p LogicalPlan, f: &mut dyn FnMut(&'p LogicalPlan)) {
    f(p);
    for e in node_exprs(p) {
        let mut subs: Vec<&'p LogicalPlan> = vec![];
        expr_walk(e, &mut |x| match x {
            qp::Expr::ScalarSubquery(sp) => subs.push(sp.as_ref()),
            qp::Expr::Exists { subquery, .. } | qp::Expr::InSubquery { subquery, .. } => subs.push(subquery.as_ref()),
            _ => {}
        });
        for s in subs {
            for_each_node(s, f);
        }
    }
    for c in p.children() {
        for_each_node(c, f);
    }
}

/// A join whose equi-key pair has different Arrow types on its two sides
/// (INTEGER = BIGINT): the hash join's typed fast paths panic / error on it.
pub fn mixed_type_join_key(p: &LogicalPlan) -> Option<String> {
    let mut hit = None;
    for_each_node(p, &mut |n| {
        let (l, r, on) = match n {
            LogicalPlan::Join(j) => (&j.left, &j.right, &j.on),
            LogicalPlan::DelimJoin(j) => (&j.left, &j.right, &j.on),
            _ => return,
        };
        let both = l.schema().merge(&r.schema());
        // declared type of a key expression; a qualified column falls back to the
        // unique field of that bare name (rule-made schemas drop the qualifier)
        let ty = |e: &qp::Expr| -> Option<arrow::datatypes::DataType> {
            if let Ok(t) = e.data_type(&both) {
                return Some(t);
            }
            if let qp::Expr::Column(c) = e {
                let m: Vec<&qp::SchemaField> = both.fields().iter().filter(|f| f.name.eq_ignore_ascii_case(&c.name)).collect();
                if m.len() == 1 {
                    return Some(m[0].data_type.clone());
                }
            }
            None
        };
        for (a, b) in on {
            if let (Some(ta), Some(tb)) = (ty(a), ty(b)) {
                if ta != tb {
                    hit = Some(format!("{} ({:?}) = {} ({:?})", a, ta, b, tb));
                }
            }
        }
    });
    hit
}

// ---------------------------------------------------------------------------
// key-packing profile (PackedJoinKeys / PackedGroupKeys)
// ---------------------------------------------------------------------------

/// Tables for the rules that encode two integer keys as one (`a*K + b`, `K` and
/// the bit widths from footer statistics). Every integer column is non-negative
/// and NULL-free in its two key columns (the rules' gate) and has its OWN
/// domain width, so that across a two-key join the four columns' maxima come in
/// every order — the encoding is injective only if K covers the larger of the
/// two "second" keys, the shift only if it covers the larger "first" key.
fn pack_table(name: &'static str, max_rows: usize) -> BoxedStrategy<Table> {
    let width = || prop_oneof![Just(2u32), Just(3), Just(4), Just(5), Just(8), Just(9), Just(17), Just(40), Just(70_000)];
    (
        width(),
        width(),
        width(),
        // INTEGER or BIGINT keys (one choice per table: the rules decline mixed widths)
        any::<bool>(),
        2..=max_rows.max(2),
        proptest::collection::vec(proptest::collection::vec(any::<u32>(), 4), max_rows.max(2)),
        prop_oneof![3 => Just(0u32), 1 => Just(25u32)],
    )
        .prop_map(move |(w0, w1, w2, int32, n, cells, c_null_pct)| {
            let kt = if int32 { ColType::Int32 } else { ColType::Int };
            let cols = vec![
                Column { name: format!("{}a", name), ty: kt },
                Column { name: format!("{}b", name), ty: kt },
                Column { name: format!("{}c", name), ty: kt },
                Column { name: format!("{}d", name), ty: ColType::Int },
            ];
            let rows = (0..n)
                .map(|i| {
                    let c = &cells[i];
                    vec![
                        Value::Int((c[0] % w0) as i64),
                        Value::Int((c[1] % w1) as i64),
                        if c[2] % 100 < c_null_pct { Value::Null } else { Value::Int((c[2] / 100 % w2) as i64) },
                        Value::Int((c[3] % 7) as i64),
                    ]
                })
                .collect();
            Table { name: name.to_string(), cols, rows }
        })
        .boxed()
}

pub fn pack_tables(max_rows: usize) -> BoxedStrategy<Vec<Table>> {
    (2usize..=3)
        .prop_flat_map(move |n| {
            let names = ["r", "s", "u"];
            (0..n).map(|i| pack_table(names[i], max_rows)).collect::<Vec<_>>()
        })
        .boxed()
}

/// Statements for the packing profile: two-column inner equi-joins (plain and
/// aggregated above) and GROUP BY over two integer keys.
pub fn gen_statement_packing(tables: &[Table], tape: Vec<u16>) -> (Query, Vec<String>) {
    let profile = core_profile();
    let mut b = Builder::new(tape, &profile, tables);
    b.core = true;
    let q = match b.g.t.pick(10) {
        0..=4 => {
            b.feat("shape:join_2col");
            b.plain_query(true, false)
        }
        5 | 6 => {
            b.feat("shape:agg_2int");
            b.agg_query(2)
        }
        7 | 8 => {
            b.feat("shape:agg_sum");
            b.agg_query(1)
        }
        _ => {
            b.feat("shape:agg_free");
            b.agg_query(0)
        }
    };
    (q, b.feats.clone())
}

pub fn opt_case_strategy_packing(tier: Tier) -> BoxedStrategy<OptCase> {
    let max_rows = tier.pick(14, 40);
    (
        pack_tables(max_rows),
        proptest::collection::vec(any::<u16>(), 0..200),
        proptest::collection::vec(parquet_layout_strategy(max_rows), 3),
        proptest::collection::vec(proptest::collection::vec(0..=max_rows, 0..3), 3),
    )
        .prop_map(move |(tables, tape, layouts, cuts)| {
            let (query, features) = gen_statement_packing(&tables, tape);
            let n = tables.len();
            OptCase {
                sql_case: SqlCase { tables, query, cuts: cuts.into_iter().take(n).collect(), features },
                layouts: layouts
                    .into_iter()
                    .take(n)
                    .map(|mut l| {
                        if l.stats == 0 {
                            l.stats = 1;
                        }
                        l
                    })
                    .collect(),
            }
        })
        .boxed()
}
