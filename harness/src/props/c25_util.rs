//! Shared by C21 / C22 / C25 (included with `#[path]`): run ONE generated
//! statement through SEVERAL engine configurations (batch layout, Parquet
//! layout, memory limit → spill, morsel on/off, forced disjoint aggregation)
//! and judge every configuration against the same `refsql` answer.
#![allow(dead_code)]

use crate::data::*;
use crate::refsql::{self, Db, RefAnswer};
use crate::runner::*;
use crate::sqlcheck::{fmt_tables, short_err};
use crate::sqlgen::SqlCase;
use query_engine::{ExecutionConfig, ExecutionContext};
use serde::{Deserialize, Serialize};
use std::collections::BTreeSet;
use std::sync::RwLock;

pub type Ev = BTreeSet<&'static str>;

/// One way of handing the tables to the engine and configuring execution.
#[derive(Clone, Debug, Serialize, Deserialize, PartialEq)]
pub struct EngineCfg {
    /// evidence label of the configuration ("mem", "mem1", "spill", "parquet", "disjoint", "nomorsel", …)
    pub label: String,
    /// None: in-memory tables split at the case's `cuts`; Some: Parquet, one layout per table (cycled)
    pub parquet: Option<Vec<ParquetLayout>>,
    /// in-memory only: ignore `cuts` (one batch per table)
    pub single_batch: bool,
    /// `ExecutionConfig::with_memory_limit`; spill happens when collected bytes > limit * 0.8
    pub mem_limit: Option<usize>,
    pub morsel: bool,
    /// `verif_hooks::set_force_disjoint(true)` while this configuration runs
    pub force_disjoint: bool,
    /// `verif_hooks::set_force_big(true)`: every Parquet table counts as above the
    /// streaming-scan size gate (streaming scan + runtime join-key filters)
    #[serde(default)]
    pub force_big: bool,
}

impl EngineCfg {
    pub fn mem(label: &str) -> Self {
        EngineCfg { label: label.into(), parquet: None, single_batch: false, mem_limit: None, morsel: true, force_disjoint: false, force_big: false }
    }
    pub fn big(mut self) -> Self {
        self.force_big = true;
        self
    }
    pub fn single(mut self) -> Self {
        self.single_batch = true;
        self
    }
    pub fn limit(mut self, bytes: usize) -> Self {
        self.mem_limit = Some(bytes);
        self
    }
    pub fn parquet(mut self, layouts: Vec<ParquetLayout>) -> Self {
        self.parquet = Some(layouts);
        self
    }
    pub fn no_morsel(mut self) -> Self {
        self.morsel = false;
        self
    }
    pub fn disjoint(mut self) -> Self {
        self.force_disjoint = true;
        self
    }
}

pub struct RunOut {
    pub rows: Result<Rows, String>,
    /// bytes the context's memory pool recorded as spilled (0 = nothing spilled)
    pub spilled: usize,
    /// physical plan text (only when asked for)
    pub plan: Option<String>,
}

/// `force_disjoint` is a process-global switch: runs that set it are exclusive,
/// all other runs share. Keeps every run (and therefore every replay) a pure
/// function of (case, configuration).
static HOOK_LOCK: RwLock<()> = RwLock::new(());

pub fn run_cfg(c: &SqlCase, cfg: &EngineCfg, sql: &str, want_plan: bool) -> RunOut {
    let tmp = TempDir::new("bh");
    let mut conf = ExecutionConfig::default()
        .with_morsel_execution(cfg.morsel)
        .with_spill_path(tmp.path().join("spill"));
    if let Some(l) = cfg.mem_limit {
        conf = conf.with_memory_limit(l);
    }
    let mut ctx = ExecutionContext::with_config(conf);
    for (i, t) in c.tables.iter().enumerate() {
        match &cfg.parquet {
            Some(layouts) => {
                let lay = if layouts.is_empty() { ParquetLayout::single() } else { layouts[i % layouts.len()].clone() };
                if let Err(e) = crate::engine::register_parquet(&mut ctx, t, &tmp.path().join("pq"), &lay) {
                    return RunOut { rows: Err(format!("register_parquet: {}", e)), spilled: 0, plan: None };
                }
            }
            None => {
                let cuts: Vec<usize> = if cfg.single_batch { vec![] } else { c.cuts.get(i).cloned().unwrap_or_default() };
                crate::engine::register_mem(&mut ctx, t, &cuts);
            }
        }
    }
    let (_r, _w);
    if cfg.force_disjoint || cfg.force_big {
        _w = HOOK_LOCK.write().unwrap_or_else(|e| e.into_inner());
        query_engine::verif_hooks::set_force_disjoint(cfg.force_disjoint);
        query_engine::verif_hooks::set_force_big(cfg.force_big);
    } else {
        _r = HOOK_LOCK.read().unwrap_or_else(|e| e.into_inner());
    }
    let plan = if want_plan {
        Some(match std::panic::catch_unwind(std::panic::AssertUnwindSafe(|| ctx.physical_plan(sql))) {
            Ok(Ok(p)) => query_engine::physical::display_plan(p.as_ref(), 0),
            Ok(Err(e)) => format!("plan error: {}", e),
            Err(_) => "plan panic".to_string(),
        })
    } else {
        None
    };
    let rows = crate::engine::run_sql(&ctx, sql);
    if cfg.force_disjoint || cfg.force_big {
        query_engine::verif_hooks::set_force_disjoint(false);
        query_engine::verif_hooks::set_force_big(false);
    }
    let spilled = ctx.memory_pool().spilled();
    RunOut { rows, spilled, plan }
}

/// What one configuration concluded.
pub struct CfgResult {
    pub label: String,
    pub answered: Option<usize>,
    pub spilled: bool,
    /// None = agrees with the reference (or engine error); Some(msg) = disagreement
    pub mismatch: Option<String>,
    /// finding id the mismatch was attributed to
    pub known: Option<&'static str>,
    pub plan: Option<String>,
}

pub struct MultiOutcome {
    pub verdict: Verdict,
    pub reference: Option<RefAnswer>,
    pub events: Ev,
    pub per_cfg: Vec<CfgResult>,
}

impl MultiOutcome {
    pub fn answered(&self) -> usize {
        self.per_cfg.iter().filter(|r| r.answered.is_some()).count()
    }
}

/// (case, reference events, reference answer, configuration, run result, mismatch message) → known-finding id
pub type CfgClassifier = fn(&SqlCase, &Ev, &RefAnswer, &EngineCfg, &RunOut, &str) -> Option<&'static str>;

/// Reference once, then every configuration; verdict = Fail if any
/// configuration disagrees unclassified, else Known if some disagreement is
/// attributed to an open finding, else Pass. An engine `Err` is an allowed
/// outcome (labelled); a panic is labelled too (C29's business).
pub fn judge_multi(c: &SqlCase, cfgs: &[EngineCfg], obs: &mut Obs, tol: f64, classify: CfgClassifier, want_plan: bool) -> MultiOutcome {
    let sql = c.query.sql();
    for f in &c.features {
        obs.label(format!("feat:{}", f));
    }
    obs.sample(serde_json::json!({
        "sql": sql,
        "configs": cfgs.iter().map(|c| c.label.clone()).collect::<Vec<_>>(),
        "tables": c.tables.iter().map(|t| format!("{}({} rows x {} cols)", t.name, t.rows.len(), t.cols.len())).collect::<Vec<_>>()
    }));
    let db = Db::new(&c.tables);
    let reference = match db.run(&c.query) {
        Ok(r) => r,
        Err(e) => {
            return MultiOutcome { verdict: Verdict::Discard(format!("ref:{}", short_err(&e))), reference: None, events: db.events.borrow().clone(), per_cfg: vec![] };
        }
    };
    let events = db.events.borrow().clone();
    if reference.sorted_full.is_none() && (reference.limit.is_some() || reference.offset.is_some()) {
        return MultiOutcome { verdict: Verdict::Discard("limit_without_order".into()), reference: None, events, per_cfg: vec![] };
    }
    let mut per_cfg = vec![];
    let mut fails: Vec<String> = vec![];
    let mut knowns: Vec<(&'static str, String)> = vec![];
    for cfg in cfgs {
        let out = run_cfg(c, cfg, &sql, want_plan);
        // H3 path marks (present only when the proposed `verif_hooks::mark` lines are in the
        // engine). The counters are process-global, so with parallel workers a mark may be
        // credited to a neighbouring case: they are evidence totals, never part of a verdict.
        for (name, n) in query_engine::verif_hooks::take_marks() {
            if n > 0 {
                obs.label(format!("mark:{}", name));
            }
        }
        let spilled = out.spilled > 0;
        let mut res = CfgResult { label: cfg.label.clone(), answered: None, spilled, mismatch: None, known: None, plan: None };
        match &out.rows {
            Err(e) => {
                obs.label(format!("engine_error[{}]:{}", cfg.label, short_err(e)));
                // development aid: BH_ERRLOG=1 prints the statements the engine refuses
                if std::env::var("BH_ERRLOG").is_ok() {
                    eprintln!("ENGINE-ERR [{}] {} <= {}", cfg.label, e.lines().next().unwrap_or(""), sql);
                }
            }
            Ok(got) => {
                res.answered = Some(got.len());
                obs.label(format!("engine_ok[{}]", cfg.label));
                if spilled {
                    obs.label(format!("spilled[{}]", cfg.label));
                }
                if let Err(msg) = refsql::compare_answer(&reference, got, tol) {
                    let full = format!(
                        "[config {}{}] {}\n sql: {}\n config: {}\n ref-events: {:?}\n tables: {}",
                        cfg.label,
                        if spilled { ", spilled" } else { "" },
                        msg,
                        sql,
                        serde_json::to_string(cfg).unwrap_or_default(),
                        events,
                        fmt_tables(&c.tables)
                    );
                    match classify(c, &events, &reference, cfg, &out, &msg) {
                        Some(id) => {
                            res.known = Some(id);
                            knowns.push((id, full.clone()));
                        }
                        None => fails.push(full.clone()),
                    }
                    res.mismatch = Some(full);
                }
            }
        }
        res.plan = out.plan;
        per_cfg.push(res);
    }
    let disagreeing: Vec<String> = per_cfg
        .iter()
        .filter(|r| r.mismatch.is_some())
        .map(|r| match r.known {
            Some(id) => format!("{}({})", r.label, id),
            None => r.label.clone(),
        })
        .collect();
    let agreeing: Vec<String> = per_cfg.iter().filter(|r| r.mismatch.is_none() && r.answered.is_some()).map(|r| r.label.clone()).collect();
    let tail = format!("\n configurations disagreeing with the reference: {:?}; agreeing: {:?}", disagreeing, agreeing);
    let verdict = if let Some(m) = fails.into_iter().next() {
        Verdict::Fail(m + &tail)
    } else if let Some((id, m)) = knowns.into_iter().next() {
        Verdict::Known { id: id.to_string(), msg: m + &tail }
    } else {
        Verdict::Pass
    };
    MultiOutcome { verdict, reference: Some(reference), events, per_cfg }
}
