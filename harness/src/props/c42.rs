//! C42 — CPU lists parse to the set they denote; fan-out helper bounds.
//!
//! Generator: a set S of CPU ids (< 4096) rendered as a kernel cpulist with
//! arbitrary grouping into ranges/singletons, arbitrary order, duplicated and
//! overlapping parts, whitespace, trailing newline, and interleaved junk
//! tokens (non-numeric, reversed ranges, half ranges, empty parts).
//! Oracle: parse(render(S)) == sorted(S) (junk contributes nothing).
use super::Property;
use crate::runner::*;
use proptest::prelude::*;
use query_engine::execution::topology::{verif_parse_cpulist, workers_for};
use serde::{Deserialize, Serialize};
use std::collections::BTreeSet;

#[derive(Clone, Debug, Serialize, Deserialize)]
pub enum Part {
    Single(usize),
    Range(usize, usize),
    Junk(String),
}

#[derive(Clone, Debug, Serialize, Deserialize)]
pub struct CpuListCase {
    pub parts: Vec<Part>,
    /// whitespace style per part: 0 none, 1 leading space, 2 trailing space, 3 both
    pub ws: Vec<u8>,
    pub inner_ws: bool,
    pub trailing_newline: bool,
    pub leading_ws: bool,
}

fn render(c: &CpuListCase) -> String {
    let mut toks = vec![];
    for (i, p) in c.parts.iter().enumerate() {
        let t = match p {
            Part::Single(a) => a.to_string(),
            Part::Range(a, b) => {
                if c.inner_ws {
                    format!("{} - {}", a, b)
                } else {
                    format!("{}-{}", a, b)
                }
            }
            Part::Junk(s) => s.clone(),
        };
        let w = c.ws.get(i).copied().unwrap_or(0);
        toks.push(format!(
            "{}{}{}",
            if w & 1 != 0 { " " } else { "" },
            t,
            if w & 2 != 0 { " " } else { "" }
        ));
    }
    format!(
        "{}{}{}",
        if c.leading_ws { " \t" } else { "" },
        toks.join(","),
        if c.trailing_newline { "\n" } else { "" }
    )
}

fn denotes(c: &CpuListCase) -> Vec<usize> {
    let mut s = BTreeSet::new();
    for p in &c.parts {
        match p {
            Part::Single(a) => {
                s.insert(*a);
            }
            Part::Range(a, b) => {
                for x in *a..=*b {
                    s.insert(x);
                }
            }
            Part::Junk(_) => {}
        }
    }
    s.into_iter().collect()
}

fn junk() -> impl Strategy<Value = String> {
    prop_oneof![
        Just("".to_string()),
        Just("x".to_string()),
        Just("cpu3".to_string()),
        Just("3-".to_string()),
        Just("-3".to_string()),
        Just("a-b".to_string()),
        Just("1-2-3".to_string()),
        Just("0x10".to_string()),
        Just("1.5".to_string()),
        Just("4–6".to_string()), // en dash
        // reversed range denotes nothing
        (1usize..4096, 1usize..50).prop_map(|(a, d)| format!("{}-{}", a + d, a.saturating_sub(1).min(a))),
        "[a-zA-Z_ ]{1,6}",
    ]
}

pub struct ParseCpuList;
impl Check for ParseCpuList {
    type Case = CpuListCase;
    fn name(&self) -> &'static str {
        "parse_cpulist"
    }
    fn rule(&self) -> &'static str {
        "list has >=2 parts including a range, and (a junk token or overlapping/duplicate parts or out-of-order parts)"
    }
    fn cases(&self, tier: Tier) -> u32 {
        tier.pick(8000, 1_000_000)
    }
    fn strategy(&self, _tier: Tier) -> BoxedStrategy<CpuListCase> {
        let part = prop_oneof![
            4 => (0usize..4096).prop_map(Part::Single),
            4 => (0usize..4096, 0usize..40).prop_map(|(a, d)| Part::Range(a, (a + d).min(4095))),
            // small ids so overlaps/duplicates are common
            3 => (0usize..16).prop_map(Part::Single),
            3 => (0usize..16, 0usize..8).prop_map(|(a, d)| Part::Range(a, a + d)),
            2 => junk().prop_map(Part::Junk),
        ];
        (
            proptest::collection::vec(part, 0..12),
            proptest::collection::vec(0u8..4, 12),
            any::<bool>(),
            any::<bool>(),
            any::<bool>(),
        )
            .prop_map(|(parts, ws, inner_ws, trailing_newline, leading_ws)| CpuListCase {
                parts,
                ws,
                inner_ws,
                trailing_newline,
                leading_ws,
            })
            .boxed()
    }
    fn test(&self, c: &CpuListCase, obs: &mut Obs) -> Verdict {
        let text = render(c);
        let want = denotes(c);
        let got = verif_parse_cpulist(&text);
        let has_range = c.parts.iter().any(|p| matches!(p, Part::Range(..)));
        let has_junk = c.parts.iter().any(|p| matches!(p, Part::Junk(_)));
        let total: usize = c
            .parts
            .iter()
            .map(|p| match p {
                Part::Single(_) => 1,
                Part::Range(a, b) => b - a + 1,
                _ => 0,
            })
            .sum();
        let overlap = total > want.len();
        let firsts: Vec<usize> = c
            .parts
            .iter()
            .filter_map(|p| match p {
                Part::Single(a) | Part::Range(a, _) => Some(*a),
                _ => None,
            })
            .collect();
        let unordered = firsts.windows(2).any(|w| w[0] > w[1]);
        if has_junk {
            obs.label("junk");
        }
        if overlap {
            obs.label("overlap");
        }
        if unordered {
            obs.label("unordered");
        }
        obs.nontrivial(c.parts.len() >= 2 && has_range && (has_junk || overlap || unordered));
        obs.sample(serde_json::json!({"text": text, "denotes_len": want.len()}));
        if got != want {
            return Verdict::Fail(format!(
                "parse_cpulist({:?}) = {:?}, the list denotes {:?}",
                text, got, want
            ));
        }
        // output must be strictly increasing (sorted set)
        if got.windows(2).any(|w| w[0] >= w[1]) {
            return Verdict::Fail(format!("output not a sorted set: {:?}", got));
        }
        Verdict::Pass
    }
}

#[derive(Clone, Debug, Serialize, Deserialize)]
pub struct FanoutCase {
    pub work: usize,
    pub pool: usize,
}
pub struct WorkersFor;
impl Check for WorkersFor {
    type Case = FanoutCase;
    fn name(&self) -> &'static str {
        "workers_for"
    }
    fn rule(&self) -> &'static str {
        "work>=1 and pool>=1 and work != pool"
    }
    fn cases(&self, tier: Tier) -> u32 {
        tier.pick(4000, 400_000)
    }
    fn exhaustive(&self, _t: Tier) -> Option<Box<dyn Iterator<Item = FanoutCase> + '_>> {
        Some(Box::new((0usize..40).flat_map(|w| (0usize..40).map(move |p| FanoutCase { work: w, pool: p }))))
    }
    fn strategy(&self, _tier: Tier) -> BoxedStrategy<FanoutCase> {
        (
            prop_oneof![0usize..70, 0usize..1_000_000, Just(usize::MAX), Just(usize::MAX - 1)],
            prop_oneof![0usize..70, 0usize..10_000, Just(usize::MAX)],
        )
            .prop_map(|(work, pool)| FanoutCase { work, pool })
            .boxed()
    }
    fn test(&self, c: &FanoutCase, obs: &mut Obs) -> Verdict {
        let r = workers_for(c.work, c.pool);
        obs.nontrivial(c.work >= 1 && c.pool >= 1 && c.work != c.pool);
        // documented: clamp(1, max(pool,1)); a fan-out needs one worker even
        // for no work, so "never exceeds the available work" is read for work>=1
        if r < 1 {
            return Verdict::Fail(format!("workers_for({},{}) = {} < 1", c.work, c.pool, r));
        }
        if r > c.pool.max(1) {
            return Verdict::Fail(format!("workers_for({},{}) = {} exceeds pool", c.work, c.pool, r));
        }
        if r > c.work.max(1) {
            return Verdict::Fail(format!("workers_for({},{}) = {} exceeds work", c.work, c.pool, r));
        }
        Verdict::Pass
    }
}

pub fn property() -> Property {
    Property {
        id: "C42",
        level: "exploration",
        assumptions: &[
            "junk tokens are those with no reading as a decimal id or id-id range (no '+3')",
            "workers_for lower bound 1 is the documented clamp",
        ],
        checks: vec![Box::new(ParseCpuList), Box::new(WorkersFor)],
    }
}
