//! C21 — Aggregates follow SQL NULL and empty-input rules on every path.
//!
//! Generator: table `r` with 1–2 group-key columns (BIGINT/INTEGER/VARCHAR/
//! DATE, 0/20/50 % NULLs, tiny domains) and 2–3 value columns (BIGINT/INTEGER/
//! DOUBLE/VARCHAR/DATE with 0/30/70/100 % NULLs — so all-NULL groups and
//! all-NULL columns are common), 0–30 rows (sometimes a few hundred, so Parquet
//! gets several row groups); optionally a second table `s` for a LEFT JOIN that
//! produces NULL-extended rows. Statements:
//!   grouped  `SELECT keys, aggs FROM r t1 [WHERE p] GROUP BY keys [HAVING h]`
//!   global   `SELECT aggs FROM r t1 [WHERE p]`  (p often false for every row)
//!   joined   `SELECT t1.key, aggs(t2.*) FROM r t1 LEFT JOIN s t2 ON .. GROUP BY t1.key`
//! with 1–4 aggregates from COUNT(*), COUNT(x), SUM, AVG, MIN, MAX, COUNT(DISTINCT x).
//! Every case runs through SIX engine configurations and each must agree with
//! `refsql`: in-memory single batch; in-memory many batches; tiny memory limit
//! (spill / partitioned aggregation); Parquet (random files, row groups,
//! statistics → MorselAggregateExec generic or dense direct-address); Parquet
//! with `verif_hooks::set_force_disjoint(true)`; Parquet with morsel
//! execution disabled (generic hash aggregate over a Parquet scan).
use super::Property;
use crate::data::*;
use crate::runner::*;
use crate::sqlast::*;
use crate::sqlgen::*;
use proptest::prelude::*;
use serde::{Deserialize, Serialize};

#[path = "c25_util.rs"]
mod util;
use util::*;

#[derive(Clone, Debug, Serialize, Deserialize)]
pub struct AggCase {
    pub sql_case: SqlCase,
    pub cfgs: Vec<EngineCfg>,
}

const KEY_TYPES: [ColType; 5] = [ColType::Int, ColType::Int32, ColType::Str, ColType::Date, ColType::Int];
const VAL_TYPES: [ColType; 6] = [ColType::Int, ColType::Int32, ColType::Double, ColType::Str, ColType::Date, ColType::Double];

fn table_strategy(name: &'static str, nkeys: usize, with_big: bool) -> BoxedStrategy<Table> {
    (
        proptest::collection::vec((proptest::sample::select(KEY_TYPES.to_vec()), proptest::sample::select(vec![0u32, 20, 50])), nkeys),
        proptest::collection::vec((proptest::sample::select(VAL_TYPES.to_vec()), proptest::sample::select(vec![0u32, 30, 70, 100])), 2..=3),
        if with_big { prop_oneof![9 => Just(false), 1 => Just(true)].boxed() } else { Just(false).boxed() },
    )
        .prop_flat_map(move |(keys, vals, big)| {
            let mut cols = vec![];
            let mut strat: Vec<BoxedStrategy<Value>> = vec![];
            for (i, (ty, pct)) in keys.iter().enumerate() {
                cols.push(Column { name: format!("g{}", i + 1), ty: *ty });
                strat.push(small_value(*ty, *pct));
            }
            for (i, (ty, pct)) in vals.iter().enumerate() {
                cols.push(Column { name: format!("v{}", i + 1), ty: *ty });
                strat.push(if *pct >= 100 { Just(Value::Null).boxed() } else { small_value(*ty, *pct) });
            }
            let n = if big { 150..=400usize } else { 0..=30usize };
            proptest::collection::vec(strat, n).prop_map(move |rows| Table { name: name.to_string(), cols: cols.clone(), rows })
        })
        .boxed()
}

fn lit(t: &mut Tape, ty: ColType) -> Expr {
    Expr::Lit(match ty {
        ColType::Int | ColType::Int32 => Value::Int(t.pick(5) as i64),
        ColType::Double => Value::Double((t.pick(17) as i64 - 8) as f64 * 0.25),
        ColType::Str => Value::Str(["a", "", "ab", "b", "B", "a%", "é"][t.pick(7)].to_string()),
        ColType::Date => Value::Date(10957 + t.pick(4) as i32 * 15),
        ColType::Bool => Value::Bool(t.pick(2) == 1),
    })
}

const CMP: [BinOp; 6] = [BinOp::Eq, BinOp::Lt, BinOp::Ne, BinOp::Le, BinOp::Gt, BinOp::Ge];

/// an aggregate over a column of `tb` (alias `a`)
fn agg(t: &mut Tape, tb: &Table, a: &str, feats: &mut Vec<String>) -> Expr {
    let vals: Vec<&Column> = tb.cols.iter().collect();
    let c = vals[t.pick(vals.len())];
    let e = Expr::qcol(a, &c.name);
    let numeric = c.ty.is_numeric();
    let (x, f) = match t.pick(8) {
        0 => (Expr::count_star(), "count_star"),
        1 => (Expr::agg(AggF::Count, e), "count"),
        2 if numeric => (Expr::agg(AggF::Sum, e), "sum"),
        3 if numeric => (Expr::agg(AggF::Avg, e), "avg"),
        2 | 4 => (Expr::agg(AggF::Min, e), "min"),
        3 | 5 => (Expr::agg(AggF::Max, e), "max"),
        6 => (Expr::Agg { f: AggF::Count, arg: Some(Box::new(e)), distinct: true }, "count_distinct"),
        _ => (Expr::agg(if t.chance(50) { AggF::Min } else { AggF::Max }, e), "minmax"),
    };
    feats.push(format!("agg:{}", f));
    if matches!(f, "min" | "max" | "minmax") {
        feats.push(format!("minmax_type:{:?}", c.ty));
    }
    x
}

fn where_pred(t: &mut Tape, tb: &Table, a: &str, feats: &mut Vec<String>) -> Expr {
    let c = &tb.cols[t.pick(tb.cols.len())];
    let e = Expr::qcol(a, &c.name);
    match t.pick(6) {
        // false for every row: the aggregate sees an empty input
        0 | 1 => {
            feats.push("where_never".into());
            if t.chance(50) {
                Expr::bin(Expr::int(1), BinOp::Eq, Expr::int(0))
            } else {
                match c.ty {
                    ColType::Int | ColType::Int32 => Expr::bin(e, BinOp::Gt, Expr::int(100)),
                    ColType::Double => Expr::bin(e, BinOp::Gt, Expr::Lit(Value::Double(100.0))),
                    ColType::Str => Expr::bin(e, BinOp::Eq, Expr::Lit(Value::Str("zzz".into()))),
                    ColType::Date => Expr::bin(e, BinOp::Lt, Expr::Lit(Value::Date(0))),
                    ColType::Bool => Expr::bin(Expr::int(1), BinOp::Eq, Expr::int(0)),
                }
            }
        }
        2 => Expr::IsNull { e: Box::new(e), neg: t.chance(50) },
        _ => {
            let ty = if c.ty == ColType::Int32 { ColType::Int } else { c.ty };
            Expr::bin(e, CMP[t.pick(6)], lit(t, ty))
        }
    }
}

fn build(tables: Vec<Table>, tape: Vec<u16>, cuts: Vec<Vec<usize>>, layouts: Vec<ParquetLayout>) -> AggCase {
    let mut t = Tape::new(tape);
    let r = &tables[0];
    let nkeys = r.cols.iter().filter(|c| c.name.starts_with('g')).count();
    let mut feats: Vec<String> = vec![];
    let shape = if tables.len() == 2 { 2 } else { t.pick(2) }; // 0 grouped, 1 global, 2 left-joined
    let mut items: Vec<Item> = vec![];
    let mut group: Vec<Expr> = vec![];
    // MorselAggregateExec is planned only when the aggregate sits directly on a Scan
    // (try_extract_parquet_source does not look through a SubqueryAlias): single-table
    // statements therefore mostly go un-aliased (`FROM r`, columns `r.x`).
    let a1: &str = if shape != 2 && t.chance(65) { "r" } else { "t1" };
    if a1 == "r" {
        feats.push("no_alias".into());
    }
    let mut from = From::Table { name: "r".into(), alias: if a1 == "r" { None } else { Some("t1".into()) } };
    let mut where_: Option<Expr> = None;
    let mut aggs: Vec<Expr> = vec![];
    match shape {
        0 => {
            feats.push("grouped".into());
            let k = 1 + t.pick(nkeys);
            for i in 0..k {
                let c = &r.cols[i];
                group.push(Expr::qcol(a1, &c.name));
                feats.push(format!("key_type:{:?}", c.ty));
            }
            feats.push(format!("keys:{}", k));
        }
        1 => {
            feats.push("global".into());
        }
        _ => {
            feats.push("left_join".into());
            let s = &tables[1];
            let on = Expr::eq(Expr::qcol("t1", "g1"), Expr::qcol("t2", "g1"));
            let on = if t.chance(30) {
                feats.push("join_residual".into());
                Expr::and(on, Expr::bin(Expr::qcol("t2", &s.cols[s.cols.len() - 1].name), CMP[t.pick(6)], lit(&mut t, { let ty = s.cols[s.cols.len() - 1].ty; if ty == ColType::Int32 { ColType::Int } else { ty } })))
            } else {
                on
            };
            from = From::Join { l: Box::new(from), r: Box::new(From::Table { name: "s".into(), alias: Some("t2".into()) }), kind: JoinKind::Left, on: Some(on) };
            if t.chance(85) {
                group.push(Expr::qcol("t1", "g1"));
                feats.push(format!("key_type:{:?}", r.cols[0].ty));
                feats.push("grouped".into());
            } else {
                feats.push("global".into());
            }
        }
    }
    if t.chance(if shape == 1 { 55 } else { 30 }) {
        feats.push("where".into());
        where_ = Some(where_pred(&mut t, r, a1, &mut feats));
    }
    for (i, g) in group.iter().enumerate() {
        items.push(Item::Expr(g.clone(), Some(format!("k{}", i + 1))));
    }
    let na = 1 + t.pick(4);
    for i in 0..na {
        let (tb, al) = if shape == 2 && t.chance(75) { (&tables[1], "t2") } else { (r, a1) };
        let a = agg(&mut t, tb, al, &mut feats);
        aggs.push(a.clone());
        items.push(Item::Expr(a, Some(format!("a{}", i + 1))));
    }
    let having = if !group.is_empty() && t.chance(15) {
        feats.push("having".into());
        let a = aggs[t.pick(aggs.len())].clone();
        // keep HAVING over counts (an integer) or IS [NOT] NULL over the others
        Some(match &a {
            Expr::Agg { f: AggF::Count, .. } => Expr::bin(a, CMP[t.pick(6)], Expr::int(t.pick(4) as i64)),
            _ => Expr::IsNull { e: Box::new(a), neg: t.chance(50) },
        })
    } else {
        None
    };
    let sel = Select { distinct: false, items, from: vec![from], where_, group: if group.is_empty() { Group::None } else { Group::By(group) }, having };
    let spill = [1usize, 1, 64, 512][t.pick(4)];
    let cfgs = vec![
        EngineCfg::mem("mem1").single(),
        EngineCfg::mem("mem"),
        EngineCfg::mem("spill").limit(spill),
        EngineCfg::mem("parquet").parquet(layouts.clone()),
        EngineCfg::mem("parquet_disjoint").parquet(layouts.clone()).disjoint(),
        EngineCfg::mem("parquet_nomorsel").parquet(layouts).no_morsel(),
    ];
    AggCase { sql_case: SqlCase { tables, query: Query::select(sel), cuts, features: feats }, cfgs }
}

pub const KF_NULL_KEY: &str = "agg-null-group-key";
pub const KF_EMPTY: &str = "agg-empty-input";
pub const KF_DICT_MINMAX: &str = "agg-minmax-string-after-join";
pub const KF_GKR: &str = "group-key-reduction-false-unique";

pub const KF_MORSEL_TYPE: &str = "agg-morsel-qualified-sum-type";
pub const KF_DENSE_SUM: &str = "agg-dense-sum-no-input";

/// Align engine rows with reference rows by their group key (the first `nkeys`
/// columns; one row per key) and list the cells that differ as (column, reference
/// value, engine value). None when the two answers do not have the same keys.
fn column_diffs(reference: &crate::refsql::RefAnswer, got: &Rows, nkeys: usize) -> Option<Vec<(usize, Value, Value)>> {
    if reference.rows.len() != got.len() {
        return None;
    }
    let mut used = vec![false; got.len()];
    let mut out = vec![];
    for r in &reference.rows {
        let j = (0..got.len()).find(|&j| !used[j] && got[j].len() == r.len() && (0..nkeys).all(|k| crate::refsql::not_distinct(&r[k], &got[j][k])))?;
        used[j] = true;
        for i in nkeys..r.len() {
            if !value_eq(&r[i], &got[j][i], 1e-9) {
                out.push((i, r[i].clone(), got[j][i].clone()));
            }
        }
    }
    Some(out)
}

fn is_sentinel(v: &Value) -> bool {
    match v {
        Value::Int(i) => *i == i64::MIN || *i == i64::MAX,
        Value::Date(d) => *d == i32::MIN || *d == i32::MAX,
        Value::Double(x) => *x == f64::MAX || *x == f64::MIN,
        // dates outside chrono's range are rendered as text by data::cell
        Value::Str(s) => s.starts_with("date("),
        _ => false,
    }
}

/// Narrowed signatures of the open aggregate findings: each one checks the
/// statement shape, a data condition, AND that the engine's answer differs from
/// the reference in exactly the way the defect produces.
fn classify(c: &SqlCase, _ev: &Ev, reference: &crate::refsql::RefAnswer, cfg: &EngineCfg, out: &RunOut, _msg: &str) -> Option<&'static str> {
    let got = out.rows.as_ref().ok()?;
    let SetExpr::Select(sel) = &c.query.body else { return None };
    let nkeys = match &sel.group {
        Group::By(v) => v.len(),
        _ => 0,
    };
    let has_join = matches!(sel.from.first(), Some(From::Join { .. }));
    // (1) perfect-hash aggregation: a group whose key is NULL in EVERY grouping column is
    //     indistinguishable from a free slot and is dropped (its other groups are right)
    if nkeys > 0 {
        // … or re-created after a rehash dropped it, holding only the rows seen since. Either way
        //     the answers agree on every group except the all-NULL-key one.
        let all_null_key = |r: &Vec<Value>| r.len() >= nkeys && r[..nkeys].iter().all(|v| v.is_null());
        if reference.rows.iter().any(all_null_key) && got.iter().filter(|r| all_null_key(r)).count() <= 1 {
            let rest = |rows: &Rows| -> Rows { rows.iter().filter(|r| !all_null_key(r)).cloned().collect() };
            if multiset_eq(&rest(&reference.rows), &rest(got), 1e-9) {
                return Some(KF_NULL_KEY);
            }
        }
    }
    // (2) single global MIN/MAX over no non-NULL value: aggregate_scalar_simd returns the fold's
    //     start value (i64::MAX/MIN, f64::MAX/MIN, date ±2^31) instead of NULL
    if nkeys == 0 && reference.rows.len() == 1 && got.len() == 1 && reference.rows[0].len() == got[0].len() {
        let (r, g) = (&reference.rows[0], &got[0]);
        let mut sentinel = false;
        let mut other = false;
        for (i, (a, b)) in r.iter().zip(g).enumerate() {
            if value_eq(a, b, 1e-9) {
                continue;
            }
            let minmax = matches!(sel.items.get(i), Some(Item::Expr(Expr::Agg { f: AggF::Min | AggF::Max, .. }, _)));
            if a.is_null() && minmax && is_sentinel(b) {
                sentinel = true;
            } else {
                other = true;
            }
        }
        if sentinel && !other {
            return Some(KF_EMPTY);
        }
    }
    // (3) MIN/MAX(VARCHAR) above a join: the hash aggregate's accumulators have no arm for the
    //     dictionary-encoded strings the join emits → NULL
    if has_join && reference.rows.len() == got.len() {
        let str_minmax: Vec<usize> = sel
            .items
            .iter()
            .enumerate()
            .filter(|(_, it)| match it {
                Item::Expr(Expr::Agg { f: AggF::Min | AggF::Max, arg: Some(a), .. }, _) => match &**a {
                    Expr::Col { rel: Some(rel), name } => {
                        let ti = if rel == "t2" { 1 } else { 0 };
                        c.tables.get(ti).map(|t| t.cols.iter().any(|x| &x.name == name && x.ty == ColType::Str)).unwrap_or(false)
                    }
                    _ => false,
                },
                _ => false,
            })
            .map(|(i, _)| i)
            .collect();
        if !str_minmax.is_empty() {
            // blank those columns on both sides: everything else must agree, and the engine's are NULL
            let blank = |rows: &Rows| -> Rows {
                rows.iter()
                    .map(|r| r.iter().enumerate().map(|(i, v)| if str_minmax.contains(&i) { Value::Null } else { v.clone() }).collect())
                    .collect()
            };
            // the engine's values in those columns are NULL (dictionary input ignored) or right
            let some_null = got.iter().any(|r| str_minmax.iter().any(|&i| r[i].is_null()));
            if some_null && multiset_eq(&blank(&reference.rows), &blank(got), 1e-9) {
                // per-row check when rows can be aligned by their keys (keys are unique per group)
                let aligned_ok = if nkeys > 0 {
                    got.iter().all(|g| {
                        reference.rows.iter().any(|r| {
                            rows_eq(&[r[..nkeys].to_vec()], &[g[..nkeys].to_vec()], 0.0) && str_minmax.iter().all(|&i| g[i].is_null() || value_eq(&g[i], &r[i], 0.0))
                        })
                    })
                } else {
                    str_minmax.iter().all(|&i| got[0][i].is_null() || value_eq(&got[0][i], &reference.rows[0][i], 0.0))
                };
                if aligned_ok {
                    return Some(KF_DICT_MINMAX);
                }
            }
        }
    }
    // (5)/(6) MorselAggregateExec only (Parquet, morsel execution on, aggregate directly over the scan):
    //   (5) SUM over a TABLE-QUALIFIED integer column (`SUM(r.x)`, no alias): the input type does not
    //       resolve against the scan's bare field names, defaults to Float64, and the column comes out NULL;
    //   (6) dense direct-address path (one BIGINT/INTEGER/DATE key, COUNT/SUM/AVG only): a group with no
    //       non-NULL input gets SUM = 0 / 0.0 and AVG = NaN instead of NULL.
    if cfg.parquet.is_some() && cfg.morsel && !has_join {
        let is_qualified_int_sum = |e: &Expr| match e {
            Expr::Agg { f: AggF::Sum, arg: Some(a), .. } => match &**a {
                Expr::Col { rel: Some(rel), name } => rel == "r" && c.tables[0].cols.iter().any(|x| &x.name == name && x.ty.is_int()),
                _ => false,
            },
            _ => false,
        };
        // HAVING over such a SUM sees NULL for every group
        if let Some(h) = &sel.having {
            let mut hit = false;
            h.walk(&mut |e| {
                if is_qualified_int_sum(e) {
                    hit = true
                }
            });
            // (finding (5) is FIXED in /repo (b457f09): its signature no longer classifies
            // anything — a recurrence falls through and is reported as a violation, and it must
            // not shadow the open finding (4) below, which the same statement may also meet)
            let _ = (hit, KF_MORSEL_TYPE);
        }
        // the same state also has the all-NULL-key defect of (1): compare the other groups only
        let all_null = |r: &Vec<Value>| nkeys > 0 && r.len() >= nkeys && r[..nkeys].iter().all(|v| v.is_null());
        let mut ref2 = reference.clone();
        ref2.rows.retain(|r| !all_null(r));
        let got2: Rows = got.iter().filter(|r| !all_null(r)).cloned().collect();
        if let Some(diffs) = column_diffs(&ref2, &got2, nkeys) {
            let item_agg = |i: usize| match sel.items.get(i) {
                Some(Item::Expr(Expr::Agg { f, arg, .. }, _)) => Some((*f, arg.as_deref().cloned())),
                _ => None,
            };
            let qualified_int_sum = |i: usize| match item_agg(i) {
                Some((AggF::Sum, Some(Expr::Col { rel: Some(rel), name }))) => {
                    rel == "r" && c.tables[0].cols.iter().any(|x| x.name == name && x.ty.is_int())
                }
                _ => false,
            };
            let _ = &qualified_int_sum;
            let zero_or_nan = |v: &Value| match v {
                Value::Int(0) => true,
                Value::Double(x) => *x == 0.0 || x.is_nan(),
                _ => false,
            };
            if nkeys == 1 && !diffs.is_empty() && diffs.iter().all(|(i, r, g)| matches!(item_agg(*i), Some((AggF::Sum | AggF::Avg, _))) && r.is_null() && zero_or_nan(g)) {
                return Some(KF_DENSE_SUM);
            }
        }
    }
    // (4) GroupKeyReduction (needs Parquet footer statistics): a null-free integer/date group key
    //     whose value RANGE is at least the row count is taken for a unique key (ndv_est =
    //     min(rows, max-min+1) >= rows) although it repeats, and the other keys are dropped
    if cfg.parquet.is_some() && nkeys >= 2 && !has_join {
        if let Group::By(keys) = &sel.group {
            let t = &c.tables[0];
            for k in keys {
                let Expr::Col { name, .. } = k else { continue };
                let Some(ci) = t.col_index(name) else { continue };
                if !matches!(t.cols[ci].ty, ColType::Int | ColType::Int32 | ColType::Date) {
                    continue;
                }
                let vals: Vec<i64> = t
                    .rows
                    .iter()
                    .filter_map(|r| match &r[ci] {
                        Value::Int(i) => Some(*i),
                        Value::Date(d) => Some(*d as i64),
                        _ => None,
                    })
                    .collect();
                if vals.len() != t.rows.len() || vals.len() < 2 {
                    continue; // has NULLs (or too small)
                }
                let (mn, mx) = (vals.iter().min().unwrap(), vals.iter().max().unwrap());
                let mut d = vals.clone();
                d.sort();
                d.dedup();
                if (mx - mn + 1) as usize >= vals.len() && d.len() < vals.len() {
                    return Some(KF_GKR);
                }
            }
        }
    }
    None
}

pub struct AggCheck;
impl Check for AggCheck {
    type Case = AggCase;
    fn name(&self) -> &'static str {
        "agg_paths"
    }
    fn rule(&self) -> &'static str {
        "at least three of the six configurations answered, and the reference evaluation saw a group with no non-NULL aggregate input, a NULL grouping key, or a global aggregate over an empty input"
    }
    fn cases(&self, tier: Tier) -> u32 {
        tier.pick(1500, 30_000)
    }
    fn max_shrink_iters(&self) -> u32 {
        1200
    }
    fn strategy(&self, _tier: Tier) -> BoxedStrategy<AggCase> {
        let one = (1usize..=2).prop_flat_map(|nk| table_strategy("r", nk, true)).prop_map(|t| vec![t]);
        let two = (table_strategy("r", 1, false), table_strategy("s", 1, false)).prop_map(|(a, b)| {
            // the join key columns must have one type
            let mut b = b;
            if a.cols[0].ty != b.cols[0].ty {
                b.cols[0].ty = a.cols[0].ty;
                let n = b.rows.len();
                for (i, row) in b.rows.iter_mut().enumerate() {
                    // reuse r's key values cyclically (NULLs included) so matches exist
                    row[0] = if a.rows.is_empty() { Value::Null } else { a.rows[(i * 7 + n) % a.rows.len()][0].clone() };
                }
            }
            vec![a, b]
        });
        (prop_oneof![3 => one, 1 => two], proptest::collection::vec(any::<u16>(), 0..60), proptest::collection::vec(proptest::collection::vec(0usize..=40, 0..4), 2), proptest::collection::vec(parquet_layout_strategy(40), 2))
            .prop_map(|(tables, tape, cuts, layouts)| {
                let n = tables.len();
                build(tables, tape, cuts.into_iter().take(n).collect(), layouts.into_iter().take(n).collect())
            })
            .boxed()
    }
    fn test(&self, case: &AggCase, obs: &mut Obs) -> Verdict {
        let c = &case.sql_case;
        let out = judge_multi(c, &case.cfgs, obs, 1e-9, classify, false);
        if out.reference.is_none() {
            return out.verdict;
        }
        for e in &out.events {
            obs.label(format!("ev:{}", e));
        }
        for r in &out.per_cfg {
            if r.mismatch.is_some() {
                obs.label(format!("mismatch[{}]", r.label));
            }
        }
        let interesting = out.events.contains("agg_no_nonnull_input") || out.events.contains("null_group_key") || out.events.contains("global_agg_empty_input");
        obs.nontrivial(out.answered() >= 3 && interesting);
        out.verdict
    }
}

pub fn property() -> Property {
    Property {
        id: "C21",
        level: "exploration",
        assumptions: &[
            "the reference evaluator refsql implements the SQL aggregate rules (NULL inputs ignored; SUM/AVG/MIN/MAX of no non-NULL input = NULL; COUNT = 0; NULL grouping keys form one group; a global aggregate over no rows yields one row), cross-checked against SQLite",
            "doubles are multiples of 0.25 (sums exact in any order); AVG is compared with relative tolerance 1e-9",
            "an engine error is an allowed outcome (labelled); a wrong answer is not",
            "the configuration that sets the process-global verif_hooks::force_disjoint switch runs exclusively (RwLock)",
        ],
        checks: vec![Box::new(AggCheck)],
    }
}
