//! C21 — not implemented yet.
use super::Property;

pub fn property() -> Property {
    Property { id: "C21", level: "exploration", assumptions: &[], checks: vec![] }
}
