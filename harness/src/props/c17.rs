//! C17 — not implemented yet.
use super::Property;

pub fn property() -> Property {
    Property { id: "C17", level: "exploration", assumptions: &[], checks: vec![] }
}
