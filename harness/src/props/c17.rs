//! C17 — An Iceberg snapshot reads exactly its live data files.
//!
//! The module contains a minimal Iceberg *writer* (Parquet data files, Avro
//! manifest files and manifest lists, `*.metadata.json` generations with the
//! HadoopCatalog `vN`+`version-hint.text` layout, the pyiceberg
//! `NNNNN-<uuid>` layout, or opaque names) and interprets a generated table
//! *history* (`Vec<Step>`) twice:
//!   * on disk, the way an Iceberg writer commits it (new manifests, carried
//!     over manifests, tombstones, rewritten manifests, new manifest list, new
//!     metadata generation);
//!   * in a model `snapshot -> set of live data files -> rows` that is updated
//!     directly by the operation's meaning (append: live ∪= new, remove:
//!     live −= removed, manifest/metadata rewrites: unchanged) and never looks
//!     at a manifest.
//! Then for the table's current metadata generation (by version-hint, or by
//! newest `last-updated-ms`) it opens the table at `None`, at every listed
//! snapshot id and at unknown ids and compares `SELECT *` (multiset),
//! `COUNT(*)` and the resolved file set with the model. A snapshot whose live
//! set contains a delete file, a non-Parquet file or a remote URI, whose
//! manifest / manifest list URI is remote, or which is empty, must be refused
//! (`Err`); so must unknown ids and a never-written table.
//!
//! Accepted input domain (read from `storage/iceberg.rs`): format-version 1|2;
//! `snapshots[].{snapshot-id,timestamp-ms,manifest-list}`; `current-snapshot-id`
//! (null/absent = never written); `last-updated-ms`; manifest list records with a
//! string `manifest_path`; manifest entries with int `status`, record `data_file`
//! having string `file_path`, string `file_format`, optional int `content`; URIs
//! `file:///abs`, `file:/abs`, `/abs`, table-relative. `physical/operators/iceberg.rs`
//! (`IcebergScanExec`) is a legacy JSON-manifest operator that `register_iceberg`
//! never reaches; it is outside this check.
use super::Property;
use crate::data::*;
use crate::engine::*;
use crate::runner::*;
use apache_avro::types::Value as AV;
use proptest::prelude::*;
use query_engine::ExecutionContext;
use serde::{Deserialize, Serialize};
use std::collections::BTreeSet;
use std::path::{Path, PathBuf};

// ---------------------------------------------------------------------------
// case
// ---------------------------------------------------------------------------

#[derive(Clone, Debug, Serialize, Deserialize)]
pub struct NewFile {
    /// rows of (k BIGINT, s VARCHAR); the writer prepends the file id
    pub rows: Vec<Vec<Value>>,
    /// 0 ordinary Parquet data file; 1 position-delete file; 2 equality-delete
    /// file (v2 only, mapped to 3/4 for v1); 3 file_format ORC; 4 file_format
    /// AVRO; 5 `s3://` file_path; 6 `hdfs://` file_path
    pub bad: u8,
}

#[derive(Clone, Debug, Serialize, Deserialize)]
pub enum Op {
    /// new data files; `merge_into` = merge-append into an existing manifest
    /// (its live entries become EXISTING) instead of adding a new manifest
    Append { files: Vec<NewFile>, merge_into: Option<u16> },
    /// remove live files: their manifests are rewritten with DELETED entries
    Remove { sels: Vec<u16> },
    /// remove + append in one snapshot
    Overwrite { sels: Vec<u16>, files: Vec<NewFile> },
    /// all live entries rewritten as EXISTING into one or two new manifests
    RewriteManifests { split: bool },
    /// new metadata generation, same snapshots (a property change)
    RewriteMetadata { equal_ts: bool },
    /// new metadata generation that drops all but the newest `keep` snapshots
    /// (the current one always stays); `purge` deletes unreachable files
    Expire { keep: u8, purge: bool },
    /// new metadata generation whose current-snapshot-id is an older snapshot
    Rollback { sel: u16 },
}

#[derive(Clone, Debug, Serialize, Deserialize)]
pub struct Step {
    pub op: Op,
    /// 0 none; 1 the first manifest written by this step is listed under an
    /// `s3://` URI; 2 the snapshot's manifest-list URI is `s3://`
    pub remote: u8,
    /// commit in the same millisecond as the previous generation (only where
    /// the expected answer is still determined, see `World::tick`)
    pub same_ms: bool,
}

#[derive(Clone, Debug, Serialize, Deserialize)]
pub struct IceCase {
    pub v2: bool,
    /// 0 `vN.metadata.json` + version-hint.text; 1 `NNNNN-<uuid>.metadata.json`;
    /// 2 opaque names (order unrelated to age); 3 `vN.metadata.json`, no hint
    pub naming: u8,
    pub hint_form: u8,
    /// version-hint points this many generations behind the newest file
    pub hint_lag: u8,
    /// naming 0 only: last-updated-ms *decreases* with each generation
    pub clock_skew: bool,
    pub deflate: bool,
    pub snaps_reversed: bool,
    pub minus_one_current: bool,
    pub drop_dead_manifests: bool,
    pub crc_files: bool,
    pub rg_size: usize,
    /// cycled over every written reference: 0 file:///abs, 1 file:/abs, 2 /abs, 3 table-relative
    pub uri_styles: Vec<u8>,
    pub seed: u64,
    pub steps: Vec<Step>,
}

// ---------------------------------------------------------------------------
// writer + model
// ---------------------------------------------------------------------------

struct DataFile {
    abs: PathBuf,
    uri: String,
    rows: Rows,
    bad: u8,
    record_count: i64,
    size: i64,
}
struct Manifest {
    abs: PathBuf,
    uri: String,
    remote: bool,
    /// 0 data manifest, 1 delete manifest (list `content`)
    content: i32,
    entries: Vec<(i32, usize)>,
    added_snapshot: i64,
    length: i64,
}
struct Snap {
    id: i64,
    ts: i64,
    parent: Option<i64>,
    seq: i64,
    list_abs: PathBuf,
    list_uri: String,
    list_remote: bool,
    manifests: Vec<usize>,
    /// THE MODEL: file ids live in this snapshot
    live: BTreeSet<usize>,
    operation: &'static str,
}
struct Gen {
    file: PathBuf,
    ts: i64,
    snaps: Vec<usize>,
    current: Option<usize>,
}

struct World<'a> {
    c: &'a IceCase,
    dir: PathBuf,
    files: Vec<DataFile>,
    manifests: Vec<Manifest>,
    snaps: Vec<Snap>,
    gens: Vec<Gen>,
    now: i64,
    uri_ctr: usize,
    name_ctr: u64,
    seq: i64,
    used_ids: BTreeSet<i64>,
    purged: bool,
    wrote_deleted: bool,
    wrote_existing: bool,
    noops: usize,
}

fn mix(a: u64, b: u64) -> u64 {
    let mut x = a ^ b.wrapping_mul(0x9E3779B97F4A7C15);
    x ^= x >> 30;
    x = x.wrapping_mul(0xBF58476D1CE4E5B9);
    x ^= x >> 27;
    x = x.wrapping_mul(0x94D049BB133111EB);
    x ^= x >> 31;
    x
}

const COLS: [(&str, ColType); 3] = [("fid", ColType::Int), ("k", ColType::Int), ("s", ColType::Str)];
fn cols() -> Vec<Column> {
    COLS.iter().map(|(n, t)| Column { name: n.to_string(), ty: *t }).collect()
}

const STATUS_EXISTING: i32 = 0;
const STATUS_ADDED: i32 = 1;
const STATUS_DELETED: i32 = 2;

fn manifest_list_schema(v2: bool) -> apache_avro::Schema {
    let partitions = r#"{"name":"partitions","type":["null",{"type":"array","items":{"type":"record","name":"r508","fields":[
        {"name":"contains_null","type":"boolean","field-id":509},
        {"name":"contains_nan","type":["null","boolean"],"default":null,"field-id":518},
        {"name":"lower_bound","type":["null","bytes"],"default":null,"field-id":510},
        {"name":"upper_bound","type":["null","bytes"],"default":null,"field-id":511}]},"element-id":508}],"default":null,"field-id":507}"#;
    let s = if v2 {
        format!(
            r#"{{"type":"record","name":"manifest_file","fields":[
            {{"name":"manifest_path","type":"string","field-id":500}},
            {{"name":"manifest_length","type":"long","field-id":501}},
            {{"name":"partition_spec_id","type":"int","field-id":502}},
            {{"name":"content","type":"int","field-id":517}},
            {{"name":"sequence_number","type":"long","field-id":515}},
            {{"name":"min_sequence_number","type":"long","field-id":516}},
            {{"name":"added_snapshot_id","type":"long","field-id":503}},
            {{"name":"added_files_count","type":"int","field-id":504}},
            {{"name":"existing_files_count","type":"int","field-id":505}},
            {{"name":"deleted_files_count","type":"int","field-id":506}},
            {{"name":"added_rows_count","type":"long","field-id":512}},
            {{"name":"existing_rows_count","type":"long","field-id":513}},
            {{"name":"deleted_rows_count","type":"long","field-id":514}},
            {}]}}"#,
            partitions
        )
    } else {
        format!(
            r#"{{"type":"record","name":"manifest_file","fields":[
            {{"name":"manifest_path","type":"string","field-id":500}},
            {{"name":"manifest_length","type":"long","field-id":501}},
            {{"name":"partition_spec_id","type":"int","field-id":502}},
            {{"name":"added_snapshot_id","type":["null","long"],"default":null,"field-id":503}},
            {{"name":"added_data_files_count","type":["null","int"],"default":null,"field-id":504}},
            {{"name":"existing_data_files_count","type":["null","int"],"default":null,"field-id":505}},
            {{"name":"deleted_data_files_count","type":["null","int"],"default":null,"field-id":506}},
            {}]}}"#,
            partitions
        )
    };
    apache_avro::Schema::parse_str(&s).expect("manifest list schema")
}

fn manifest_schema(v2: bool) -> apache_avro::Schema {
    let s = if v2 {
        r#"{"type":"record","name":"manifest_entry","fields":[
        {"name":"status","type":"int","field-id":0},
        {"name":"snapshot_id","type":["null","long"],"default":null,"field-id":1},
        {"name":"sequence_number","type":["null","long"],"default":null,"field-id":3},
        {"name":"file_sequence_number","type":["null","long"],"default":null,"field-id":4},
        {"name":"data_file","type":{"type":"record","name":"r2","fields":[
            {"name":"content","type":"int","field-id":134},
            {"name":"file_path","type":"string","field-id":100},
            {"name":"file_format","type":"string","field-id":101},
            {"name":"partition","type":{"type":"record","name":"r102","fields":[]},"field-id":102},
            {"name":"record_count","type":"long","field-id":103},
            {"name":"file_size_in_bytes","type":"long","field-id":104},
            {"name":"split_offsets","type":["null",{"type":"array","items":"long","element-id":133}],"default":null,"field-id":132},
            {"name":"equality_ids","type":["null",{"type":"array","items":"int","element-id":136}],"default":null,"field-id":135},
            {"name":"sort_order_id","type":["null","int"],"default":null,"field-id":140}
        ]},"field-id":2}]}"#
    } else {
        r#"{"type":"record","name":"manifest_entry","fields":[
        {"name":"status","type":"int","field-id":0},
        {"name":"snapshot_id","type":"long","field-id":1},
        {"name":"data_file","type":{"type":"record","name":"r2","fields":[
            {"name":"file_path","type":"string","field-id":100},
            {"name":"file_format","type":"string","field-id":101},
            {"name":"partition","type":{"type":"record","name":"r102","fields":[]},"field-id":102},
            {"name":"record_count","type":"long","field-id":103},
            {"name":"file_size_in_bytes","type":"long","field-id":104},
            {"name":"block_size_in_bytes","type":"long","field-id":105}
        ]},"field-id":2}]}"#
    };
    apache_avro::Schema::parse_str(s).expect("manifest schema")
}

fn opt_long(v: Option<i64>) -> AV {
    match v {
        None => AV::Union(0, Box::new(AV::Null)),
        Some(x) => AV::Union(1, Box::new(AV::Long(x))),
    }
}
fn opt_int(v: Option<i32>) -> AV {
    match v {
        None => AV::Union(0, Box::new(AV::Null)),
        Some(x) => AV::Union(1, Box::new(AV::Int(x))),
    }
}
fn null_union() -> AV {
    AV::Union(0, Box::new(AV::Null))
}

impl<'a> World<'a> {
    fn new(c: &'a IceCase, dir: PathBuf) -> Self {
        std::fs::create_dir_all(dir.join("metadata")).unwrap();
        std::fs::create_dir_all(dir.join("data")).unwrap();
        let mut w = World {
            c,
            dir,
            files: vec![],
            manifests: vec![],
            snaps: vec![],
            gens: vec![],
            now: 1_700_000_000_000 + (c.seed % 1_000_000_007) as i64,
            uri_ctr: 0,
            name_ctr: 0,
            seq: 0,
            used_ids: BTreeSet::new(),
            purged: false,
            wrote_deleted: false,
            wrote_existing: false,
            noops: 0,
        };
        // generation 0: the table was created, never written to
        w.commit_gen(vec![], None);
        w
    }

    fn v2(&self) -> bool {
        self.c.v2
    }

    fn hex(&mut self) -> String {
        self.name_ctr += 1;
        format!("{:016x}", mix(self.c.seed, self.name_ctr))
    }
    fn uuid(&mut self) -> String {
        let a = self.hex();
        let b = self.hex();
        format!("{}-{}-{}-{}-{}", &a[0..8], &a[8..12], &a[12..16], &b[0..4], &b[4..16])
    }

    /// URI for a file that lives at `dir/rel`, in the next style of the cycle
    fn uri(&mut self, rel: &str) -> String {
        let style = if self.c.uri_styles.is_empty() {
            0
        } else {
            self.c.uri_styles[self.uri_ctr % self.c.uri_styles.len()] % 4
        };
        self.uri_ctr += 1;
        let abs = self.dir.join(rel);
        let abs = abs.to_str().unwrap();
        match style {
            0 => format!("file://{}", abs),
            1 => format!("file:{}", abs),
            2 => abs.to_string(),
            _ => rel.to_string(),
        }
    }
    fn remote_uri(&self, scheme: &str, rel: &str) -> String {
        format!("{}://warehouse-bucket/db/tbl/{}", scheme, rel)
    }

    fn new_snapshot_id(&mut self) -> i64 {
        let mut k = self.used_ids.len() as u64 + 1;
        loop {
            let id = (mix(self.c.seed ^ 0xA5A5, k) >> 1) as i64;
            if id > 0 && self.used_ids.insert(id) {
                return id;
            }
            k += 1000;
        }
    }

    /// advance the commit clock. Equal timestamps with *different* visible
    /// content are generated only where the engine's documented rule still
    /// determines the newest update: version-hint layouts (the hint decides),
    /// and `NNNNN-<uuid>` names (the sequence prefix orders equal timestamps).
    fn tick(&mut self, same_ms: bool, content_identical: bool) {
        let may_tie = content_identical || matches!(self.c.naming, 0 | 1);
        if self.c.naming == 0 && self.c.clock_skew {
            if !(same_ms && may_tie) {
                self.now -= 1 + (mix(self.c.seed, self.now as u64) % 5000) as i64;
            }
            return;
        }
        if !(same_ms && may_tie) {
            self.now += 1 + (mix(self.c.seed, self.now as u64) % 5000) as i64;
        }
    }

    fn current(&self) -> Option<usize> {
        self.gens.last().and_then(|g| g.current)
    }

    // -- data files ---------------------------------------------------------

    fn write_data(&mut self, nf: &NewFile) -> usize {
        let id = self.files.len();
        let mut bad = nf.bad;
        if !self.v2() {
            bad = match bad {
                1 => 3,
                2 => 4,
                b => b,
            };
        }
        let hex = self.hex();
        let ext = match bad {
            3 => "orc",
            4 => "avro",
            _ => "parquet",
        };
        let rel = format!("data/{:05}-{}.{}", id, hex, ext);
        let abs = self.dir.join(&rel);
        let rows: Rows = nf
            .rows
            .iter()
            .map(|r| {
                let mut v = vec![Value::Int(id as i64)];
                v.extend(r.iter().cloned());
                v
            })
            .collect();
        let uri = match bad {
            5 => self.remote_uri("s3", &rel),
            6 => self.remote_uri("hdfs", &rel),
            _ => self.uri(&rel),
        };
        match bad {
            3 | 4 => std::fs::write(&abs, b"ORC\x00not really").unwrap(),
            5 | 6 => {}
            _ => {
                use parquet::arrow::ArrowWriter;
                use parquet::file::properties::WriterProperties;
                let props = WriterProperties::builder()
                    .set_max_row_group_size(self.c.rg_size.max(1))
                    .build();
                let batch = rows_to_batch(&cols(), &rows);
                let f = std::fs::File::create(&abs).unwrap();
                let mut w = ArrowWriter::try_new(f, batch.schema(), Some(props)).unwrap();
                if batch.num_rows() > 0 {
                    w.write(&batch).unwrap();
                }
                w.close().unwrap();
            }
        }
        let size = std::fs::metadata(&abs).map(|m| m.len() as i64).unwrap_or(1234);
        self.files.push(DataFile { abs, uri, record_count: rows.len() as i64, rows, bad, size });
        id
    }

    // -- manifests ----------------------------------------------------------

    fn codec(&self) -> apache_avro::Codec {
        if self.c.deflate {
            apache_avro::Codec::Deflate(Default::default())
        } else {
            apache_avro::Codec::Null
        }
    }

    fn write_manifest(&mut self, snapshot_id: i64, content: i32, entries: Vec<(i32, usize)>, remote: bool) -> usize {
        assert!(!entries.is_empty());
        let rel = format!("metadata/{}-m{}.avro", self.uuid(), self.manifests.len());
        let abs = self.dir.join(&rel);
        let schema = manifest_schema(self.v2());
        let mut w = apache_avro::Writer::with_codec(&schema, std::fs::File::create(&abs).unwrap(), self.codec()).unwrap();
        w.add_user_metadata("format-version".to_string(), if self.v2() { "2" } else { "1" }).unwrap();
        w.add_user_metadata("partition-spec".to_string(), "[]").unwrap();
        w.add_user_metadata("partition-spec-id".to_string(), "0").unwrap();
        w.add_user_metadata("schema".to_string(), iceberg_schema_json().to_string()).unwrap();
        if self.v2() {
            w.add_user_metadata("content".to_string(), if content == 0 { "data" } else { "deletes" }).unwrap();
        }
        for (status, fid) in &entries {
            let f = &self.files[*fid];
            match *status {
                STATUS_DELETED => self.wrote_deleted = true,
                STATUS_EXISTING => self.wrote_existing = true,
                _ => {}
            }
            let format = match f.bad {
                3 => "ORC",
                4 => "AVRO",
                // the reader compares case-insensitively; real writers emit upper case,
                // some catalogs lower case
                _ => {
                    if fid % 3 == 2 {
                        "parquet"
                    } else {
                        "PARQUET"
                    }
                }
            };
            let rec = if self.v2() {
                let fcontent = match f.bad {
                    1 => 1,
                    2 => 2,
                    _ => 0,
                };
                let df = AV::Record(vec![
                    ("content".into(), AV::Int(fcontent)),
                    ("file_path".into(), AV::String(f.uri.clone())),
                    ("file_format".into(), AV::String(format.into())),
                    ("partition".into(), AV::Record(vec![])),
                    ("record_count".into(), AV::Long(f.record_count)),
                    ("file_size_in_bytes".into(), AV::Long(f.size)),
                    ("split_offsets".into(), AV::Union(1, Box::new(AV::Array(vec![AV::Long(4)])))),
                    (
                        "equality_ids".into(),
                        if fcontent == 2 {
                            AV::Union(1, Box::new(AV::Array(vec![AV::Int(1)])))
                        } else {
                            null_union()
                        },
                    ),
                    ("sort_order_id".into(), opt_int(Some(0))),
                ]);
                AV::Record(vec![
                    ("status".into(), AV::Int(*status)),
                    ("snapshot_id".into(), opt_long(Some(snapshot_id))),
                    ("sequence_number".into(), opt_long(if *status == STATUS_ADDED { None } else { Some(self.seq) })),
                    ("file_sequence_number".into(), opt_long(if *status == STATUS_ADDED { None } else { Some(self.seq) })),
                    ("data_file".into(), df),
                ])
            } else {
                let df = AV::Record(vec![
                    ("file_path".into(), AV::String(f.uri.clone())),
                    ("file_format".into(), AV::String(format.into())),
                    ("partition".into(), AV::Record(vec![])),
                    ("record_count".into(), AV::Long(f.record_count)),
                    ("file_size_in_bytes".into(), AV::Long(f.size)),
                    ("block_size_in_bytes".into(), AV::Long(67108864)),
                ]);
                AV::Record(vec![
                    ("status".into(), AV::Int(*status)),
                    ("snapshot_id".into(), AV::Long(snapshot_id)),
                    ("data_file".into(), df),
                ])
            };
            w.append(rec).expect("append manifest entry");
        }
        w.flush().unwrap();
        drop(w);
        let length = std::fs::metadata(&abs).unwrap().len() as i64;
        let uri = if remote { self.remote_uri("s3", &rel) } else { self.uri(&rel) };
        self.manifests.push(Manifest { abs, uri, remote, content, entries, added_snapshot: snapshot_id, length });
        self.manifests.len() - 1
    }

    fn live_entries_of(&self, m: usize) -> Vec<usize> {
        self.manifests[m].entries.iter().filter(|(s, _)| *s != STATUS_DELETED).map(|(_, f)| *f).collect()
    }

    fn write_manifest_list(&mut self, snapshot_id: i64, manifests: &[usize], remote: bool) -> (PathBuf, String) {
        let rel = format!("metadata/snap-{}-1-{}.avro", snapshot_id, self.uuid());
        let abs = self.dir.join(&rel);
        let schema = manifest_list_schema(self.v2());
        let mut w = apache_avro::Writer::with_codec(&schema, std::fs::File::create(&abs).unwrap(), self.codec()).unwrap();
        w.add_user_metadata("snapshot-id".to_string(), snapshot_id.to_string()).unwrap();
        w.add_user_metadata("format-version".to_string(), if self.v2() { "2" } else { "1" }).unwrap();
        for m in manifests {
            let mf = &self.manifests[*m];
            let cnt = |st: i32| mf.entries.iter().filter(|(s, _)| *s == st).count() as i32;
            let rws = |st: i32| -> i64 {
                mf.entries.iter().filter(|(s, _)| *s == st).map(|(_, f)| self.files[*f].record_count).sum()
            };
            let rec = if self.v2() {
                AV::Record(vec![
                    ("manifest_path".into(), AV::String(mf.uri.clone())),
                    ("manifest_length".into(), AV::Long(mf.length)),
                    ("partition_spec_id".into(), AV::Int(0)),
                    ("content".into(), AV::Int(mf.content)),
                    ("sequence_number".into(), AV::Long(self.seq)),
                    ("min_sequence_number".into(), AV::Long(1)),
                    ("added_snapshot_id".into(), AV::Long(mf.added_snapshot)),
                    ("added_files_count".into(), AV::Int(cnt(STATUS_ADDED))),
                    ("existing_files_count".into(), AV::Int(cnt(STATUS_EXISTING))),
                    ("deleted_files_count".into(), AV::Int(cnt(STATUS_DELETED))),
                    ("added_rows_count".into(), AV::Long(rws(STATUS_ADDED))),
                    ("existing_rows_count".into(), AV::Long(rws(STATUS_EXISTING))),
                    ("deleted_rows_count".into(), AV::Long(rws(STATUS_DELETED))),
                    ("partitions".into(), AV::Union(1, Box::new(AV::Array(vec![])))),
                ])
            } else {
                AV::Record(vec![
                    ("manifest_path".into(), AV::String(mf.uri.clone())),
                    ("manifest_length".into(), AV::Long(mf.length)),
                    ("partition_spec_id".into(), AV::Int(0)),
                    ("added_snapshot_id".into(), opt_long(Some(mf.added_snapshot))),
                    ("added_data_files_count".into(), opt_int(Some(cnt(STATUS_ADDED)))),
                    ("existing_data_files_count".into(), opt_int(Some(cnt(STATUS_EXISTING)))),
                    ("deleted_data_files_count".into(), opt_int(Some(cnt(STATUS_DELETED)))),
                    ("partitions".into(), null_union()),
                ])
            };
            w.append(rec).expect("append manifest_file");
        }
        w.flush().unwrap();
        drop(w);
        let uri = if remote { self.remote_uri("s3", &rel) } else { self.uri(&rel) };
        (abs, uri)
    }

    // -- commits ------------------------------------------------------------

    /// carried-over manifests of the parent snapshot (optionally without the
    /// ones that have no live entry left)
    fn carried(&self, parent: Option<usize>) -> Vec<usize> {
        match parent {
            None => vec![],
            Some(p) => self.snaps[p]
                .manifests
                .iter()
                .copied()
                .filter(|m| !(self.c.drop_dead_manifests && self.live_entries_of(*m).is_empty()))
                .collect(),
        }
    }

    fn commit_snapshot(
        &mut self,
        id: i64,
        parent: Option<usize>,
        manifests: Vec<usize>,
        live: BTreeSet<usize>,
        operation: &'static str,
        step: &Step,
    ) {
        // writer self-check (not the oracle): what the manifests say == what the operation meant
        let mut from_manifests = BTreeSet::new();
        for m in &manifests {
            for f in self.live_entries_of(*m) {
                assert!(from_manifests.insert(f), "writer bug: file {} live twice", f);
            }
        }
        assert_eq!(from_manifests, live, "writer bug: manifests disagree with the operation's meaning");

        self.tick(step.same_ms, false);
        let (list_abs, list_uri) = self.write_manifest_list(id, &manifests, step.remote == 2);
        let s = Snap {
            id,
            ts: self.now,
            parent: parent.map(|p| self.snaps[p].id),
            seq: self.seq,
            list_abs,
            list_uri,
            list_remote: step.remote == 2,
            manifests,
            live,
            operation,
        };
        self.snaps.push(s);
        let sidx = self.snaps.len() - 1;
        let mut listed = self.gens.last().map(|g| g.snaps.clone()).unwrap_or_default();
        listed.push(sidx);
        self.write_gen(listed, Some(sidx));
    }

    /// new metadata generation (clock already advanced by the caller)
    fn write_gen(&mut self, snaps: Vec<usize>, current: Option<usize>) {
        let n = self.gens.len();
        let name = match self.c.naming {
            0 | 3 => format!("v{}.metadata.json", n + 1),
            1 => format!("{:05}-{}.metadata.json", n, self.uuid()),
            _ => format!("{}.metadata.json", self.hex()),
        };
        let file = self.dir.join("metadata").join(&name);
        let mut order = snaps.clone();
        if self.c.snaps_reversed {
            order.reverse();
        }
        let snaps_json: Vec<serde_json::Value> = order
            .iter()
            .map(|i| {
                let s = &self.snaps[*i];
                let mut j = serde_json::json!({
                    "snapshot-id": s.id,
                    "timestamp-ms": s.ts,
                    "manifest-list": s.list_uri,
                    "summary": {"operation": s.operation},
                    "schema-id": 0,
                });
                if let Some(p) = s.parent {
                    j["parent-snapshot-id"] = serde_json::json!(p);
                }
                if self.v2() {
                    j["sequence-number"] = serde_json::json!(s.seq);
                }
                j
            })
            .collect();
        let cur_json = match current {
            Some(i) => serde_json::json!(self.snaps[i].id),
            None => {
                if self.c.minus_one_current {
                    serde_json::json!(-1)
                } else {
                    serde_json::Value::Null
                }
            }
        };
        let mut meta = serde_json::json!({
            "format-version": if self.v2() { 2 } else { 1 },
            "table-uuid": "9c12d441-03fe-4693-9a96-a0705ddf69c1",
            "location": format!("file://{}", self.dir.display()),
            "last-updated-ms": self.now,
            "last-column-id": 3,
            "partition-specs": [{"spec-id": 0, "fields": []}],
            "default-spec-id": 0,
            "last-partition-id": 999,
            "properties": {"generation": n.to_string()},
            "current-snapshot-id": cur_json,
            "snapshots": snaps_json,
            "snapshot-log": snaps.iter().map(|i| serde_json::json!({"snapshot-id": self.snaps[*i].id, "timestamp-ms": self.snaps[*i].ts})).collect::<Vec<_>>(),
            "metadata-log": self.gens.iter().map(|g| serde_json::json!({"metadata-file": g.file.to_str().unwrap(), "timestamp-ms": g.ts})).collect::<Vec<_>>(),
            "sort-orders": [{"order-id": 0, "fields": []}],
            "default-sort-order-id": 0,
        });
        if self.v2() {
            meta["last-sequence-number"] = serde_json::json!(self.seq);
            meta["schemas"] = serde_json::json!([iceberg_schema_json()]);
            meta["current-schema-id"] = serde_json::json!(0);
            if let Some(i) = current {
                meta["refs"] = serde_json::json!({"main": {"snapshot-id": self.snaps[i].id, "type": "branch"}});
            }
        } else {
            meta["schema"] = iceberg_schema_json();
            meta["partition-spec"] = serde_json::json!([]);
        }
        std::fs::write(&file, serde_json::to_string_pretty(&meta).unwrap()).unwrap();
        if self.c.crc_files {
            std::fs::write(self.dir.join("metadata").join(format!(".{}.crc", name)), [0u8, 1, 2, 3]).unwrap();
        }
        self.gens.push(Gen { file, ts: self.now, snaps, current });
    }

    fn commit_gen(&mut self, snaps: Vec<usize>, current: Option<usize>) {
        self.write_gen(snaps, current);
    }

    /// split entries of freshly added files into (data manifest, delete manifest)
    fn manifests_for_new(&mut self, id: i64, new: &[usize], extra_existing: &[usize], remote_first: &mut bool) -> Vec<usize> {
        let mut data: Vec<(i32, usize)> = extra_existing.iter().map(|f| (STATUS_EXISTING, *f)).collect();
        let mut dels: Vec<(i32, usize)> = vec![];
        for f in new {
            if matches!(self.files[*f].bad, 1 | 2) {
                dels.push((STATUS_ADDED, *f));
            } else {
                data.push((STATUS_ADDED, *f));
            }
        }
        let mut out = vec![];
        if !data.is_empty() {
            let r = std::mem::replace(remote_first, false);
            out.push(self.write_manifest(id, 0, data, r));
        }
        if !dels.is_empty() {
            let r = std::mem::replace(remote_first, false);
            out.push(self.write_manifest(id, 1, dels, r));
        }
        out
    }

    /// rewrite every carried manifest that holds a live entry in `gone`
    fn tombstone(&mut self, id: i64, carried: Vec<usize>, gone: &BTreeSet<usize>, remote_first: &mut bool) -> Vec<usize> {
        let mut out = vec![];
        for m in carried {
            let hit = self.live_entries_of(m).iter().any(|f| gone.contains(f));
            if !hit {
                out.push(m);
                continue;
            }
            let entries: Vec<(i32, usize)> = self
                .live_entries_of(m)
                .into_iter()
                .map(|f| if gone.contains(&f) { (STATUS_DELETED, f) } else { (STATUS_EXISTING, f) })
                .collect();
            let content = self.manifests[m].content;
            let r = std::mem::replace(remote_first, false);
            out.push(self.write_manifest(id, content, entries, r));
        }
        out
    }

    fn pick_gone(&self, parent: usize, sels: &[u16]) -> BTreeSet<usize> {
        let live: Vec<usize> = self.snaps[parent].live.iter().copied().collect();
        let mut gone = BTreeSet::new();
        for s in sels {
            gone.insert(live[pick_idx(*s, live.len())]);
        }
        if gone.is_empty() {
            gone.insert(live[0]);
        }
        gone
    }

    fn apply(&mut self, step: &Step) {
        let parent = self.current();
        let mut remote_first = step.remote == 1;
        match &step.op {
            Op::Append { files, merge_into } => {
                self.seq += 1;
                let id = self.new_snapshot_id();
                let new: Vec<usize> = files.iter().map(|f| self.write_data(f)).collect();
                let mut list = self.carried(parent);
                let new_ms = match merge_into {
                    Some(sel) if list.iter().any(|m| self.manifests[*m].content == 0) => {
                        let datas: Vec<usize> = list.iter().copied().filter(|m| self.manifests[*m].content == 0).collect();
                        let x = datas[pick_idx(*sel, datas.len())];
                        list.retain(|m| *m != x);
                        let existing = self.live_entries_of(x);
                        self.manifests_for_new(id, &new, &existing, &mut remote_first)
                    }
                    _ => self.manifests_for_new(id, &new, &[], &mut remote_first),
                };
                let mut manifests = new_ms;
                manifests.extend(list);
                let mut live = parent.map(|p| self.snaps[p].live.clone()).unwrap_or_default();
                live.extend(new.iter().copied());
                self.commit_snapshot(id, parent, manifests, live, "append", step);
            }
            Op::Remove { sels } => {
                let p = match parent {
                    Some(p) if !self.snaps[p].live.is_empty() => p,
                    _ => {
                        self.noops += 1;
                        return;
                    }
                };
                self.seq += 1;
                let id = self.new_snapshot_id();
                let gone = self.pick_gone(p, sels);
                let carried = self.carried(parent);
                let manifests = self.tombstone(id, carried, &gone, &mut remote_first);
                let live: BTreeSet<usize> = self.snaps[p].live.difference(&gone).copied().collect();
                self.commit_snapshot(id, parent, manifests, live, "delete", step);
            }
            Op::Overwrite { sels, files } => {
                self.seq += 1;
                let id = self.new_snapshot_id();
                let new: Vec<usize> = files.iter().map(|f| self.write_data(f)).collect();
                let (gone, carried) = match parent {
                    Some(p) if !self.snaps[p].live.is_empty() => (self.pick_gone(p, sels), self.carried(parent)),
                    _ => (BTreeSet::new(), self.carried(parent)),
                };
                let mut manifests = self.manifests_for_new(id, &new, &[], &mut remote_first);
                let rest = self.tombstone(id, carried, &gone, &mut remote_first);
                manifests.extend(rest);
                let mut live: BTreeSet<usize> =
                    parent.map(|p| self.snaps[p].live.difference(&gone).copied().collect()).unwrap_or_default();
                live.extend(new.iter().copied());
                self.commit_snapshot(id, parent, manifests, live, "overwrite", step);
            }
            Op::RewriteManifests { split } => {
                let p = match parent {
                    Some(p) if !self.snaps[p].live.is_empty() => p,
                    _ => {
                        self.noops += 1;
                        return;
                    }
                };
                self.seq += 1;
                let id = self.new_snapshot_id();
                let mut data = vec![];
                let mut dels = vec![];
                for m in self.snaps[p].manifests.clone() {
                    for f in self.live_entries_of(m) {
                        if self.manifests[m].content == 0 {
                            data.push((STATUS_EXISTING, f));
                        } else {
                            dels.push((STATUS_EXISTING, f));
                        }
                    }
                }
                let mut manifests = vec![];
                if *split && data.len() >= 2 {
                    let tail = data.split_off(data.len() / 2);
                    let r = std::mem::replace(&mut remote_first, false);
                    manifests.push(self.write_manifest(id, 0, tail, r));
                }
                if !data.is_empty() {
                    let r = std::mem::replace(&mut remote_first, false);
                    manifests.push(self.write_manifest(id, 0, data, r));
                }
                if !dels.is_empty() {
                    let r = std::mem::replace(&mut remote_first, false);
                    manifests.push(self.write_manifest(id, 1, dels, r));
                }
                let live = self.snaps[p].live.clone();
                self.commit_snapshot(id, parent, manifests, live, "replace", step);
            }
            Op::RewriteMetadata { equal_ts } => {
                let g = self.gens.last().unwrap();
                let (snaps, current) = (g.snaps.clone(), g.current);
                self.tick(*equal_ts, true);
                self.commit_gen(snaps, current);
            }
            Op::Expire { keep, purge } => {
                let g = self.gens.last().unwrap();
                let (snaps, current) = (g.snaps.clone(), g.current);
                if snaps.len() < 2 {
                    self.noops += 1;
                    return;
                }
                let keep = (*keep as usize).clamp(1, snaps.len() - 1);
                let mut kept: Vec<usize> = snaps[snaps.len() - keep..].to_vec();
                if let Some(c) = current {
                    if !kept.contains(&c) {
                        kept.insert(0, c);
                    }
                }
                kept.sort();
                self.tick(step.same_ms, false);
                if *purge {
                    self.purged = true;
                    let mut keep_files = BTreeSet::new();
                    let mut keep_manifests = BTreeSet::new();
                    for s in &kept {
                        keep_files.extend(self.snaps[*s].live.iter().copied());
                        keep_manifests.extend(self.snaps[*s].manifests.iter().copied());
                    }
                    for s in &snaps {
                        if kept.contains(s) {
                            continue;
                        }
                        let _ = std::fs::remove_file(&self.snaps[*s].list_abs);
                        for m in self.snaps[*s].manifests.clone() {
                            if !keep_manifests.contains(&m) {
                                let _ = std::fs::remove_file(&self.manifests[m].abs);
                            }
                        }
                        for f in self.snaps[*s].live.clone() {
                            if !keep_files.contains(&f) {
                                let _ = std::fs::remove_file(&self.files[f].abs);
                            }
                        }
                    }
                    // files tombstoned in kept manifests but live nowhere any more
                    for s in &kept {
                        for m in self.snaps[*s].manifests.clone() {
                            for (st, f) in self.manifests[m].entries.clone() {
                                if st == STATUS_DELETED && !keep_files.contains(&f) {
                                    let _ = std::fs::remove_file(&self.files[f].abs);
                                }
                            }
                        }
                    }
                }
                self.commit_gen(kept, current);
            }
            Op::Rollback { sel } => {
                let g = self.gens.last().unwrap();
                let snaps = g.snaps.clone();
                if snaps.is_empty() {
                    self.noops += 1;
                    return;
                }
                let to = snaps[pick_idx(*sel, snaps.len())];
                self.tick(step.same_ms, false);
                self.commit_gen(snaps, Some(to));
            }
        }
    }

    /// the generation a reader must treat as current
    fn finish(&mut self) -> usize {
        let last = self.gens.len() - 1;
        if self.c.naming == 0 {
            let lag = if self.purged { 0 } else { (self.c.hint_lag as usize).min(last) };
            let g = last - lag;
            let n = g + 1;
            let text = match self.c.hint_form % 4 {
                0 => format!("{}", n),
                1 => format!("v{}", n),
                2 => format!("{}\n", n),
                _ => format!(" v{} \n", n),
            };
            std::fs::write(self.dir.join("metadata/version-hint.text"), text).unwrap();
            return g;
        }
        // newest update; equal timestamps: the later generation (see `tick`)
        let mut best = 0;
        for (i, g) in self.gens.iter().enumerate() {
            if g.ts >= self.gens[best].ts {
                best = i;
            }
        }
        best
    }

    /// model verdict for a snapshot: Err(reason) = must be refused
    fn expect(&self, s: usize) -> Result<Rows, String> {
        let sn = &self.snaps[s];
        if sn.list_remote {
            return Err("manifest-list URI is remote".into());
        }
        if sn.manifests.iter().any(|m| self.manifests[*m].remote) {
            return Err("a manifest URI is remote".into());
        }
        if sn.live.is_empty() {
            return Err("snapshot has no live data file".into());
        }
        for f in &sn.live {
            match self.files[*f].bad {
                0 => {}
                1 | 2 => return Err("live delete file".into()),
                3 | 4 => return Err("live non-Parquet data file".into()),
                _ => return Err("live remote data file".into()),
            }
        }
        let mut rows = vec![];
        for f in &sn.live {
            rows.extend(self.files[*f].rows.iter().cloned());
        }
        Ok(rows)
    }
}

fn iceberg_schema_json() -> serde_json::Value {
    serde_json::json!({"type":"struct","schema-id":0,"fields":[
        {"id":1,"name":"fid","required":false,"type":"long"},
        {"id":2,"name":"k","required":false,"type":"long"},
        {"id":3,"name":"s","required":false,"type":"string"}]})
}

// ---------------------------------------------------------------------------
// the check
// ---------------------------------------------------------------------------

fn new_file() -> impl Strategy<Value = NewFile> {
    let row = || (small_value(ColType::Int, 15), small_value(ColType::Str, 15)).prop_map(|(a, b)| vec![a, b]);
    (
        prop_oneof![
            1 => proptest::collection::vec(row(), 0..1),
            12 => proptest::collection::vec(row(), 1..5),
        ],
        prop_oneof![90 => Just(0u8), 1 => Just(1u8), 1 => Just(2u8), 1 => Just(3u8), 1 => Just(4u8), 1 => Just(5u8), 1 => Just(6u8)],
    )
        .prop_map(|(rows, bad)| NewFile { rows, bad })
}

fn op_strategy() -> impl Strategy<Value = Op> {
    prop_oneof![
        6 => (proptest::collection::vec(new_file(), 1..4), proptest::option::weighted(0.4, any::<u16>()))
            .prop_map(|(files, merge_into)| Op::Append { files, merge_into }),
        4 => proptest::collection::vec(any::<u16>(), 1..3).prop_map(|sels| Op::Remove { sels }),
        2 => (proptest::collection::vec(any::<u16>(), 1..3), proptest::collection::vec(new_file(), 1..3))
            .prop_map(|(sels, files)| Op::Overwrite { sels, files }),
        3 => any::<bool>().prop_map(|split| Op::RewriteManifests { split }),
        2 => any::<bool>().prop_map(|equal_ts| Op::RewriteMetadata { equal_ts }),
        1 => (1u8..4, any::<bool>()).prop_map(|(keep, purge)| Op::Expire { keep, purge }),
        1 => any::<u16>().prop_map(|sel| Op::Rollback { sel }),
    ]
}

fn step_strategy() -> impl Strategy<Value = Step> {
    (
        op_strategy(),
        prop_oneof![60 => Just(0u8), 1 => Just(1u8), 1 => Just(2u8)],
        proptest::bool::weighted(0.2),
    )
        .prop_map(|(op, remote, same_ms)| Step { op, remote, same_ms })
}

pub struct IcebergHistories;

impl IcebergHistories {
    fn open(dir: &Path, target: Option<i64>) -> Result<(Rows, i64, Vec<PathBuf>, i64), String> {
        let dir2 = dir.to_path_buf();
        let opened = std::panic::catch_unwind(move || query_engine::storage::open_iceberg_table(&dir2, target))
            .map_err(|p| format!("PANIC: {}", panic_text(p)))?
            .map_err(|e| format!("open: {}", e))?;
        let sid = opened.snapshot_id;
        let files: Vec<PathBuf> = opened.table.files().to_vec();
        let dir3 = dir.to_path_buf();
        let mut ctx = ExecutionContext::new();
        std::panic::catch_unwind(std::panic::AssertUnwindSafe(|| ctx.register_iceberg("t", &dir3, target)))
            .map_err(|p| format!("PANIC: {}", panic_text(p)))?
            .map_err(|e| format!("register: {}", e))?;
        let rows = run_sql(&ctx, "SELECT * FROM t").map_err(|e| format!("select: {}", e))?;
        let cnt = run_sql(&ctx, "SELECT COUNT(*) FROM t").map_err(|e| format!("count: {}", e))?;
        let n = match cnt.first().and_then(|r| r.first()) {
            Some(Value::Int(n)) => *n,
            o => return Err(format!("count: unexpected result {:?}", o)),
        };
        Ok((rows, sid, files, n))
    }
}

impl Check for IcebergHistories {
    type Case = IceCase;
    fn name(&self) -> &'static str {
        "iceberg_histories"
    }
    fn rule(&self) -> &'static str {
        "the current metadata lists >=2 snapshots, the history wrote a DELETED entry (a removal) and an EXISTING entry (a manifest rewrite), and at least one listed snapshot is served (not refused)"
    }
    fn cases(&self, tier: Tier) -> u32 {
        tier.pick(1000, 30_000)
    }
    fn strategy(&self, tier: Tier) -> BoxedStrategy<IceCase> {
        let max_steps = tier.pick(10usize, 18);
        let first = (proptest::collection::vec(new_file(), 1..4), proptest::bool::weighted(0.1))
            .prop_map(|(files, same_ms)| Step { op: Op::Append { files, merge_into: None }, remote: 0, same_ms });
        let steps = prop_oneof![
            1 => Just(vec![]),
            1 => proptest::collection::vec(step_strategy(), 0..3),
            40 => (first, proptest::collection::vec(step_strategy(), 0..max_steps)).prop_map(|(f, mut r)| {
                r.insert(0, f);
                r
            }),
        ];
        (
            (any::<bool>(), 0u8..4, 0u8..4, prop_oneof![4 => Just(0u8), 1 => Just(1u8), 1 => Just(2u8)], proptest::bool::weighted(0.3)),
            (any::<bool>(), any::<bool>(), any::<bool>(), any::<bool>(), any::<bool>()),
            prop_oneof![Just(2usize), Just(1usize << 20)],
            proptest::collection::vec(0u8..4, 1..6),
            any::<u64>(),
            steps,
        )
            .prop_map(
                |(
                    (v2, naming, hint_form, hint_lag, clock_skew),
                    (deflate, snaps_reversed, minus_one_current, drop_dead_manifests, crc_files),
                    rg_size,
                    uri_styles,
                    seed,
                    steps,
                )| IceCase {
                    v2,
                    naming,
                    hint_form,
                    hint_lag,
                    clock_skew,
                    deflate,
                    snaps_reversed,
                    minus_one_current,
                    drop_dead_manifests,
                    crc_files,
                    rg_size,
                    uri_styles,
                    seed,
                    steps,
                },
            )
            .boxed()
    }
    fn test(&self, c: &IceCase, obs: &mut Obs) -> Verdict {
        let tmp = TempDir::new("c17");
        let dir = tmp.path().join("tbl");
        let mut w = World::new(c, dir.clone());
        for s in &c.steps {
            w.apply(s);
        }
        let g = w.finish();
        let gen_snaps = w.gens[g].snaps.clone();
        let gen_current = w.gens[g].current;

        obs.label(format!("naming={}", c.naming));
        obs.label(if c.v2 { "v2" } else { "v1" });
        if g + 1 < w.gens.len() {
            obs.label("current-generation-is-not-the-last-written");
        }
        if w.gens.iter().enumerate().any(|(i, x)| i != g && x.ts == w.gens[g].ts) {
            obs.label("last-updated-ms tie");
        }
        if w.purged {
            obs.label("purged");
        }
        for s in c.uri_styles.iter().collect::<BTreeSet<_>>() {
            obs.label(format!("uri-style={}", s));
        }

        // targets: current, every listed snapshot, unknown ids
        let mut targets: Vec<(Option<i64>, Result<(Rows, usize), String>)> = vec![];
        let exp_of = |w: &World, s: usize| w.expect(s).map(|r| (r, s));
        targets.push((
            None,
            match gen_current {
                None => Err("table never written".into()),
                Some(s) => exp_of(&w, s),
            },
        ));
        for s in &gen_snaps {
            targets.push((Some(w.snaps[*s].id), exp_of(&w, *s)));
        }
        for (i, s) in w.snaps.iter().enumerate() {
            if !gen_snaps.contains(&i) {
                targets.push((Some(s.id), Err("snapshot id not listed in the current metadata (expired or written later)".into())));
                obs.label("unlisted-existing-snapshot-id");
                break;
            }
        }
        let mut fresh = 42i64;
        while w.used_ids.contains(&fresh) {
            fresh += 1;
        }
        targets.push((Some(fresh), Err("unknown snapshot id".into())));

        let mut served = 0;
        for (target, want) in &targets {
            let got = Self::open(&dir, *target);
            match (want, got) {
                (Err(why), Ok((rows, sid, _, _))) => {
                    return Verdict::Fail(format!(
                        "open at {:?} must be refused ({}), but it resolved snapshot {} and returned {} rows:\n{}",
                        target,
                        why,
                        sid,
                        rows.len(),
                        fmt_rows(&rows, 8)
                    ));
                }
                (Err(why), Err(_)) => {
                    obs.label(format!("refused: {}", why));
                }
                (Ok((rows, s)), Err(e)) => {
                    return Verdict::Fail(format!(
                        "open at {:?} failed: {}\nexpected snapshot {} with {} live files, {} rows",
                        target,
                        e,
                        w.snaps[*s].id,
                        w.snaps[*s].live.len(),
                        rows.len()
                    ));
                }
                (Ok((rows, s)), Ok((got_rows, sid, files, n))) => {
                    served += 1;
                    let sn = &w.snaps[*s];
                    if sid != sn.id {
                        return Verdict::Fail(format!("open at {:?} resolved snapshot {}, expected {}", target, sid, sn.id));
                    }
                    let want_files: BTreeSet<PathBuf> = sn.live.iter().map(|f| w.files[*f].abs.clone()).collect();
                    let got_files: BTreeSet<PathBuf> = files.iter().cloned().collect();
                    if want_files != got_files || files.len() != got_files.len() {
                        return Verdict::Fail(format!(
                            "open at {:?} (snapshot {}) resolved files {:?}, live files are {:?}",
                            target, sn.id, files, want_files
                        ));
                    }
                    if !multiset_eq(&got_rows, rows, 0.0) {
                        return Verdict::Fail(format!(
                            "SELECT * at {:?} (snapshot {}) returned\n{}but the live files hold\n{}",
                            target,
                            sn.id,
                            fmt_rows(&got_rows, 12),
                            fmt_rows(rows, 12)
                        ));
                    }
                    if n != rows.len() as i64 {
                        return Verdict::Fail(format!(
                            "COUNT(*) at {:?} (snapshot {}) = {}, live files hold {} rows",
                            target,
                            sn.id,
                            n,
                            rows.len()
                        ));
                    }
                }
            }
        }
        obs.label(format!("served-targets={}", if served >= 4 { "4+".to_string() } else { served.to_string() }));
        if w.noops > 0 {
            obs.label("has-noop-step");
        }
        if gen_snaps.iter().any(|s| w.snaps[*s].manifests.iter().any(|m| w.manifests[*m].entries.iter().all(|(st, _)| *st == STATUS_DELETED))) {
            obs.label("all-tombstone manifest carried");
        }
        obs.nontrivial(gen_snaps.len() >= 2 && w.wrote_deleted && w.wrote_existing && served >= 1);
        obs.sample(serde_json::json!({
            "steps": c.steps.len(), "generations": w.gens.len(), "current_generation": g,
            "listed_snapshots": gen_snaps.len(), "targets": targets.len(), "served": served,
            "files": w.files.len(), "manifests": w.manifests.len(),
        }));
        Verdict::Pass
    }
}

pub fn property() -> Property {
    Property {
        id: "C17",
        level: "exploration",
        assumptions: &[
            "histories are the ones a spec-following writer commits: a data file is live in at most one manifest of a snapshot; a removed path is not re-added",
            "equal last-updated-ms with different content is generated only under version-hint (hint decides) or NNNNN-<uuid> names (the engine documents the filename tie-break; the later generation is the newest update)",
            "checked through storage::open_iceberg_table / ExecutionContext::register_iceberg; the legacy IcebergScanExec operator (JSON manifests) is not reachable from register_iceberg and is not covered",
        ],
        checks: vec![Box::new(IcebergHistories)],
    }
}
