//! C08 — Running out of memory budget never changes an answer.
//!
//! Generator: 1–2 tables of 300–5 000 rows (compact specs: per-column type,
//! domain size, NULL share; BIGINT/INTEGER/DOUBLE/VARCHAR/DATE/BOOLEAN) in a
//! random batch layout (1–17 batches, so sorts produce 1, 2..8 and >8 runs);
//! statements with multi-key sorts over every key type (DESC, NULLS FIRST/LAST),
//! top-k (`ORDER BY <all columns> LIMIT k [OFFSET m]`), joins of every kind
//! (inner/left/right/full/semi/anti/cross) over every key type, grouped / global /
//! DISTINCT aggregates, COUNT(DISTINCT); memory limits log-uniform in
//! [16 B, 64 MB] plus limits placed around the size of the data;
//! `spill_partitions ∈ {1,2,64}`; a private spill directory per run.
//! Oracle: the answer under each limit equals the answer of the same context
//! with the default (1 GiB) budget — as a multiset, and as an ORDER BY key
//! sequence — or the limited run fails with an explicit error.
//! `refsql` is evaluated only to annotate a failure message.
use super::Property;
use crate::data::*;
use crate::engine::*;
use crate::runner::*;
use proptest::prelude::*;
use query_engine::{ExecutionConfig, ExecutionContext};
use serde::{Deserialize, Serialize};

#[path = "cfgdiff_util.rs"]
mod util;
use util::*;

#[derive(Clone, Debug, Serialize, Deserialize)]
pub struct Case {
    pub tables: Vec<TableSpec>,
    /// batch cut selectors per table
    pub cut_sels: Vec<Vec<u16>>,
    pub stmt: Stmt,
    /// memory limits in bytes
    pub limits: Vec<u64>,
    pub spill_partitions: usize,
}

pub struct SpillDiff;

fn tables_profile(tier: Tier) -> TablesProfile {
    TablesProfile {
        max_tables: 2,
        min_rows: 300,
        max_rows: tier.pick(2500, 5000),
        max_cols: 4,
        types: vec![ColType::Int, ColType::Int, ColType::Int32, ColType::Double, ColType::Str, ColType::Str, ColType::Date, ColType::Bool],
        domains: vec![1, 2, 3, 7, 20, 100, 400, 3000],
        null_pcts: vec![0, 0, 10, 40],
        sparse: false,
        // a run / merge buffer holds 8192 rows: go beyond it now and then
        big_rows: Some((8200, tier.pick(9500, 20000))),
    }
}

fn opts() -> GenOpts {
    GenOpts {
        order_pct: 60,
        limit_pct: 40,
        max_join_rows: 40_000,
        w_scan: 30,
        w_join: 25,
        w_agg: 30,
        w_distinct: 15,
        // the NULL-group-key finding (C01 agg-null-group-key) would otherwise
        // dominate: the spilled aggregate keeps the NULL group, the fused one
        // drops it; keep a minority of such cases
        null_group_keys_pct: 15,
        ..GenOpts::default()
    }
}

fn limit_from(sel: u16) -> u64 {
    // log-uniform in [2^4, 2^26]
    let e = 4.0 + (sel as f64 / 65535.0) * 22.0;
    2f64.powf(e) as u64
}

fn data_bytes(t: &TableSpec) -> u64 {
    (t.n_rows * t.cols.len() * 8) as u64
}

fn strategy(tier: Tier) -> BoxedStrategy<Case> {
    let n_limits = tier.pick(2usize, 5usize);
    (
        tables_spec_strategy(tables_profile(tier)),
        proptest::collection::vec(any::<u16>(), 0..80),
        proptest::collection::vec(
            (prop_oneof![Just(0usize), Just(1), Just(2), Just(4), Just(8), Just(16)], proptest::collection::vec(any::<u16>(), 16)),
            2,
        ),
        proptest::collection::vec(any::<u16>(), n_limits),
        proptest::collection::vec(prop_oneof![Just(0.02f64), Just(0.1), Just(0.3), Just(0.6), Just(1.0), Just(1.3), Just(2.5)], 2),
        prop_oneof![Just(1usize), Just(2), Just(64)],
    )
        .prop_map(|(tables, tape, cuts, lims, factors, spill_partitions)| {
            let stmt = gen_stmt(tape, &tables, &opts());
            let cut_sels: Vec<Vec<u16>> = cuts.into_iter().take(tables.len()).map(|(n, s)| s.into_iter().take(n).collect()).collect();
            let mut limits: Vec<u64> = lims.into_iter().map(limit_from).collect();
            // two limits placed relative to the size of the first table
            for factor in factors {
                limits.push(((data_bytes(&tables[0]) as f64) * factor) as u64 + 16);
            }
            Case { tables, cut_sels, stmt, limits, spill_partitions }
        })
        .boxed()
}

struct Run {
    result: RunResult,
    spilled: usize,
}

fn run(c: &Case, tables: &[Table], sql: &str, cfg: ExecutionConfig) -> Run {
    let mut ctx = ExecutionContext::with_config(cfg);
    for (i, t) in tables.iter().enumerate() {
        let cuts = cuts_from(c.cut_sels.get(i).map(|v| v.as_slice()).unwrap_or(&[]), t.rows.len());
        register_mem(&mut ctx, t, &cuts);
    }
    let result = run_sql(&ctx, sql);
    Run { result, spilled: ctx.memory_pool().spilled() }
}

fn has(c: &Case, f: &str) -> bool {
    c.stmt.features.iter().any(|x| x == f)
}
fn has_prefix(c: &Case, p: &str) -> bool {
    c.stmt.features.iter().any(|x| x.starts_with(p))
}

/// Rows of a variant of the statement under the default budget (used only to
/// evaluate the data condition of a known-finding signature).
fn unlimited_rows(c: &Case, tables: &[Table], q: &crate::sqlast::Query) -> Option<Rows> {
    let tmp = TempDir::new("c08k");
    let cfg = ExecutionConfig::default().with_spill_path(tmp.path().join("u"));
    run(c, tables, &q.sql(), cfg).result.ok()
}

/// Known-finding signatures (see known_findings.json, property C08). Each is a
/// statement shape + a configuration/data condition; anything else is a violation.
fn classify(c: &Case, tables: &[Table], base: &Rows, got: &Rows, spilled: usize) -> Option<&'static str> {
    use crate::sqlast::*;
    let q = &c.stmt.query;
    let f = |x: &str| has(c, x);
    let (only_base, only_got) = sym_diff(base, got);

    // (1) top-k fused into ExternalSortExec: the spilled path ignores `fetch`
    if spilled > 0 && f("limit") && !f("offset") {
        if let Some(k) = q.limit {
            if got.len() as u64 > k && base.len() as u64 <= k {
                return Some("spill-sort-fetch-ignored");
            }
        }
    }
    // (2) spilled INNER join whose key type extract_join_key does not know
    if spilled > 0 && f("join_inner") && (f("joinkey_Date") || f("joinkey_Bool")) {
        let loses_only = only_got.is_empty() || f("shape_agg") || f("limit");
        if loses_only {
            return Some("spill-join-key-type-dropped");
        }
    }
    // (3) fused streaming aggregate over an outer join aborts on its group budget and
    //     re-executes the join, whose second round never emits the unmatched build rows
    if f("group_by") && !f("count_distinct") && (f("join_left") || f("join_right") || f("join_full")) {
        let mut bare = q.clone();
        bare.order_by.clear();
        bare.limit = None;
        bare.offset = None;
        if let SetExpr::Select(s) = &mut bare.body {
            s.having = None;
        }
        if unlimited_rows(c, tables, &bare).map(|r| r.len() > 64).unwrap_or(false) {
            return Some("outer-join-reexecuted-loses-unmatched");
        }
    }
    // (4) MIN/MAX(VARCHAR) above a join is NULL on the in-memory path (C01 finding);
    //     the spilled aggregate reads the strings back from Parquet and gets it right
    if f("minmax_str") && has_prefix(c, "join_") {
        if let SetExpr::Select(s) = &q.body {
            for (j, it) in s.items.iter().enumerate() {
                let is_minmax = matches!(it, Item::Expr(Expr::Agg { f: AggF::Min | AggF::Max, .. }, _));
                if is_minmax && only_base.iter().any(|r| r.get(j).map(|v| v.is_null()).unwrap_or(false)) && only_got.iter().any(|r| matches!(r.get(j), Some(Value::Str(_)))) {
                    return Some("agg-minmax-string-after-join");
                }
            }
        }
    }
    // (5)/(6) spilled sort: the k-way merge
    if spilled > 0 && f("order_by") {
        let mut bare = q.clone();
        bare.order_by.clear();
        bare.limit = None;
        bare.offset = None;
        // the sort's input: the statement without ORDER BY / LIMIT / OFFSET
        let sort_input = unlimited_rows(c, tables, &bare).unwrap_or_default();
        if sort_input.len() > 8192 {
            return Some("spill-merge-over-8192-rows");
        }
        for (k, &j) in q.order_by.iter().zip(c.stmt.order_keys.iter()) {
            // placement the merge implements: NULLs last for ASC, first for DESC
            let col_has_null = sort_input.iter().any(|r| r.get(j).map(|v| v.is_null()).unwrap_or(false));
            let col_is_bool = sort_input.iter().any(|r| matches!(r.get(j), Some(Value::Bool(_))));
            if (col_has_null && k.nulls_first.unwrap_or(false) != k.desc) || col_is_bool {
                return Some("spill-merge-null-order-and-types");
            }
        }
    }
    None
}

impl Check for SpillDiff {
    type Case = Case;
    fn name(&self) -> &'static str {
        "spill_differential"
    }
    fn rule(&self) -> &'static str {
        "the unlimited run answered, and at least one memory-limited run of the same statement really spilled (MemoryPool::spilled() > 0) and returned an answer (which was compared)"
    }
    fn cases(&self, tier: Tier) -> u32 {
        tier.pick(500, 8000)
    }
    fn max_shrink_iters(&self) -> u32 {
        300
    }
    fn strategy(&self, tier: Tier) -> BoxedStrategy<Case> {
        strategy(tier)
    }
    fn test(&self, c: &Case, obs: &mut Obs) -> Verdict {
        let tables: Vec<Table> = c.tables.iter().map(|t| t.expand()).collect();
        let sql = c.stmt.query.sql();
        for f in &c.stmt.features {
            obs.label(format!("feat:{}", f));
        }
        obs.sample(serde_json::json!({"sql": sql, "limits": c.limits, "rows": c.tables.iter().map(|t| t.n_rows).collect::<Vec<_>>() }));
        let tol = if c.stmt.uses_avg { 1e-9 } else { 0.0 };
        let tmp = TempDir::new("c08");
        let base_cfg = ExecutionConfig::default().with_spill_path(tmp.path().join("unlimited"));
        let base = run(c, &tables, &sql, base_cfg);
        let base_rows = match base.result {
            Ok(r) => r,
            Err(e) => {
                obs.label(format!("unlimited_error:{}", short_err(&e)));
                return Verdict::Pass;
            }
        };
        if base.spilled > 0 {
            obs.label("unlimited_run_spilled");
        }
        if base_rows.len() > 300_000 {
            return Verdict::Discard("answer_too_large".into());
        }
        let mut known: Option<(String, String)> = None;
        for (li, &limit) in c.limits.iter().enumerate() {
            let cfg = ExecutionConfig::default()
                .with_memory_limit(limit as usize)
                .with_spill_path(tmp.path().join(format!("l{}", li)))
                .with_spill_partitions(c.spill_partitions);
            let r = run(c, &tables, &sql, cfg);
            match r.result {
                Err(e) => {
                    obs.label(format!("limited_error:{}", short_err(&e)));
                    if is_panic(&e) {
                        obs.label("limited_panic");
                    }
                }
                Ok(rows) => {
                    if r.spilled > 0 {
                        obs.label("spilled_and_answered");
                        obs.nontrivial(true);
                        for f in ["shape_scan", "shape_join", "shape_agg", "shape_distinct", "order_by", "limit"] {
                            if has(c, f) {
                                obs.label(format!("spilled:{}", f));
                            }
                        }
                    } else {
                        obs.label("limited_no_spill");
                    }
                    if let Err(why) = same_answer(&base_rows, &rows, &c.stmt.order_keys, tol) {
                        let msg = format!(
                            "memory_limit={} B (spill_partitions={}, spilled {} B): {}\n sql: {}\n unlimited answer ({} rows) vs limited answer ({} rows):\n{}\n {}\n tables:\n{}\n batch cuts: {:?}",
                            limit,
                            c.spill_partitions,
                            r.spilled,
                            why,
                            sql,
                            base_rows.len(),
                            rows.len(),
                            diff_summary(&base_rows, &rows, 8),
                            third_opinion(&tables, &c.stmt.query, &[("unlimited", &base_rows), ("limited", &rows)], tol),
                            fmt_specs(&c.tables),
                            c.tables.iter().enumerate().map(|(i, t)| cuts_from(c.cut_sels.get(i).map(|v| v.as_slice()).unwrap_or(&[]), t.n_rows)).collect::<Vec<_>>()
                        );
                        match classify(c, &tables, &base_rows, &rows, r.spilled) {
                            Some(id) => {
                                obs.label(format!("known:{}", id));
                                known.get_or_insert((id.to_string(), msg));
                            }
                            None => return Verdict::Fail(msg),
                        }
                    }
                }
            }
        }
        match known {
            Some((id, msg)) => Verdict::Known { id, msg },
            None => Verdict::Pass,
        }
    }
}

pub fn property() -> Property {
    Property {
        id: "C08",
        level: "exploration",
        assumptions: &[
            "'unlimited' is the engine's default budget (1 GiB), which none of the generated inputs (<= 5 000 rows per table, joins bounded to ~40 000 rows) approaches",
            "an explicit engine error under a memory limit is an allowed outcome; a panic is labelled (C29 owns it)",
            "doubles are multiples of 0.25 so sums are exact under any association order; AVG results are compared with relative tolerance 1e-9",
            "LIMIT/OFFSET are generated only with an ORDER BY over all output columns, so the statement has one right answer",
        ],
        checks: vec![Box::new(SpillDiff)],
    }
}

/// Triage aid (`check --worker c08dbg <replay.json> <limit-bytes> ["other sql"]`):
/// prints the physical plan and the answers without / with the memory limit.
pub fn debug(args: &[String]) {
    let doc: serde_json::Value = serde_json::from_str(&std::fs::read_to_string(&args[0]).expect("read")).expect("json");
    let c: Case = serde_json::from_value(doc["case"].clone()).expect("case");
    let limit: usize = args[1].parse().expect("limit");
    let sql = args.get(2).cloned().unwrap_or_else(|| c.stmt.query.sql());
    let tables: Vec<Table> = c.tables.iter().map(|t| t.expand()).collect();
    println!("SQL: {}\n{}", sql, fmt_specs(&c.tables));
    let tmp = TempDir::new("c08dbg");
    for (name, cfg) in [
        ("unlimited", ExecutionConfig::default().with_spill_path(tmp.path().join("u"))),
        ("limited", ExecutionConfig::default().with_memory_limit(limit).with_spill_path(tmp.path().join("l")).with_spill_partitions(c.spill_partitions)),
    ] {
        let mut ctx = ExecutionContext::with_config(cfg);
        for (i, t) in tables.iter().enumerate() {
            let cuts = cuts_from(c.cut_sels.get(i).map(|v| v.as_slice()).unwrap_or(&[]), t.rows.len());
            register_mem(&mut ctx, t, &cuts);
        }
        if name == "unlimited" {
            match ctx.physical_plan(&sql) {
                Ok(p) => println!("--- physical plan\n{}", query_engine::physical::display_plan(p.as_ref(), 0)),
                Err(e) => println!("plan error: {}", e),
            }
        }
        match run_sql(&ctx, &sql) {
            Ok(mut r) => {
                canon_sort(&mut r);
                println!("--- {} ({} rows, spilled {} B)\n{}", name, r.len(), ctx.memory_pool().spilled(), fmt_rows(&r, 25));
            }
            Err(e) => println!("--- {} error: {}", name, e),
        }
    }
}
