//! C08 — not implemented yet.
use super::Property;

pub fn property() -> Property {
    Property { id: "C08", level: "exploration", assumptions: &[], checks: vec![] }
}
