//! C06 — not implemented yet.
use super::Property;

pub fn property() -> Property {
    Property { id: "C06", level: "exploration", assumptions: &[], checks: vec![] }
}
