//! C06 — Compiled predicates are indistinguishable from the interpreter.
//!
//! Check `mask` (in-process): a predicate generated INSIDE the compiled subset
//! (Float64/Int64/Int32/Date32 columns, f64 `+ - * /`, same-type comparisons,
//! AND/OR/NOT, [NOT] BETWEEN, aliases, no-op f64 casts inside arithmetic,
//! register pressure around MAX_REGS=24) is compiled with
//! `CompiledPredicate::compile(expr, schema)` and evaluated on a batch whose
//! columns are individually sliced (non-zero offsets) and hold NULL / NaN /
//! -NaN / +-0.0 / +-inf / integer extremes, at lengths around the 1024-row
//! chunk. Oracle: the engine's interpreter `evaluate_expr(batch, expr)` —
//! logical validity equal at every row, value equal at every valid row.
//! `compile == None` and `evaluate == None` are trivial (counted) cases.
//!
//! Check `qe_compile_switch` (sub-process): the same data and predicates are
//! run through FilterExec, `ctx.sql` over a memory table and `ctx.sql` over a
//! Parquet registration in two worker processes, one with QE_COMPILE=0 and one
//! with QE_COMPILE unset (the switch is read once per process); the row
//! multisets must be equal.
//!
//! Known finding `compiled-f64-ieee-vs-total-order`: the compiled path compares
//! f64 with IEEE `PartialOrd`, the interpreter's arrow kernels with the IEEE
//! totalOrder predicate; they disagree exactly when a Float64 comparison sees a
//! NaN operand or +0.0 against -0.0. The signature predicate below is evaluated
//! per mismatching row; any mismatch it does not explain is a plain failure.
//!
//! Known finding `arithmetic-nan-sign-under-total-order`: when a Float64
//! comparison operand is a NaN PRODUCED BY ARITHMETIC (e.g. `NaN + f0` with f0 a
//! NaN of the other sign), its sign bit depends on which arrow kernel code path
//! computed it (array length / position), and totalOrder comparisons expose that
//! bit. The compiled path re-evaluates NULL-input rows through the interpreter
//! on a gathered sub-batch, the interpreter evaluates the full batch: the two
//! can disagree in value AND validity (`NULL AND x`). It persists with the
//! fix for the first finding applied.
use super::Property;
use crate::data::{self, ColType, Table, TempDir, Value};
use crate::engine;
use crate::runner::*;
use arrow::array::*;
use arrow::datatypes::{DataType, Field, Schema};
use arrow::record_batch::RecordBatch;
use proptest::prelude::*;
use query_engine::physical::compiled_expr::CompiledPredicate;
use query_engine::physical::operators::{evaluate_expr, FilterExec, MemoryTableExec};
use query_engine::physical::PhysicalOperator;
use query_engine::planner::{BinaryOp, Column, Expr, ScalarValue, UnaryOp};
use serde::{Deserialize, Serialize};
use std::sync::Arc;

pub const KF_FLOAT: &str = "compiled-f64-ieee-vs-total-order";
pub const KF_NANSIGN: &str = "arithmetic-nan-sign-under-total-order";

// ---------------------------------------------------------------------------
// fixed schema: 3 x Float64, 2 x Int64, 2 x Int32, 2 x Date32
// ---------------------------------------------------------------------------
#[derive(Clone, Copy, Debug, PartialEq, Eq, Serialize, Deserialize)]
pub enum Ty {
    F64,
    I64,
    I32,
    Date,
}
pub const COLS: [(&str, Ty); 9] = [
    ("f0", Ty::F64),
    ("f1", Ty::F64),
    ("f2", Ty::F64),
    ("k0", Ty::I64),
    ("k1", Ty::I64),
    ("i0", Ty::I32),
    ("i1", Ty::I32),
    ("d0", Ty::Date),
    ("d1", Ty::Date),
];
fn cols_of(t: Ty) -> Vec<u8> {
    COLS.iter()
        .enumerate()
        .filter(|(_, c)| c.1 == t)
        .map(|(i, _)| i as u8)
        .collect()
}
fn arrow_ty(t: Ty) -> DataType {
    match t {
        Ty::F64 => DataType::Float64,
        Ty::I64 => DataType::Int64,
        Ty::I32 => DataType::Int32,
        Ty::Date => DataType::Date32,
    }
}

/// Library-independent predicate AST. `F` holds the f64 BIT PATTERN (as i64)
/// so NaN payloads / -0.0 survive JSON.
#[derive(Clone, Debug, Serialize, Deserialize, PartialEq)]
pub enum E {
    Col(u8),
    F(i64),
    I64(i64),
    I32(i32),
    D(i32),
    Bin(Op, Box<E>, Box<E>),
    Not(Box<E>),
    Between(Box<E>, Box<E>, Box<E>, bool),
    Alias(Box<E>),
    CastF(Box<E>),
}
#[derive(Clone, Copy, Debug, Serialize, Deserialize, PartialEq, Eq)]
pub enum Op {
    Eq,
    Ne,
    Lt,
    Le,
    Gt,
    Ge,
    And,
    Or,
    Add,
    Sub,
    Mul,
    Div,
}
impl Op {
    fn engine(self) -> BinaryOp {
        match self {
            Op::Eq => BinaryOp::Eq,
            Op::Ne => BinaryOp::NotEq,
            Op::Lt => BinaryOp::Lt,
            Op::Le => BinaryOp::LtEq,
            Op::Gt => BinaryOp::Gt,
            Op::Ge => BinaryOp::GtEq,
            Op::And => BinaryOp::And,
            Op::Or => BinaryOp::Or,
            Op::Add => BinaryOp::Add,
            Op::Sub => BinaryOp::Subtract,
            Op::Mul => BinaryOp::Multiply,
            Op::Div => BinaryOp::Divide,
        }
    }
    fn sql(self) -> &'static str {
        match self {
            Op::Eq => "=",
            Op::Ne => "<>",
            Op::Lt => "<",
            Op::Le => "<=",
            Op::Gt => ">",
            Op::Ge => ">=",
            Op::And => "AND",
            Op::Or => "OR",
            Op::Add => "+",
            Op::Sub => "-",
            Op::Mul => "*",
            Op::Div => "/",
        }
    }
    fn is_cmp(self) -> bool {
        matches!(self, Op::Eq | Op::Ne | Op::Lt | Op::Le | Op::Gt | Op::Ge)
    }
    fn is_arith(self) -> bool {
        matches!(self, Op::Add | Op::Sub | Op::Mul | Op::Div)
    }
}

/// How column references / field names are spelled.
/// 0: field "f0", ref f0 | 1: field "t.f0", ref t.f0 | 2: field "t.f0", ref f0 | 3: field "f0", ref t.f0
fn field_name(mode: u8, c: usize) -> String {
    if mode == 1 || mode == 2 {
        format!("t.{}", COLS[c].0)
    } else {
        COLS[c].0.to_string()
    }
}
fn col_ref(mode: u8, c: usize) -> Column {
    if mode == 1 || mode == 3 {
        Column::new_qualified("t", COLS[c].0)
    } else {
        Column::new(COLS[c].0)
    }
}

pub fn to_expr(e: &E, mode: u8) -> Expr {
    match e {
        E::Col(c) => Expr::Column(col_ref(mode, *c as usize)),
        E::F(b) => Expr::Literal(ScalarValue::Float64(f64::from_bits(*b as u64).into())),
        E::I64(v) => Expr::Literal(ScalarValue::Int64(*v)),
        E::I32(v) => Expr::Literal(ScalarValue::Int32(*v)),
        E::D(v) => Expr::Literal(ScalarValue::Date32(*v)),
        E::Bin(op, l, r) => Expr::BinaryExpr {
            left: Box::new(to_expr(l, mode)),
            op: op.engine(),
            right: Box::new(to_expr(r, mode)),
        },
        E::Not(x) => Expr::UnaryExpr { op: UnaryOp::Not, expr: Box::new(to_expr(x, mode)) },
        E::Between(x, lo, hi, neg) => Expr::Between {
            expr: Box::new(to_expr(x, mode)),
            low: Box::new(to_expr(lo, mode)),
            high: Box::new(to_expr(hi, mode)),
            negated: *neg,
        },
        E::Alias(x) => Expr::Alias { expr: Box::new(to_expr(x, mode)), name: "al".into() },
        E::CastF(x) => Expr::Cast { expr: Box::new(to_expr(x, mode)), data_type: DataType::Float64 },
    }
}

/// SQL rendering; None when a literal has no SQL spelling (NaN/inf/-0.0) — those predicates are then only run through FilterExec.
pub fn to_sql(e: &E) -> Option<String> {
    Some(match e {
        E::Col(c) => COLS[*c as usize].0.to_string(),
        E::F(b) => {
            let v = f64::from_bits(*b as u64);
            if !v.is_finite() || (v == 0.0 && v.is_sign_negative()) {
                return None;
            }
            Value::Double(v).sql()
        }
        E::I64(v) => {
            if *v == i64::MIN {
                return None;
            }
            Value::Int(*v).sql()
        }
        E::I32(v) => Value::Int(*v as i64).sql(),
        E::D(v) => {
            if *v < -700000 || *v > 2900000 {
                return None;
            }
            Value::Date(*v).sql()
        }
        E::Bin(op, l, r) => format!("({} {} {})", to_sql(l)?, op.sql(), to_sql(r)?),
        E::Not(x) => format!("(NOT {})", to_sql(x)?),
        E::Between(x, lo, hi, neg) => format!(
            "({} {}BETWEEN {} AND {})",
            to_sql(x)?,
            if *neg { "NOT " } else { "" },
            to_sql(lo)?,
            to_sql(hi)?
        ),
        E::Alias(x) => to_sql(x)?,
        E::CastF(x) => format!("CAST({} AS DOUBLE)", to_sql(x)?),
    })
}

fn collect_cols(e: &E, out: &mut Vec<u8>) {
    match e {
        E::Col(c) => {
            if !out.contains(c) {
                out.push(*c)
            }
        }
        E::Bin(_, l, r) => {
            collect_cols(l, out);
            collect_cols(r, out);
        }
        E::Not(x) | E::Alias(x) | E::CastF(x) => collect_cols(x, out),
        E::Between(x, lo, hi, _) => {
            collect_cols(x, out);
            collect_cols(lo, out);
            collect_cols(hi, out);
        }
        _ => {}
    }
}

// ---------------------------------------------------------------------------
// compact, self-contained column data
// ---------------------------------------------------------------------------
/// Row i of a column = palette[pattern[i % pattern.len()] % palette.len()].
/// Palette entries: None = NULL; Some(x): for F64 columns x is the f64 bit
/// pattern, for I64 the value, for I32/Date the value (truncated to i32).
#[derive(Clone, Debug, Serialize, Deserialize, PartialEq)]
pub struct ColData {
    pub palette: Vec<Option<i64>>,
    pub pattern: Vec<u8>,
    /// the arrow array is built longer and sliced at this offset
    pub offset: u8,
}
impl ColData {
    pub fn at(&self, i: usize) -> Option<i64> {
        if self.palette.is_empty() || self.pattern.is_empty() {
            return None;
        }
        self.palette[self.pattern[i % self.pattern.len()] as usize % self.palette.len()]
    }
}

fn build_array(ty: Ty, d: &ColData, len: usize, sliced: bool) -> ArrayRef {
    let off = if sliced { d.offset as usize } else { 0 };
    let pad = if sliced { (d.offset as usize) % 3 } else { 0 };
    let total = off + len + pad;
    let has_null = d.palette.iter().any(|p| p.is_none()) || d.palette.is_empty();
    // the padding rows (outside the slice) are NULL when the column can hold
    // NULLs: the slice may then have a null buffer but null_count()==0
    let v = |j: usize| -> Option<i64> {
        if j < off || j >= off + len {
            if has_null {
                None
            } else {
                d.at(j)
            }
        } else {
            d.at(j - off)
        }
    };
    let arr: ArrayRef = match ty {
        Ty::F64 => {
            if has_null {
                Arc::new(Float64Array::from(
                    (0..total).map(|j| v(j).map(|b| f64::from_bits(b as u64))).collect::<Vec<_>>(),
                ))
            } else {
                Arc::new(Float64Array::from(
                    (0..total).map(|j| f64::from_bits(v(j).unwrap() as u64)).collect::<Vec<_>>(),
                ))
            }
        }
        Ty::I64 => {
            if has_null {
                Arc::new(Int64Array::from((0..total).map(v).collect::<Vec<_>>()))
            } else {
                Arc::new(Int64Array::from((0..total).map(|j| v(j).unwrap()).collect::<Vec<_>>()))
            }
        }
        Ty::I32 => {
            if has_null {
                Arc::new(Int32Array::from((0..total).map(|j| v(j).map(|x| x as i32)).collect::<Vec<_>>()))
            } else {
                Arc::new(Int32Array::from((0..total).map(|j| v(j).unwrap() as i32).collect::<Vec<_>>()))
            }
        }
        Ty::Date => {
            if has_null {
                Arc::new(Date32Array::from((0..total).map(|j| v(j).map(|x| x as i32)).collect::<Vec<_>>()))
            } else {
                Arc::new(Date32Array::from((0..total).map(|j| v(j).unwrap() as i32).collect::<Vec<_>>()))
            }
        }
    };
    if off == 0 && pad == 0 {
        arr
    } else {
        arr.slice(off, len)
    }
}

fn build_batch(cols: &[ColData], len: usize, mode: u8, sliced: bool) -> RecordBatch {
    let schema = Arc::new(Schema::new(
        (0..COLS.len())
            .map(|c| Field::new(field_name(mode, c), arrow_ty(COLS[c].1), true))
            .collect::<Vec<_>>(),
    ));
    let arrays: Vec<ArrayRef> = (0..COLS.len()).map(|c| build_array(COLS[c].1, &cols[c], len, sliced)).collect();
    RecordBatch::try_new(schema, arrays).unwrap()
}

// ---------------------------------------------------------------------------
// row-level model pieces used ONLY by the known-finding signature
// ---------------------------------------------------------------------------
fn side_type(e: &E) -> Option<Ty> {
    match e {
        E::Col(c) => Some(COLS[*c as usize].1),
        E::F(_) => Some(Ty::F64),
        E::I64(_) => Some(Ty::I64),
        E::I32(_) => Some(Ty::I32),
        E::D(_) => Some(Ty::Date),
        E::Alias(x) => side_type(x),
        E::CastF(_) => Some(Ty::F64),
        E::Bin(op, ..) if op.is_arith() => Some(Ty::F64),
        _ => None,
    }
}
/// f64 value of a numeric side at a row (None = NULL or not f64-valued)
fn num_at(e: &E, row: &dyn Fn(u8) -> Option<i64>) -> Option<f64> {
    match e {
        E::Col(c) => {
            if COLS[*c as usize].1 != Ty::F64 {
                return None;
            }
            row(*c).map(|b| f64::from_bits(b as u64))
        }
        E::F(b) => Some(f64::from_bits(*b as u64)),
        E::Alias(x) | E::CastF(x) => num_at(x, row),
        E::Bin(op, l, r) if op.is_arith() => {
            let (a, b) = (num_at(l, row)?, num_at(r, row)?);
            Some(match op {
                Op::Add => a + b,
                Op::Sub => a - b,
                Op::Mul => a * b,
                _ => a / b,
            })
        }
        _ => None,
    }
}
fn float_ambiguous_pair(a: f64, b: f64) -> bool {
    a.is_nan() || b.is_nan() || (a == 0.0 && b == 0.0 && a.is_sign_negative() != b.is_sign_negative())
}
/// Signature of KF_FLOAT at one row: some Float64 comparison in `e` has a NaN
/// operand or compares +0.0 with -0.0 at that row.
pub fn row_float_ambiguous(e: &E, row: &dyn Fn(u8) -> Option<i64>) -> bool {
    match e {
        E::Bin(op, l, r) if op.is_cmp() => {
            if side_type(l) == Some(Ty::F64) && side_type(r) == Some(Ty::F64) {
                if let (Some(a), Some(b)) = (num_at(l, row), num_at(r, row)) {
                    return float_ambiguous_pair(a, b);
                }
            }
            false
        }
        E::Bin(_, l, r) => row_float_ambiguous(l, row) || row_float_ambiguous(r, row),
        E::Not(x) | E::Alias(x) | E::CastF(x) => row_float_ambiguous(x, row),
        E::Between(x, lo, hi, _) => {
            if side_type(x) == Some(Ty::F64) {
                if let Some(a) = num_at(x, row) {
                    for s in [lo, hi] {
                        if side_type(s) == Some(Ty::F64) {
                            if let Some(b) = num_at(s, row) {
                                if float_ambiguous_pair(a, b) {
                                    return true;
                                }
                            }
                        }
                    }
                }
            }
            false
        }
        _ => false,
    }
}

/// Signature of KF_NANSIGN at one row: some Float64 comparison has an operand
/// that is an arithmetic expression evaluating to NaN at that row.
pub fn row_arith_nan(e: &E, row: &dyn Fn(u8) -> Option<i64>) -> bool {
    fn strip(e: &E) -> &E {
        match e {
            E::Alias(x) | E::CastF(x) => strip(x),
            o => o,
        }
    }
    fn side_is_arith_nan(s: &E, row: &dyn Fn(u8) -> Option<i64>) -> bool {
        matches!(strip(s), E::Bin(op, ..) if op.is_arith()) && num_at(s, row).map(|v| v.is_nan()).unwrap_or(false)
    }
    match e {
        E::Bin(op, l, r) if op.is_cmp() => side_is_arith_nan(l, row) || side_is_arith_nan(r, row),
        E::Bin(_, l, r) => row_arith_nan(l, row) || row_arith_nan(r, row),
        E::Not(x) | E::Alias(x) | E::CastF(x) => row_arith_nan(x, row),
        E::Between(x, lo, hi, _) => [x, lo, hi].iter().any(|s| side_is_arith_nan(s, row)),
        _ => false,
    }
}

/// registers compile() will need: (F registers, M registers) — label only
fn f_need(e: &E) -> usize {
    match e {
        E::Col(_) | E::F(_) | E::I64(_) | E::I32(_) | E::D(_) => 1,
        E::Alias(x) | E::CastF(x) => f_need(x),
        E::Bin(_, l, r) => 1 + f_need(l) + f_need(r),
        _ => 0,
    }
}
fn side_f_need(e: &E) -> usize {
    match e {
        E::Alias(x) => side_f_need(x),
        E::Bin(op, ..) if op.is_arith() => f_need(e),
        _ => 0,
    }
}
fn reg_need(e: &E) -> (usize, usize) {
    match e {
        E::Bin(op, l, r) if op.is_cmp() => (side_f_need(l) + side_f_need(r), 1),
        E::Bin(_, l, r) => {
            let (a, b) = (reg_need(l), reg_need(r));
            (a.0 + b.0, a.1 + b.1 + 1)
        }
        E::Not(x) => {
            let a = reg_need(x);
            (a.0, a.1 + 1)
        }
        E::Alias(x) => reg_need(x),
        E::Between(x, lo, hi, neg) => (
            2 * side_f_need(x) + side_f_need(lo) + side_f_need(hi),
            3 + *neg as usize,
        ),
        _ => (0, 0),
    }
}
fn has_mixed(e: &E) -> bool {
    match e {
        E::Bin(op, l, r) if op.is_cmp() => side_type(l) != side_type(r),
        E::Bin(_, l, r) => has_mixed(l) || has_mixed(r),
        E::Not(x) | E::Alias(x) => has_mixed(x),
        E::Between(x, lo, hi, _) => side_type(x) != side_type(lo) || side_type(x) != side_type(hi),
        _ => false,
    }
}

// ---------------------------------------------------------------------------
// generators
// ---------------------------------------------------------------------------
fn fb(v: f64) -> i64 {
    v.to_bits() as i64
}
/// plain f64 values: finite, moderate magnitude, no -0.0 (products of a few
/// of them stay finite)
fn f64_plain() -> BoxedStrategy<i64> {
    prop_oneof![
        4 => (-8i64..9).prop_map(|k| fb(k as f64 * 0.25)),
        2 => prop_oneof![Just(0.1), Just(0.2), Just(0.3), Just(0.30000000000000004), Just(1e10), Just(-1e10), Just(3.0), Just(1e-10)]
            .prop_map(fb),
        1 => (-1.0e6f64..1.0e6).prop_map(fb),
    ]
    .boxed()
}
fn f64_special() -> BoxedStrategy<i64> {
    prop_oneof![
        3 => Just(fb(f64::NAN)),
        1 => Just(fb(-f64::NAN)),
        3 => Just(fb(-0.0)),
        2 => Just(fb(0.0)),
        2 => Just(fb(f64::INFINITY)),
        2 => Just(fb(f64::NEG_INFINITY)),
        1 => Just(fb(f64::MAX)),
        1 => Just(fb(f64::MIN)),
        1 => Just(fb(f64::MIN_POSITIVE)),
        1 => Just(fb(5e-324)),
        1 => Just(fb(9007199254740992.0)),
        1 => Just(fb(9007199254740994.0)),
        1 => any::<i64>(), // arbitrary bit pattern (NaN payloads, subnormals)
    ]
    .boxed()
}
fn f64_val(special: bool) -> BoxedStrategy<i64> {
    if special {
        prop_oneof![3 => f64_special(), 2 => f64_plain()].boxed()
    } else {
        f64_plain()
    }
}
fn i64_val(wide: bool) -> BoxedStrategy<i64> {
    if !wide {
        // |v| <= 2^61: `max - min` of a row group cannot overflow i64 (the
        // Parquet registration's ndv estimate panics on that in debug builds;
        // that is C18's subject, not C06's)
        return prop_oneof![
            5 => -2i64..6,
            1 => Just(1i64 << 61),
            1 => Just(-(1i64 << 61)),
            1 => Just(1i64 << 53),
            1 => Just((1i64 << 53) + 1),
            1 => Just(i32::MAX as i64 + 1),
            1 => any::<i64>().prop_map(|v| v >> 2),
        ]
        .boxed();
    }
    prop_oneof![
        5 => -2i64..6,
        1 => Just(i64::MIN),
        1 => Just(i64::MAX),
        1 => Just(i64::MAX - 1),
        1 => Just(i64::MIN + 1),
        1 => Just(1i64 << 53),
        1 => Just((1i64 << 53) + 1),
        1 => Just(i32::MAX as i64 + 1),
        1 => any::<i64>(),
    ]
    .boxed()
}
fn i32_val() -> BoxedStrategy<i64> {
    prop_oneof![
        5 => -2i64..6,
        1 => Just(i32::MIN as i64),
        1 => Just(i32::MAX as i64),
        1 => Just(i32::MAX as i64 - 1),
        1 => Just(i32::MIN as i64 + 1),
        1 => any::<i32>().prop_map(|x| x as i64),
    ]
    .boxed()
}
fn date_val() -> BoxedStrategy<i64> {
    prop_oneof![
        5 => (0i64..6).prop_map(|d| 10957 + d),
        1 => Just(0i64),
        1 => Just(-1i64),
        1 => Just(i32::MIN as i64),
        1 => Just(i32::MAX as i64),
        1 => (-20000i64..40000),
    ]
    .boxed()
}
/// generator profile: `special` = float specials (NaN/-0.0/inf/extremes) in
/// literals and data; `wide` = i64 extremes allowed
#[derive(Clone, Copy, Debug)]
pub struct Prof {
    pub special: bool,
    pub wide: bool,
}
fn val_of(t: Ty, p: Prof) -> BoxedStrategy<i64> {
    match t {
        Ty::F64 => f64_val(p.special),
        Ty::I64 => i64_val(p.wide),
        Ty::I32 => i32_val(),
        Ty::Date => date_val(),
    }
}
fn lit_of(t: Ty, p: Prof) -> BoxedStrategy<E> {
    match t {
        Ty::F64 => f64_val(p.special).prop_map(E::F).boxed(),
        Ty::I64 => i64_val(p.wide).prop_map(E::I64).boxed(),
        Ty::I32 => i32_val().prop_map(|v| E::I32(v as i32)).boxed(),
        Ty::Date => date_val().prop_map(|v| E::D(v as i32)).boxed(),
    }
}
fn col_of(t: Ty) -> BoxedStrategy<E> {
    proptest::sample::select(cols_of(t)).prop_map(E::Col).boxed()
}
fn maybe_alias(s: BoxedStrategy<E>) -> BoxedStrategy<E> {
    (s, 0u8..10).prop_map(|(e, k)| if k == 0 { E::Alias(Box::new(e)) } else { e }).boxed()
}
fn arith_op() -> BoxedStrategy<Op> {
    prop_oneof![3 => Just(Op::Add), 3 => Just(Op::Sub), 3 => Just(Op::Mul), 2 => Just(Op::Div)].boxed()
}
fn cmp_op() -> BoxedStrategy<Op> {
    prop_oneof![Just(Op::Eq), Just(Op::Ne), Just(Op::Lt), Just(Op::Le), Just(Op::Gt), Just(Op::Ge)].boxed()
}
/// f64 arithmetic tree (always has an arithmetic operator at the root)
fn arith(depth: u32, p: Prof) -> BoxedStrategy<E> {
    let leaf = prop_oneof![3 => col_of(Ty::F64), 2 => lit_of(Ty::F64, p)].boxed();
    let operand = if depth == 0 {
        leaf
    } else {
        prop_oneof![3 => leaf, 2 => arith(depth - 1, p)].boxed()
    };
    let operand = (operand, 0u8..12)
        .prop_map(|(e, k)| match k {
            0 => E::Alias(Box::new(e)),
            1 => E::CastF(Box::new(e)),
            _ => e,
        })
        .boxed();
    (arith_op(), operand.clone(), operand).prop_map(|(op, a, b)| E::Bin(op, Box::new(a), Box::new(b))).boxed()
}
/// left-deep arithmetic chain with `n` leaves (register pressure on F regs)
fn arith_chain(p: Prof) -> BoxedStrategy<E> {
    let leaf = prop_oneof![3 => col_of(Ty::F64), 2 => lit_of(Ty::F64, p)];
    (proptest::collection::vec((leaf, arith_op()), 2..15)).prop_map(|v| {
        let mut it = v.into_iter();
        let mut acc = it.next().unwrap().0;
        for (l, op) in it {
            acc = E::Bin(op, Box::new(acc), Box::new(l));
        }
        acc
    })
    .boxed()
}
fn side(t: Ty, p: Prof) -> BoxedStrategy<E> {
    let base = match t {
        Ty::F64 => prop_oneof![
            10 => col_of(t),
            8 => lit_of(t, p),
            5 => arith(1, p),
            2 => arith(2, p),
            1 => arith_chain(p),
        ]
        .boxed(),
        _ => prop_oneof![3 => col_of(t), 2 => lit_of(t, p)].boxed(),
    };
    maybe_alias(base)
}
fn any_ty() -> BoxedStrategy<Ty> {
    prop_oneof![5 => Just(Ty::F64), 2 => Just(Ty::I64), 2 => Just(Ty::I32), 2 => Just(Ty::Date)].boxed()
}
fn leaf_pred(p: Prof) -> BoxedStrategy<E> {
    let cmp = (any_ty(), cmp_op())
        .prop_flat_map(move |(t, op)| {
            (side(t, p), side(t, p)).prop_map(move |(a, b)| E::Bin(op, Box::new(a), Box::new(b)))
        })
        .boxed();
    let between = any_ty()
        .prop_flat_map(move |t| {
            (side(t, p), side(t, p), side(t, p), any::<bool>())
                .prop_map(|(x, lo, hi, n)| E::Between(Box::new(x), Box::new(lo), Box::new(hi), n))
        })
        .boxed();
    prop_oneof![12 => cmp, 4 => between].boxed()
}
/// out-of-subset: a mixed-type comparison (the interpreter coerces; compile must decline)
fn mixed_pred(p: Prof) -> BoxedStrategy<E> {
    let mixed = (cmp_op(), col_of(Ty::I64), lit_of(Ty::F64, Prof { special: false, wide: p.wide }))
        .prop_map(|(op, a, b)| E::Bin(op, Box::new(a), Box::new(b)));
    (mixed, pred(1, p), any::<bool>())
        .prop_map(|(m, p, and)| E::Bin(if and { Op::And } else { Op::Or }, Box::new(p), Box::new(m)))
        .boxed()
}
fn pred(depth: u32, p: Prof) -> BoxedStrategy<E> {
    if depth == 0 {
        return leaf_pred(p);
    }
    let sub = pred(depth - 1, p);
    prop_oneof![
        4 => leaf_pred(p),
        3 => (sub.clone(), sub.clone()).prop_map(|(a, b)| E::Bin(Op::And, Box::new(a), Box::new(b))),
        3 => (sub.clone(), sub.clone()).prop_map(|(a, b)| E::Bin(Op::Or, Box::new(a), Box::new(b))),
        2 => sub.clone().prop_map(|a| E::Not(Box::new(a))),
        1 => sub.prop_map(|a| E::Alias(Box::new(a))),
    ]
    .boxed()
}
/// AND/OR chain of n leaves: M-register pressure (2n-1 registers; 12 leaves fit, 13 do not)
fn pred_chain(p: Prof) -> BoxedStrategy<E> {
    proptest::collection::vec((leaf_pred(p), any::<bool>()), 8..16)
        .prop_map(|v| {
            let mut it = v.into_iter();
            let mut acc = it.next().unwrap().0;
            for (l, and) in it {
                acc = E::Bin(if and { Op::And } else { Op::Or }, Box::new(acc), Box::new(l));
            }
            acc
        })
        .boxed()
}
fn predicate(p: Prof) -> BoxedStrategy<E> {
    prop_oneof![24 => pred(3, p), 3 => pred_chain(p), 1 => mixed_pred(p)].boxed()
}

fn col_data(t: Ty, p: Prof) -> BoxedStrategy<ColData> {
    let entry = prop_oneof![1 => Just(None), 4 => val_of(t, p).prop_map(Some)];
    (
        prop_oneof![
            6 => proptest::collection::vec(entry, 1..7),
            1 => Just(vec![None]),
        ],
        proptest::collection::vec(0u8..8, 1..38),
        prop_oneof![2 => Just(0u8), 3 => 1u8..80],
    )
        .prop_map(|(palette, pattern, offset)| ColData { palette, pattern, offset })
        .boxed()
}
fn all_cols(p: Prof) -> BoxedStrategy<Vec<ColData>> {
    let v: Vec<BoxedStrategy<ColData>> = COLS.iter().map(|c| col_data(c.1, p)).collect();
    v.boxed()
}
fn len_strategy(tier: Tier) -> BoxedStrategy<usize> {
    let big = tier.pick(3200usize, 9000usize);
    prop_oneof![
        1 => Just(0usize),
        1 => Just(1usize),
        2 => 2usize..70,
        2 => Just(1023usize),
        2 => Just(1024usize),
        2 => Just(1025usize),
        1 => 1016usize..1034,
        1 => Just(2047usize),
        2 => Just(2048usize),
        2 => Just(2049usize),
        2 => 3000usize..big,
    ]
    .boxed()
}

// ---------------------------------------------------------------------------
// check 1: compiled mask vs interpreted mask
// ---------------------------------------------------------------------------
#[derive(Clone, Debug, Serialize, Deserialize)]
pub struct MaskCase {
    pub pred: E,
    pub cols: Vec<ColData>,
    pub len: usize,
    /// column-name spelling mode (see `field_name`)
    pub mode: u8,
}

fn fmt_cell(t: Ty, v: Option<i64>) -> String {
    match (t, v) {
        (_, None) => "NULL".into(),
        (Ty::F64, Some(b)) => format!("{:?}", f64::from_bits(b as u64)),
        (Ty::I64, Some(x)) => x.to_string(),
        (_, Some(x)) => (x as i32).to_string(),
    }
}
fn describe_row(e: &E, cols: &[ColData], r: usize) -> String {
    let mut used = vec![];
    collect_cols(e, &mut used);
    used.iter()
        .map(|c| format!("{}={}", COLS[*c as usize].0, fmt_cell(COLS[*c as usize].1, cols[*c as usize].at(r))))
        .collect::<Vec<_>>()
        .join(", ")
}
fn is_special_cell(t: Ty, v: Option<i64>) -> bool {
    match (t, v) {
        (_, None) => true,
        (Ty::F64, Some(b)) => {
            let f = f64::from_bits(b as u64);
            f.is_nan() || f.is_infinite() || (f == 0.0 && f.is_sign_negative())
        }
        _ => false,
    }
}

pub struct Mask;
impl Check for Mask {
    type Case = MaskCase;
    fn name(&self) -> &'static str {
        "mask"
    }
    fn rule(&self) -> &'static str {
        "the predicate compiled and evaluated on the compiled path, and (a referenced column holds NULL/NaN/-0.0/+-inf within the batch, or the batch is longer than one 1024-row chunk)"
    }
    fn cases(&self, tier: Tier) -> u32 {
        tier.pick(30_000, 1_000_000)
    }
    fn strategy(&self, tier: Tier) -> BoxedStrategy<MaskCase> {
        // 30 % of the cases draw from the float-special pool (where the open
        // finding lives), the rest keep NaN / -0.0 / inf out of literals and
        // data so the search continues behind it.
        prop_oneof![7 => Just(false), 3 => Just(true)]
            .prop_flat_map(move |special| {
                let p = Prof { special, wide: true };
                (
                    predicate(p),
                    all_cols(p),
                    len_strategy(tier),
                    prop_oneof![5 => Just(0u8), 1 => Just(1u8), 1 => Just(2u8), 1 => Just(3u8)],
                )
            })
            .prop_map(|(pred, cols, len, mode)| MaskCase { pred, cols, len, mode })
            .boxed()
    }
    fn test(&self, c: &MaskCase, obs: &mut Obs) -> Verdict {
        if c.cols.len() != COLS.len() {
            return Verdict::Discard("case has wrong column count".into());
        }
        let batch = build_batch(&c.cols, c.len, c.mode, true);
        let expr = to_expr(&c.pred, c.mode);
        let compiled = match CompiledPredicate::compile(&expr, &batch.schema()) {
            Some(p) => p,
            None => {
                obs.label("compile=None");
                let (f, m) = reg_need(&c.pred);
                if has_mixed(&c.pred) {
                    obs.label("declined:mixed-type-comparison");
                } else if f > 24 || m > 24 {
                    obs.label("declined:needs>24-registers");
                } else {
                    obs.label("declined:other");
                }
                return Verdict::Pass;
            }
        };
        obs.label("compiled");
        {
            let (f, m) = reg_need(&c.pred);
            if f >= 20 || m >= 20 {
                obs.label("compiled:20..24-registers");
            }
        }
        let got = match compiled.evaluate(&batch) {
            Some(m) => m,
            None => {
                obs.label("evaluate=None");
                return Verdict::Pass;
            }
        };
        let want_arr = match evaluate_expr(&batch, &expr) {
            Ok(a) => a,
            Err(e) => {
                return Verdict::Fail(format!(
                    "compiled path produced a mask but the interpreter fails: {} ; predicate {}",
                    e, expr
                ))
            }
        };
        let want = match want_arr.as_any().downcast_ref::<BooleanArray>() {
            Some(b) => b.clone(),
            None => {
                return Verdict::Fail(format!(
                    "interpreter result is {:?}, not boolean, for a predicate the compiler accepted: {}",
                    want_arr.data_type(),
                    expr
                ))
            }
        };
        // non-triviality
        let mut used = vec![];
        collect_cols(&c.pred, &mut used);
        let period_rows = c.len.min(40 * 8);
        let special_in_batch = used.iter().any(|cidx| {
            let cd = &c.cols[*cidx as usize];
            (0..period_rows).any(|r| is_special_cell(COLS[*cidx as usize].1, cd.at(r)))
        });
        if special_in_batch {
            obs.label("special-value-in-referenced-column");
        }
        if c.len > 1024 {
            obs.label("multi-chunk");
        }
        if c.len % 8 != 0 {
            obs.label("tail-bits");
        }
        obs.nontrivial(special_in_batch || c.len > 1024);

        if got.len() != c.len || want.len() != c.len {
            return Verdict::Fail(format!(
                "mask lengths: compiled {} interpreted {} batch {} ; predicate {}",
                got.len(),
                want.len(),
                c.len,
                expr
            ));
        }
        let row_at = |r: usize| {
            let cols = &c.cols;
            move |cidx: u8| cols[cidx as usize].at(r)
        };
        let mut known: Option<(&'static str, String)> = None;
        for r in 0..c.len {
            let (gv, wv) = (got.is_valid(r), want.is_valid(r));
            if gv != wv {
                let msg = format!(
                    "validity differs at row {} of {}: compiled {} interpreted {} ; predicate {} ; row {}",
                    r,
                    c.len,
                    if gv { "valid" } else { "NULL" },
                    if wv { "valid" } else { "NULL" },
                    expr,
                    describe_row(&c.pred, &c.cols, r)
                );
                if row_arith_nan(&c.pred, &row_at(r)) {
                    if known.as_ref().map(|k| k.0 != KF_NANSIGN).unwrap_or(true) {
                        known = Some((KF_NANSIGN, msg));
                    }
                    continue;
                }
                return Verdict::Fail(msg);
            }
            if gv && got.value(r) != want.value(r) {
                let msg = format!(
                    "mask differs at row {} of {}: compiled {} interpreted {} ; predicate {} ; row {}",
                    r,
                    c.len,
                    got.value(r),
                    want.value(r),
                    expr,
                    describe_row(&c.pred, &c.cols, r)
                );
                if row_arith_nan(&c.pred, &row_at(r)) {
                    if known.as_ref().map(|k| k.0 != KF_NANSIGN).unwrap_or(true) {
                        known = Some((KF_NANSIGN, msg));
                    }
                } else if row_float_ambiguous(&c.pred, &row_at(r)) {
                    known.get_or_insert((KF_FLOAT, msg));
                } else {
                    return Verdict::Fail(msg);
                }
            }
        }
        if let Some((id, msg)) = known {
            obs.label(format!("hit:{}", id));
            if std::env::var("VERIF_STRICT_KNOWN").is_ok() {
                return Verdict::Fail(msg);
            }
            return Verdict::Known { id: id.into(), msg };
        }
        Verdict::Pass
    }
}

// ---------------------------------------------------------------------------
// check 2: QE_COMPILE=0 worker vs default worker
// ---------------------------------------------------------------------------
#[derive(Clone, Debug, Serialize, Deserialize)]
pub struct SwitchCase {
    pub preds: Vec<E>,
    pub cols: Vec<ColData>,
    pub len: usize,
    /// memory-table batch cut / parquet row-group size
    pub chunk: usize,
}

#[derive(Serialize, Deserialize, Debug, Clone, PartialEq)]
pub struct WorkerOut {
    /// QE_COMPILE as seen by the worker
    pub qe_compile: Option<String>,
    /// per predicate: did CompiledPredicate::compile accept it in this process
    pub compiled: Vec<bool>,
    /// per predicate, per path ("filter_exec", "sql_mem", "sql_parquet"): rows or error text
    pub results: Vec<Vec<(String, Result<Vec<Vec<Value>>, String>)>>,
}

fn switch_table(c: &SwitchCase) -> Table {
    let mut cols = vec![data::Column { name: "rid".into(), ty: ColType::Int }];
    for (n, t) in COLS.iter() {
        cols.push(data::Column {
            name: n.to_string(),
            ty: match t {
                Ty::F64 => ColType::Double,
                Ty::I64 => ColType::Int,
                Ty::I32 => ColType::Int32,
                Ty::Date => ColType::Date,
            },
        });
    }
    let rows = (0..c.len)
        .map(|r| {
            let mut row = vec![Value::Int(r as i64)];
            for (ci, (_, t)) in COLS.iter().enumerate() {
                row.push(match (t, c.cols[ci].at(r)) {
                    (_, None) => Value::Null,
                    (Ty::F64, Some(b)) => Value::Double(f64::from_bits(b as u64)),
                    (Ty::I64, Some(x)) => Value::Int(x),
                    (Ty::I32, Some(x)) => Value::Int(x as i32 as i64),
                    (Ty::Date, Some(x)) => Value::Date(x as i32),
                });
            }
            row
        })
        .collect();
    Table { name: "t".into(), cols, rows }
}

/// Worker entry: `check --worker c06 <casefile>`; prints one JSON WorkerOut line.
pub fn worker(args: &[String]) {
    let path = args.first().expect("c06 worker: case file");
    let text = std::fs::read_to_string(path).expect("read case file");
    let c: SwitchCase = serde_json::from_str(&text).expect("parse case file");
    std::panic::set_hook(Box::new(|_| {}));
    let out = worker_run(&c, std::path::Path::new(path).parent().unwrap());
    println!("{}", serde_json::to_string(&out).unwrap());
}

fn worker_run(c: &SwitchCase, dir: &std::path::Path) -> WorkerOut {
    let t = switch_table(c);
    let chunk = c.chunk.max(1);
    let cuts: Vec<usize> = (1..).map(|k| k * chunk).take_while(|x| *x < c.len).take(64).collect();
    let mut mem = query_engine::ExecutionContext::new();
    engine::register_mem(&mut mem, &t, &cuts);
    let mut pq = query_engine::ExecutionContext::new();
    let layout = data::ParquetLayout { file_cuts: vec![c.len / 2], row_group_size: chunk, stats: 1, dictionary: false };
    let pq_ok = engine::register_parquet(&mut pq, &t, &dir.join("pq"), &layout);
    let batches = t.batches(&cuts);
    let schema = t.schema();
    let mut compiled = vec![];
    let mut results = vec![];
    for p in &c.preds {
        let expr = to_expr(p, 0);
        compiled.push(CompiledPredicate::compile(&expr, &schema).is_some());
        let mut per = vec![];
        // (1) FilterExec over a memory scan, predicate handed over as built
        let fe = std::panic::catch_unwind(std::panic::AssertUnwindSafe(|| {
            let scan = Arc::new(MemoryTableExec::new("t", schema.clone(), batches.clone(), None));
            let f: Arc<dyn PhysicalOperator> = Arc::new(FilterExec::new(scan, expr.clone()));
            engine::execute_physical(&f)
        }))
        .unwrap_or_else(|p| Err(format!("PANIC: {}", engine::panic_text(p))));
        per.push(("filter_exec".to_string(), fe));
        if let Some(sql) = to_sql(p) {
            let q = format!("SELECT * FROM t WHERE {}", sql);
            per.push(("sql_mem".to_string(), engine::run_sql(&mem, &q)));
            if pq_ok.is_ok() {
                per.push(("sql_parquet".to_string(), engine::run_sql(&pq, &q)));
            }
        }
        results.push(per);
    }
    WorkerOut { qe_compile: std::env::var("QE_COMPILE").ok(), compiled, results }
}

fn spawn_worker(casefile: &std::path::Path, compile_off: bool) -> Result<WorkerOut, String> {
    let exe = std::env::current_exe().map_err(|e| e.to_string())?;
    let mut cmd = std::process::Command::new(exe);
    cmd.arg("--worker").arg("c06").arg(casefile);
    cmd.env_remove("QE_COMPILE");
    if compile_off {
        cmd.env("QE_COMPILE", "0");
    }
    let out = cmd.output().map_err(|e| format!("spawn: {}", e))?;
    if !out.status.success() {
        return Err(format!(
            "worker exit {:?}: {}",
            out.status.code(),
            String::from_utf8_lossy(&out.stderr).chars().take(400).collect::<String>()
        ));
    }
    let text = String::from_utf8_lossy(&out.stdout);
    let line = text.lines().rev().find(|l| l.starts_with('{')).ok_or("worker printed no JSON")?;
    serde_json::from_str(line).map_err(|e| format!("worker JSON: {}", e))
}

pub struct Switch;
impl Check for Switch {
    type Case = SwitchCase;
    fn name(&self) -> &'static str {
        "qe_compile_switch"
    }
    fn rule(&self) -> &'static str {
        "the default worker compiled at least one of the predicates (the QE_COMPILE=0 worker none), a referenced column holds NULL or a float special, and at least one path returned some but not all rows"
    }
    fn cases(&self, tier: Tier) -> u32 {
        tier.pick(40, 3000)
    }
    fn workers(&self, _t: Tier) -> usize {
        8
    }
    fn max_shrink_iters(&self) -> u32 {
        30
    }
    fn strategy(&self, tier: Tier) -> BoxedStrategy<SwitchCase> {
        self.strategy_inner(tier)
    }
    fn test(&self, c: &SwitchCase, obs: &mut Obs) -> Verdict {
        switch_test(c, obs)
    }
}
impl Switch {
    fn strategy_inner(&self, tier: Tier) -> BoxedStrategy<SwitchCase> {
        prop_oneof![8 => Just(false), 2 => Just(true)]
            .prop_flat_map(move |special| {
                let p = Prof { special, wide: false };
                (
                    proptest::collection::vec(pred(2, p), 3..7),
                    all_cols(p),
                    prop_oneof![
                        2 => 0usize..40,
                        1 => Just(1025usize),
                        1 => 1000usize..tier.pick(2100, 9000),
                    ],
                    prop_oneof![Just(1usize), Just(7), Just(100), Just(1024), Just(8192)],
                )
            })
            .prop_map(|(preds, cols, len, chunk)| SwitchCase { preds, cols, len, chunk })
            .boxed()
    }
}
fn switch_test(c: &SwitchCase, obs: &mut Obs) -> Verdict {
    {
        if c.cols.len() != COLS.len() {
            return Verdict::Discard("case has wrong column count".into());
        }
        let tmp = TempDir::new("c06");
        let casefile = tmp.path().join("case.json");
        std::fs::write(&casefile, serde_json::to_string(c).unwrap()).expect("write case file");
        // separate directories so the two workers do not share parquet files
        let d_off = tmp.path().join("off");
        let d_on = tmp.path().join("on");
        std::fs::create_dir_all(&d_off).unwrap();
        std::fs::create_dir_all(&d_on).unwrap();
        std::fs::copy(&casefile, d_off.join("case.json")).unwrap();
        std::fs::copy(&casefile, d_on.join("case.json")).unwrap();
        let off = match spawn_worker(&d_off.join("case.json"), true) {
            Ok(o) => o,
            Err(e) => return Verdict::Discard(format!("worker(QE_COMPILE=0) infrastructure: {}", e.chars().take(80).collect::<String>())),
        };
        let on = match spawn_worker(&d_on.join("case.json"), false) {
            Ok(o) => o,
            Err(e) => return Verdict::Discard(format!("worker(default) infrastructure: {}", e.chars().take(80).collect::<String>())),
        };
        if off.qe_compile.as_deref() != Some("0") || on.qe_compile.is_some() {
            return Verdict::Discard("workers did not see the intended QE_COMPILE".into());
        }
        if off.compiled.iter().any(|b| *b) {
            return Verdict::Fail("QE_COMPILE=0 worker still compiled a predicate (switch ineffective)".into());
        }
        let any_compiled = on.compiled.iter().any(|b| *b);
        let mut partial = false;
        let mut known: Option<(&'static str, String)> = None;
        for (pi, p) in c.preds.iter().enumerate() {
            let (ro, rn) = (&off.results[pi], &on.results[pi]);
            if ro.len() != rn.len() {
                return Verdict::Fail(format!("workers ran different paths for predicate {}", pi));
            }
            for ((path, a), (_, b)) in ro.iter().zip(rn.iter()) {
                obs.label(format!("path:{}", path));
                match (a, b) {
                    (Ok(ra), Ok(rb)) => {
                        if !ra.is_empty() && ra.len() < c.len {
                            partial = true;
                        }
                        if data::multiset_eq(ra, rb, 0.0) {
                            continue;
                        }
                        // rows present in one answer only, by rid
                        let ids = |rows: &Vec<Vec<Value>>| -> std::collections::BTreeSet<i64> {
                            rows.iter()
                                .filter_map(|r| match r.first() {
                                    Some(Value::Int(i)) => Some(*i),
                                    _ => None,
                                })
                                .collect()
                        };
                        let (ia, ib) = (ids(ra), ids(rb));
                        let diff: Vec<i64> = ia.symmetric_difference(&ib).cloned().collect();
                        let msg = format!(
                            "path {}: SELECT * FROM t WHERE {} returns {} rows with QE_COMPILE=0 and {} rows by default; rids only in one answer: {:?} ; first differing row: {}",
                            path,
                            to_expr(p, 0),
                            ra.len(),
                            rb.len(),
                            diff.iter().take(8).collect::<Vec<_>>(),
                            diff.first().map(|r| describe_row(p, &c.cols, *r as usize)).unwrap_or_default()
                        );
                        let cols = &c.cols;
                        let sound_ids = !diff.is_empty() && ra.len() == ia.len() && rb.len() == ib.len();
                        let nan_sign = |r: usize| r < c.len && row_arith_nan(p, &move |ci: u8| cols[ci as usize].at(r));
                        let ambiguous = |r: usize| r < c.len && row_float_ambiguous(p, &move |ci: u8| cols[ci as usize].at(r));
                        if sound_ids && diff.iter().all(|r| nan_sign(*r as usize) || ambiguous(*r as usize)) {
                            let id = if diff.iter().any(|r| nan_sign(*r as usize)) { KF_NANSIGN } else { KF_FLOAT };
                            if known.as_ref().map(|k| k.0 != KF_NANSIGN).unwrap_or(true) {
                                known = Some((id, msg));
                            }
                        } else {
                            return Verdict::Fail(msg);
                        }
                    }
                    (Err(ea), Err(_)) => {
                        obs.label(format!("both-error:{}:{}", path, ea.chars().take(40).collect::<String>()));
                    }
                    (Ok(ra), Err(e)) => {
                        return Verdict::Fail(format!(
                            "path {}: WHERE {} returns {} rows with QE_COMPILE=0 but fails by default: {}",
                            path,
                            to_expr(p, 0),
                            ra.len(),
                            e
                        ))
                    }
                    (Err(e), Ok(rb)) => {
                        return Verdict::Fail(format!(
                            "path {}: WHERE {} returns {} rows by default but fails with QE_COMPILE=0: {}",
                            path,
                            to_expr(p, 0),
                            rb.len(),
                            e
                        ))
                    }
                }
            }
        }
        let mut used = vec![];
        for p in &c.preds {
            collect_cols(p, &mut used);
        }
        let special = used.iter().any(|ci| {
            (0..c.len.min(320)).any(|r| is_special_cell(COLS[*ci as usize].1, c.cols[*ci as usize].at(r)))
        });
        if any_compiled {
            obs.label("default-worker-compiled");
        }
        obs.nontrivial(any_compiled && special && partial);
        if let Some((id, msg)) = known {
            obs.label(format!("hit:{}", id));
            return Verdict::Known { id: id.into(), msg };
        }
        Verdict::Pass
    }
}

/// development aid: VERIF_ONLY_CHECK=<name> runs a single check of the property
fn only(v: Vec<Box<dyn DynCheck>>) -> Vec<Box<dyn DynCheck>> {
    match std::env::var("VERIF_ONLY_CHECK") {
        Ok(n) if v.iter().any(|c| c.name() == n) => v.into_iter().filter(|c| c.name() == n).collect(),
        _ => v,
    }
}

pub fn property() -> Property {
    Property {
        id: "C06",
        level: "exploration",
        assumptions: &[
            "equality is logical: validity equal at every row and value equal at every valid row (value bits under a NULL are not observable)",
            "expressions are generated inside the subset compile() accepts; compile()==None / evaluate()==None cases are counted as trivial",
            "the QE_COMPILE differential compares row multisets of SELECT * (row order is not part of the property)",
        ],
        checks: only(vec![Box::new(Mask), Box::new(Switch)]),
    }
}
