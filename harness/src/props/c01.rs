//! C01 — not implemented yet.
use super::Property;

pub fn property() -> Property {
    Property { id: "C01", level: "exploration", assumptions: &[], checks: vec![] }
}
