//! C01 — SQL answers agree with standard SQL semantics (umbrella).
//!
//! Generator: 1–3 small tables (2–4 columns over BIGINT/INTEGER/DOUBLE/VARCHAR/
//! DATE/BOOLEAN, NULL density 0–35 %, tiny value domains → duplicates), random
//! batch layout; statements from the full feature profile of `sqlgen`
//! (projection, WHERE, joins of every kind, GROUP BY/HAVING, DISTINCT, ORDER
//! BY/LIMIT/OFFSET, set operations, derived tables, CTEs, subqueries,
//! CASE/COALESCE/NULLIF/IN/BETWEEN/LIKE/IS DISTINCT FROM).
//! Oracle: `refsql` (independent naive evaluator, cross-checked against
//! SQLite); comparison per DESIGN §3.4; an engine `Err` is allowed by the
//! property ("otherwise the statement fails with an error").
//!
//! Two generated checks:
//!  * `sql_core`  — the feature subset measured free of open findings, so any
//!    disagreement there is new;
//!  * `sql_full`  — everything; disagreements are attributed to an open finding
//!    only through the signature predicates of `kf_sql`.
use super::Property;
use crate::kf_sql::classify_sql;
use crate::runner::*;
use crate::sqlcheck::*;
use crate::sqlgen::*;

fn families(c: &SqlCase) -> usize {
    c.features
        .iter()
        .filter(|f| {
            matches!(
                f.as_str(),
                "where" | "group_by" | "having" | "distinct" | "order_by" | "limit" | "cte" | "derived" | "exists" | "in_subquery" | "not_in_subquery" | "scalar_subquery"
            ) || f.starts_with("join_")
                || f.starts_with("union")
                || f.starts_with("intersect")
                || f.starts_with("except")
        })
        .count()
}

fn nontrivial(c: &SqlCase, o: &SqlOutcome) -> bool {
    families(c) >= 2 && o.engine_rows.is_some() && o.null_or_dup_sensitive
}

pub fn core_profile(_t: Tier) -> Profile {
    // everything measured clean on the unchanged tree (see DESIGN §11)
    Profile::from_spec("minimal+logic+deep+in_list_null+like+is_distinct_from+bool_literals+distinct+order_by+limit+nulls_order+joins2+explicit_joins+outer_joins+residual_on+cross_joins+comma_joins")
}

pub fn property() -> Property {
    Property {
        id: "C01",
        level: "exploration",
        assumptions: &[
            "the reference evaluator refsql implements standard SQL semantics (cross-checked against SQLite by tools/sqlite_crosscheck.py)",
            "engine-defined semantics (integer division, overflow, NaN/-0.0, ANY/ALL with NULL) are excluded by construction from the generator; statements producing -0.0 are discarded",
            "an engine error is an allowed outcome (the property only forbids wrong answers)",
        ],
        checks: vec![
            Box::new(SqlCheck {
                name: "sql_core",
                rule: "statement uses >=2 clause families, the engine returned an answer, and the reference answer changes under two-valued logic or under duplicate-blind (set) semantics",
                profile: core_profile,
                tables: default_tables,
                quick_cases: 3000,
                thorough_cases: 150_000,
                tape_len: 220,
                depth: 2,
                nontrivial,
                classify: classify_sql,
                strategy: None,
                profile_env: "C01_CORE_PROFILE",
            }),
            Box::new(SqlCheck {
                name: "sql_full",
                rule: "as sql_core, over the full statement grammar (group by/having, set operations, subqueries incl. correlated, 3-way joins)",
                profile: |_| Profile::full(),
                tables: default_tables,
                quick_cases: 3000,
                thorough_cases: 150_000,
                tape_len: 220,
                depth: 2,
                nontrivial,
                classify: classify_sql,
                strategy: None,
                profile_env: "C01_PROFILE",
            }),
        ],
    }
}
