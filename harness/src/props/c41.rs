//! C41 — Chunked metastore responses decode exactly.
//!
//! Code under test: `metastore::gravitino::dechunk` (through the hook
//! `verif_dechunk`) and, end to end, `GravitinoSource::list_filesets` against a
//! scripted loopback HTTP server that answers with `Transfer-Encoding: chunked`.
//!
//! Checks
//!  * `roundtrip`  — generated body × generated chunking (1-byte chunks, chunk
//!    extensions, upper/lower hex, leading zeros, trailers, chunk boundaries
//!    inside a CRLF of the body).  Oracle by construction: the decoder returns
//!    exactly the body.
//!  * `malformed`  — a valid encoding with one structural fault planted
//!    (truncation, missing CRLF after chunk data, declared size too big / too
//!    small, missing last-chunk, missing CRLF after the size, non-hex size,
//!    huge size).  Oracle: an independent strict RFC 7230 §4.1 reader
//!    (`reference`) classifies the bytes as Valid(body) / Malformed / Lenient
//!    (places where the grammar is violated in a way the property does not
//!    speak about: whitespace or '+' around the size, missing final CRLF after
//!    the last-chunk, odd extension syntax).  Valid ⇒ Some(body), Malformed ⇒
//!    None, Lenient ⇒ only "does not panic".
//!  * `arbitrary`  — token soup and raw bytes, hex sizes up to and beyond
//!    usize::MAX: never panics; same reference differential.
//!  * `end_to_end` — `list_filesets` over a real socket with a chunked JSON
//!    answer: returns exactly the sorted names.
use super::Property;
use crate::runner::*;
use proptest::prelude::*;
use query_engine::metastore::gravitino::verif_dechunk;
use query_engine::metastore::GravitinoSource;
use serde::{Deserialize, Serialize};

// ---------------------------------------------------------------------------
// known findings (open on the unchanged tree; see known_findings.json)
// ---------------------------------------------------------------------------
const KF_EXT: &str = "c41-chunk-extension-rejected";
const KF_OVERFLOW: &str = "c41-size-plus-2-overflow-panic";
const KF_TERMINATOR: &str = "c41-chunk-data-crlf-unchecked";

// ---------------------------------------------------------------------------
// case model
// ---------------------------------------------------------------------------
#[derive(Clone, Debug, Serialize, Deserialize, PartialEq)]
pub enum Data {
    Bytes(Vec<u8>),
    /// `pat` repeated `n` times (compact form of a large chunk)
    Repeat { pat: Vec<u8>, n: usize },
}
impl Data {
    fn bytes(&self) -> Vec<u8> {
        match self {
            Data::Bytes(b) => b.clone(),
            Data::Repeat { pat, n } => {
                let mut v = Vec::with_capacity(pat.len() * n);
                for _ in 0..*n {
                    v.extend_from_slice(pat);
                }
                v
            }
        }
    }
}

#[derive(Clone, Debug, Serialize, Deserialize)]
pub struct Chunk {
    /// non-empty chunk data
    pub data: Data,
    /// chunk extension text including the leading ';' ("" = none)
    pub ext: String,
    pub upper: bool,
    pub lead_zeros: u8,
}

#[derive(Clone, Debug, Serialize, Deserialize)]
pub struct Encoding {
    pub chunks: Vec<Chunk>,
    /// extension on the last-chunk line ("" = none)
    pub last_ext: String,
    /// number of '0' digits of the last-chunk size (>=1)
    pub last_zeros: u8,
    /// trailer field lines (without CRLF)
    pub trailers: Vec<String>,
}

fn size_line(len: usize, upper: bool, lead_zeros: u8, ext: &str) -> Vec<u8> {
    let hex = if upper { format!("{:X}", len) } else { format!("{:x}", len) };
    let mut s = "0".repeat(lead_zeros as usize);
    s.push_str(&hex);
    s.push_str(ext);
    s.push_str("\r\n");
    s.into_bytes()
}

struct Rendered {
    bytes: Vec<u8>,
    body: Vec<u8>,
    /// offset of the first byte of each chunk's size line
    line_start: Vec<usize>,
    /// offset of the first data byte of each chunk
    data_start: Vec<usize>,
    /// offset just after the CRLF that ends the last-chunk line
    last_line_end: usize,
    /// offset of the start of the last-chunk line
    last_line_start: usize,
}

fn render(e: &Encoding) -> Rendered {
    let mut bytes = vec![];
    let mut body = vec![];
    let mut line_start = vec![];
    let mut data_start = vec![];
    for c in &e.chunks {
        let d = c.data.bytes();
        assert!(!d.is_empty(), "harness: empty chunk data");
        line_start.push(bytes.len());
        bytes.extend(size_line(d.len(), c.upper, c.lead_zeros, &c.ext));
        data_start.push(bytes.len());
        bytes.extend_from_slice(&d);
        bytes.extend_from_slice(b"\r\n");
        body.extend_from_slice(&d);
    }
    let last_line_start = bytes.len();
    bytes.extend("0".repeat(e.last_zeros.max(1) as usize).as_bytes());
    bytes.extend(e.last_ext.as_bytes());
    bytes.extend_from_slice(b"\r\n");
    let last_line_end = bytes.len();
    for t in &e.trailers {
        bytes.extend(t.as_bytes());
        bytes.extend_from_slice(b"\r\n");
    }
    bytes.extend_from_slice(b"\r\n");
    Rendered { bytes, body, line_start, data_start, last_line_end, last_line_start }
}

/// the same encoding with every extension removed (used only to make the
/// signature of the extension finding precise)
fn strip_ext(e: &Encoding) -> Encoding {
    let mut e = e.clone();
    for c in &mut e.chunks {
        c.ext.clear();
    }
    e.last_ext.clear();
    e
}

// ---------------------------------------------------------------------------
// independent strict reference reader (RFC 7230 §4.1)
// ---------------------------------------------------------------------------
#[derive(Debug, Clone, PartialEq)]
enum Why {
    NoCrlfAfterSize,
    NonHexSize,
    /// declared size does not fit in the bytes that follow (size as u128)
    ShortChunk { declared: u128 },
    /// size bytes present, but fewer than 2 bytes follow
    TruncatedTerminator,
    /// size+2 bytes present but the two bytes after the data are not CRLF
    BadTerminator,
}
#[derive(Debug, Clone, PartialEq)]
enum Ref {
    Valid { body: Vec<u8>, saw_ext: bool, chunks: usize },
    Malformed { why: Why, chunks_before: usize, saw_ext: bool },
    /// outside what the property pins down
    Lenient(&'static str),
}

fn is_tchar(b: u8) -> bool {
    b.is_ascii_alphanumeric() || b"!#$%&'*+-.^_`|~".contains(&b)
}

/// strict chunk-ext: *( ";" token [ "=" ( token / quoted-string ) ] )
fn ext_ok(mut e: &[u8]) -> bool {
    while !e.is_empty() {
        if e[0] != b';' {
            return false;
        }
        e = &e[1..];
        let n = e.iter().take_while(|b| is_tchar(**b)).count();
        if n == 0 {
            return false;
        }
        e = &e[n..];
        if e.first() == Some(&b'=') {
            e = &e[1..];
            if e.first() == Some(&b'"') {
                // quoted-string without escapes: printable ASCII except '"' and '\\'
                let mut i = 1;
                loop {
                    match e.get(i) {
                        None => return false,
                        Some(b'"') => break,
                        Some(b'\\') => return false,
                        Some(c) if (0x20..0x7f).contains(c) || *c == b'\t' => i += 1,
                        Some(_) => return false,
                    }
                }
                e = &e[i + 1..];
            } else {
                let n = e.iter().take_while(|b| is_tchar(**b)).count();
                if n == 0 {
                    return false;
                }
                e = &e[n..];
            }
        }
    }
    true
}

fn find_crlf(b: &[u8]) -> Option<usize> {
    b.windows(2).position(|w| w == b"\r\n")
}

fn reference(mut b: &[u8]) -> Ref {
    let mut body = vec![];
    let mut chunks = 0usize;
    let mut saw_ext = false;
    loop {
        let Some(le) = find_crlf(b) else {
            return Ref::Malformed { why: Why::NoCrlfAfterSize, chunks_before: chunks, saw_ext };
        };
        let line = &b[..le];
        let (digits, ext) = match line.iter().position(|c| *c == b';') {
            Some(p) => (&line[..p], &line[p..]),
            None => (line, &line[le..]),
        };
        if digits.is_empty() || !digits.iter().all(|c| c.is_ascii_hexdigit()) {
            // whitespace / sign around otherwise-hex digits: the grammar says
            // malformed, the property does not insist
            let lenient = std::str::from_utf8(digits).map_or(false, |s| {
                let t: String = s.chars().filter(|c| !c.is_whitespace()).collect();
                let t = t.strip_prefix('+').unwrap_or(&t);
                !t.is_empty() && t.bytes().all(|c| c.is_ascii_hexdigit())
            });
            if lenient {
                return Ref::Lenient("whitespace or sign around the chunk size");
            }
            return Ref::Malformed { why: Why::NonHexSize, chunks_before: chunks, saw_ext };
        }
        if !ext.is_empty() {
            if !ext_ok(ext) {
                return Ref::Lenient("chunk extension outside the strict grammar");
            }
            saw_ext = true;
        }
        // value as u128 (saturating for absurd digit counts)
        let sig: Vec<u8> = digits.iter().copied().skip_while(|c| *c == b'0').collect();
        let size: u128 = if sig.len() > 32 {
            u128::MAX
        } else {
            u128::from_str_radix(std::str::from_utf8(&sig).unwrap_or("0"), 16).unwrap_or(0)
        };
        let size = if sig.is_empty() { 0 } else { size };
        b = &b[le + 2..];
        if size == 0 {
            // trailer-part CRLF
            let mut t = b;
            loop {
                match find_crlf(t) {
                    None => return Ref::Lenient("final CRLF after the last-chunk missing"),
                    Some(0) => {
                        return if t.len() == 2 {
                            Ref::Valid { body, saw_ext, chunks }
                        } else {
                            Ref::Lenient("bytes after the end of the chunked body")
                        };
                    }
                    Some(n) => {
                        let l = &t[..n];
                        // field-name ":" value, printable
                        let ok = l.iter().position(|c| *c == b':').map_or(false, |p| {
                            p > 0
                                && l[..p].iter().all(|c| is_tchar(*c))
                                && l[p + 1..].iter().all(|c| (0x20..0x7f).contains(c) || *c == b'\t')
                        });
                        if !ok {
                            return Ref::Lenient("trailer outside the strict grammar");
                        }
                        t = &t[n + 2..];
                    }
                }
            }
        }
        if size > b.len() as u128 {
            return Ref::Malformed { why: Why::ShortChunk { declared: size }, chunks_before: chunks, saw_ext };
        }
        let n = size as usize;
        if b.len() < n + 2 {
            return Ref::Malformed { why: Why::TruncatedTerminator, chunks_before: chunks, saw_ext };
        }
        if &b[n..n + 2] != b"\r\n" {
            return Ref::Malformed { why: Why::BadTerminator, chunks_before: chunks, saw_ext };
        }
        body.extend_from_slice(&b[..n]);
        chunks += 1;
        b = &b[n + 2..];
    }
}

/// canonical re-encoding of a byte string the reference found Valid, with all
/// extensions and trailers dropped (to make the extension signature precise)
fn canonical_without_ext(input: &[u8]) -> Option<Vec<u8>> {
    let mut b = input;
    let mut out = vec![];
    loop {
        let le = find_crlf(b)?;
        let line = &b[..le];
        let digits = match line.iter().position(|c| *c == b';') {
            Some(p) => &line[..p],
            None => line,
        };
        let size = usize::from_str_radix(std::str::from_utf8(digits).ok()?, 16).ok()?;
        b = &b[le + 2..];
        out.extend(format!("{:x}\r\n", size).as_bytes());
        if size == 0 {
            out.extend_from_slice(b"\r\n");
            return Some(out);
        }
        out.extend_from_slice(b.get(..size + 2)?);
        b = &b[size + 2..];
    }
}

/// Signature of the overflow finding: walking the chunks the way a tolerant
/// decoder does (size = trimmed hex text before any ';', skip size+2 bytes),
/// the walk reaches a size line whose value s fits usize but s+2 does not.
fn walk_reaches_overflowing_size(input: &[u8]) -> bool {
    let mut b = input;
    loop {
        let Some(le) = find_crlf(b) else { return false };
        let line = &b[..le];
        let digits = match line.iter().position(|c| *c == b';') {
            Some(p) => &line[..p],
            None => line,
        };
        let Ok(t) = std::str::from_utf8(digits) else { return false };
        let t = t.trim();
        let t = t.strip_prefix('+').unwrap_or(t);
        if t.is_empty() || !t.bytes().all(|c| c.is_ascii_hexdigit()) {
            return false;
        }
        let sig = t.trim_start_matches('0');
        if sig.len() > 16 {
            return false; // does not fit usize: a parse error, not an overflow
        }
        let size = u128::from_str_radix(if sig.is_empty() { "0" } else { sig }, 16).unwrap_or(0);
        if size > usize::MAX as u128 {
            return false;
        }
        b = &b[le + 2..];
        if size == 0 {
            return false;
        }
        let Some(end) = (size as usize).checked_add(2) else { return true };
        if b.len() < end {
            return false;
        }
        b = &b[end..];
    }
}

fn call(input: &[u8]) -> Result<Option<Vec<u8>>, String> {
    let r = std::panic::catch_unwind(|| verif_dechunk(input));
    r.map_err(|e| {
        if let Some(s) = e.downcast_ref::<&str>() {
            s.to_string()
        } else if let Some(s) = e.downcast_ref::<String>() {
            s.clone()
        } else {
            "panic".into()
        }
    })
}

fn show(b: &[u8]) -> String {
    let cut = b.len().min(160);
    let mut s = String::new();
    for c in &b[..cut] {
        s.push_str(&std::ascii::escape_default(*c).to_string());
    }
    if cut < b.len() {
        s.push_str(&format!("…(+{} bytes)", b.len() - cut));
    }
    s
}

/// Compare the engine's answer on `input` with the reference's classification.
fn judge(input: &[u8], obs: &mut Obs) -> Verdict {
    let r = reference(input);
    let got = call(input);
    match (&r, &got) {
        (_, Err(p)) if walk_reaches_overflowing_size(input) => {
            obs.label("known:overflow");
            Verdict::Known {
                id: KF_OVERFLOW.into(),
                msg: format!("dechunk({}) panicked: {} (a declared chunk size of usize::MAX or usize::MAX-1; expected None)", show(input), p),
            }
        }
        (_, Err(p)) => Verdict::Fail(format!("dechunk({}) panicked: {}", show(input), p)),
        (Ref::Lenient(why), Ok(_)) => {
            obs.label(format!("lenient:{}", why));
            Verdict::Pass
        }
        (Ref::Valid { body, saw_ext, .. }, Ok(g)) => {
            if g.as_deref() == Some(&body[..]) {
                return Verdict::Pass;
            }
            if g.is_none() && *saw_ext {
                if let Some(c) = canonical_without_ext(input) {
                    if call(&c) == Ok(Some(body.clone())) {
                        obs.label("known:ext");
                        return Verdict::Known {
                            id: KF_EXT.into(),
                            msg: format!(
                                "dechunk({}) = None; a valid chunked body with chunk extensions must decode to its {}-byte body (the same chunks without extensions decode)",
                                show(input),
                                body.len()
                            ),
                        };
                    }
                }
            }
            Verdict::Fail(format!(
                "dechunk({}) = {:?}, expected Some({})",
                show(input),
                g.as_ref().map(|g| show(g)),
                show(body)
            ))
        }
        (Ref::Malformed { why, chunks_before, .. }, Ok(g)) => match g {
            None => Verdict::Pass,
            Some(g) if *why == Why::BadTerminator => {
                obs.label("known:terminator");
                Verdict::Known {
                    id: KF_TERMINATOR.into(),
                    msg: format!(
                        "dechunk({}) = Some({}); chunk #{} is not followed by CRLF — malformed framing must give None",
                        show(input),
                        show(g),
                        chunks_before
                    ),
                }
            }
            Some(g) => Verdict::Fail(format!(
                "dechunk({}) = Some({}), but the framing is malformed ({:?} after {} good chunks): expected None",
                show(input),
                show(g),
                why,
                chunks_before
            )),
        },
    }
}

// ---------------------------------------------------------------------------
// generators
// ---------------------------------------------------------------------------
/// bytes biased towards what matters for framing
fn framing_byte() -> impl Strategy<Value = u8> {
    prop_oneof![
        4 => Just(b'\r'),
        4 => Just(b'\n'),
        2 => Just(b'0'),
        1 => Just(b';'),
        2 => prop::sample::select(b"123456789abcdefABCDEF".to_vec()),
        1 => Just(b' '),
        4 => any::<u8>(),
    ]
}

fn data(tier: Tier) -> impl Strategy<Value = Data> {
    let big = tier.pick(4096usize, 65536usize);
    prop_oneof![
        10 => prop::collection::vec(framing_byte(), 1..6).prop_map(Data::Bytes),
        4 => prop::collection::vec(framing_byte(), 1..40).prop_map(Data::Bytes),
        2 => prop::collection::vec(any::<u8>(), 1..300).prop_map(Data::Bytes),
        // sizes around hex digit-count boundaries and large chunks
        1 => (prop::collection::vec(framing_byte(), 1..4), prop::sample::select(vec![15usize, 16, 17, 255, 256, 257, 4095, 4096]))
            .prop_map(|(pat, n)| Data::Repeat { n: (n / pat.len()).max(1), pat }),
        1 => (prop::collection::vec(framing_byte(), 1..8), 1usize..big).prop_map(|(pat, n)| Data::Repeat { n: (n / pat.len()).max(1), pat }),
    ]
}

fn token() -> impl Strategy<Value = String> {
    "[a-zA-Z0-9!#$%&'*+.^_`|~-]{1,6}"
}

fn one_ext() -> impl Strategy<Value = String> {
    prop_oneof![
        3 => (token(), token()).prop_map(|(n, v)| format!(";{}={}", n, v)),
        2 => token().prop_map(|n| format!(";{}", n)),
        1 => (token(), "[ -!#-\\[\\]-~]{0,8}").prop_map(|(n, v)| format!(";{}=\"{}\"", n, v)),
        1 => (token(), token(), token()).prop_map(|(a, b, c)| format!(";{}={};{}", a, b, c)),
    ]
}

/// `with_ext`: whether chunk extensions may appear at all in this encoding
fn encoding(tier: Tier, with_ext: bool) -> impl Strategy<Value = Encoding> {
    let ext = move || {
        if with_ext {
            prop_oneof![2 => Just(String::new()), 3 => one_ext()].boxed()
        } else {
            Just(String::new()).boxed()
        }
    };
    let chunk = (data(tier), ext(), any::<bool>(), prop_oneof![6 => Just(0u8), 1 => 1u8..4])
        .prop_map(|(data, ext, upper, lead_zeros)| Chunk { data, ext, upper, lead_zeros })
        .boxed();
    (
        prop_oneof![1 => prop::collection::vec(chunk.clone(), 0..2), 8 => prop::collection::vec(chunk, 2..9)],
        // glue[i]: make chunk i end with CR and chunk i+1 start with LF
        prop::collection::vec(prop::bool::weighted(0.35), 9),
        ext(),
        prop_oneof![5 => Just(1u8), 1 => 2u8..5],
        prop_oneof![
            3 => Just(vec![]),
            1 => prop::collection::vec((token(), "[ -~]{0,12}").prop_map(|(n, v)| format!("{}: {}", n, v)), 1..3)
        ],
    )
        .prop_map(|(mut chunks, glue, last_ext, last_zeros, trailers)| {
            for i in 0..chunks.len().saturating_sub(1) {
                if glue[i] {
                    let mut a = chunks[i].data.bytes();
                    a.push(b'\r');
                    chunks[i].data = Data::Bytes(a);
                    let mut b = chunks[i + 1].data.bytes();
                    b.insert(0, b'\n');
                    chunks[i + 1].data = Data::Bytes(b);
                }
            }
            Encoding { chunks, last_ext, last_zeros, trailers }
        })
}

fn split_crlf_boundary(e: &Encoding) -> bool {
    e.chunks.windows(2).any(|w| {
        let a = w[0].data.bytes();
        let b = w[1].data.bytes();
        a.last() == Some(&b'\r') && b.first() == Some(&b'\n')
    })
}
fn has_ext(e: &Encoding) -> bool {
    !e.last_ext.is_empty() || e.chunks.iter().any(|c| !c.ext.is_empty())
}

// ---------------------------------------------------------------------------
// check 1: round trip
// ---------------------------------------------------------------------------
pub struct RoundTrip;
impl Check for RoundTrip {
    type Case = Encoding;
    fn name(&self) -> &'static str {
        "roundtrip"
    }
    fn rule(&self) -> &'static str {
        ">=2 chunks and (a chunk extension, or a chunk boundary that falls inside a CRLF of the body)"
    }
    fn cases(&self, tier: Tier) -> u32 {
        tier.pick(6000, 600_000)
    }
    fn strategy(&self, tier: Tier) -> BoxedStrategy<Encoding> {
        // extensions are an open finding: keep most of the search behind it
        prop_oneof![5 => encoding(tier, false), 1 => encoding(tier, true)].boxed()
    }
    fn test(&self, e: &Encoding, obs: &mut Obs) -> Verdict {
        let r = render(e);
        let ext = has_ext(e);
        let split = split_crlf_boundary(e);
        if ext {
            obs.label("ext");
        }
        if split {
            obs.label("boundary-inside-crlf");
        }
        if !e.trailers.is_empty() {
            obs.label("trailers");
        }
        if e.chunks.iter().any(|c| c.data.bytes().len() == 1) {
            obs.label("1-byte-chunk");
        }
        if r.body.len() >= 1024 {
            obs.label("body>=1KiB");
        }
        obs.label(format!("chunks:{}", e.chunks.len().min(4)));
        obs.nontrivial(e.chunks.len() >= 2 && (ext || split));
        obs.sample(serde_json::json!({"encoded": show(&r.bytes), "body_len": r.body.len(), "chunks": e.chunks.len()}));
        // harness self-check: the reference reader agrees with construction
        match reference(&r.bytes) {
            Ref::Valid { body, .. } if body == r.body => {}
            other => panic!("harness bug: reference reader says {:?} for a constructed encoding {}", other, show(&r.bytes)),
        }
        match call(&r.bytes) {
            Err(p) => Verdict::Fail(format!("dechunk({}) panicked: {}", show(&r.bytes), p)),
            Ok(Some(g)) if g == r.body => Verdict::Pass,
            Ok(None) if ext && call(&render(&strip_ext(e)).bytes) == Ok(Some(r.body.clone())) => {
                obs.label("known:ext");
                Verdict::Known {
                    id: KF_EXT.into(),
                    msg: format!(
                        "dechunk({}) = None; expected the {}-byte body (the same chunking without chunk extensions decodes)",
                        show(&r.bytes),
                        r.body.len()
                    ),
                }
            }
            Ok(g) => Verdict::Fail(format!(
                "dechunk({}) = {:?}, expected Some({})",
                show(&r.bytes),
                g.as_ref().map(|g| show(g)),
                show(&r.body)
            )),
        }
    }
}

// ---------------------------------------------------------------------------
// check 2: planted framing faults
// ---------------------------------------------------------------------------
#[derive(Clone, Debug, Serialize, Deserialize)]
pub enum Fault {
    /// keep only the first `sel`-selected prefix (monotone index into 0..len)
    Truncate { sel: u32 },
    /// truncate somewhere inside the last-chunk line / trailers
    TruncateTail { sel: u32 },
    /// replace the CRLF after chunk `sel`'s data by these two bytes
    BadTerminator { sel: u32, with: [u8; 2] },
    /// drop the CRLF after chunk `sel`'s data altogether
    DropTerminator { sel: u32 },
    /// declared size of chunk `sel` is larger by `by`
    Inflate { sel: u32, by: u16 },
    /// declared size of chunk `sel` is smaller by `by` (>=1, < len)
    Deflate { sel: u32, by: u16 },
    /// remove the last-chunk line and everything after it
    DropLastChunk,
    /// the CRLF after chunk `sel`'s size line becomes a bare LF
    BareLfAfterSize { sel: u32 },
    /// chunk `sel`'s size line is replaced by this text (non-hex)
    NonHexSize { sel: u32, text: String },
    /// chunk `sel`'s size line declares this huge size (hex text)
    HugeSize { sel: u32, hex: String },
}
#[derive(Clone, Debug, Serialize, Deserialize)]
pub struct FaultCase {
    pub enc: Encoding,
    pub fault: Fault,
}

fn huge_hex() -> impl Strategy<Value = String> {
    prop_oneof![
        3 => Just(format!("{:x}", usize::MAX)),
        3 => Just(format!("{:X}", usize::MAX - 1)),
        1 => Just(format!("{:x}", usize::MAX - 2)),
        1 => Just(format!("{:x}", usize::MAX / 2)),
        1 => Just(format!("{:x}", (usize::MAX / 2) + 1)),
        1 => Just(format!("{:x}", u32::MAX)),
        1 => Just(format!("1{:016x}", 0)),
        1 => Just(format!("{:x}", u128::MAX)),
        1 => (16usize..80).prop_map(|n| "f".repeat(n)),
        1 => (1usize..60).prop_map(|n| format!("{}{:x}", "0".repeat(n), usize::MAX)),
        1 => any::<u64>().prop_map(|v| format!("{:x}", v | (1u64 << 63))),
    ]
}

/// monotone index mapping (shrinks well): u32 selector -> 0..len
fn pick32(sel: u32, len: usize) -> usize {
    ((sel as u64 * len as u64) >> 32) as usize
}

fn why_name(w: &Why) -> &'static str {
    match w {
        Why::NoCrlfAfterSize => "no-crlf-after-size",
        Why::NonHexSize => "non-hex-size",
        Why::ShortChunk { .. } => "short-chunk",
        Why::TruncatedTerminator => "truncated-terminator",
        Why::BadTerminator => "bad-terminator",
    }
}

fn apply_fault(c: &FaultCase) -> Option<(Vec<u8>, &'static str)> {
    let r = render(&c.enc);
    let n = c.enc.chunks.len();
    let pick = |sel: u32| -> Option<usize> {
        if n == 0 {
            None
        } else {
            Some(pick32(sel, n))
        }
    };
    let dlen = |i: usize| c.enc.chunks[i].data.bytes().len();
    let mut b = r.bytes.clone();
    Some(match &c.fault {
        Fault::Truncate { sel } => {
            let t = pick32(*sel, r.last_line_start.max(1));
            b.truncate(t);
            (b, "truncate")
        }
        Fault::TruncateTail { sel } => {
            let span = r.bytes.len() - r.last_line_start;
            let t = r.last_line_start + pick32(*sel, span);
            b.truncate(t);
            (b, "truncate-tail")
        }
        Fault::BadTerminator { sel, with } => {
            let i = pick(*sel)?;
            if with == b"\r\n" {
                return None;
            }
            let p = r.data_start[i] + dlen(i);
            b[p] = with[0];
            b[p + 1] = with[1];
            (b, "bad-terminator")
        }
        Fault::DropTerminator { sel } => {
            let i = pick(*sel)?;
            let p = r.data_start[i] + dlen(i);
            b.drain(p..p + 2);
            (b, "drop-terminator")
        }
        Fault::Inflate { sel, by } => {
            let i = pick(*sel)?;
            let line = size_line(dlen(i) + (*by as usize).max(1), c.enc.chunks[i].upper, 0, &c.enc.chunks[i].ext);
            b.splice(r.line_start[i]..r.data_start[i], line);
            (b, "inflate")
        }
        Fault::Deflate { sel, by } => {
            let i = pick(*sel)?;
            let d = dlen(i);
            if d < 2 {
                return None;
            }
            let by = 1 + (*by as usize) % (d - 1);
            let line = size_line(d - by, c.enc.chunks[i].upper, 0, &c.enc.chunks[i].ext);
            b.splice(r.line_start[i]..r.data_start[i], line);
            (b, "deflate")
        }
        Fault::DropLastChunk => {
            b.truncate(r.last_line_start);
            (b, "drop-last-chunk")
        }
        Fault::BareLfAfterSize { sel } => {
            let i = pick(*sel)?;
            b.remove(r.data_start[i] - 2);
            (b, "bare-lf-after-size")
        }
        Fault::NonHexSize { sel, text } => {
            let i = pick(*sel)?;
            let mut line = text.clone().into_bytes();
            line.extend_from_slice(b"\r\n");
            b.splice(r.line_start[i]..r.data_start[i], line);
            (b, "non-hex-size")
        }
        Fault::HugeSize { sel, hex } => {
            let i = pick(*sel)?;
            let mut line = hex.clone().into_bytes();
            line.extend_from_slice(b"\r\n");
            b.splice(r.line_start[i]..r.data_start[i], line);
            (b, "huge-size")
        }
    })
}

pub struct Malformed;
impl Check for Malformed {
    type Case = FaultCase;
    fn name(&self) -> &'static str {
        "malformed"
    }
    fn rule(&self) -> &'static str {
        "the planted fault makes the framing malformed (per the independent strict reader) after at least one well-formed chunk"
    }
    fn cases(&self, tier: Tier) -> u32 {
        tier.pick(8000, 800_000)
    }
    fn strategy(&self, tier: Tier) -> BoxedStrategy<FaultCase> {
        let fault = prop_oneof![
            6 => any::<u32>().prop_map(|sel| Fault::Truncate { sel }),
            2 => any::<u32>().prop_map(|sel| Fault::TruncateTail { sel }),
            // open finding: keep a trickle
            1 => (any::<u32>(), prop_oneof![Just(*b"XY"), Just(*b"\n\r"), Just(*b"\r\r"), Just(*b"\n\n"), Just(*b"0\r"), any::<[u8; 2]>()])
                .prop_map(|(sel, with)| Fault::BadTerminator { sel, with }),
            3 => any::<u32>().prop_map(|sel| Fault::DropTerminator { sel }),
            4 => (any::<u32>(), prop_oneof![1u16..4, 1u16..40, any::<u16>()]).prop_map(|(sel, by)| Fault::Inflate { sel, by }),
            3 => (any::<u32>(), any::<u16>()).prop_map(|(sel, by)| Fault::Deflate { sel, by }),
            2 => Just(Fault::DropLastChunk),
            2 => any::<u32>().prop_map(|sel| Fault::BareLfAfterSize { sel }),
            3 => (any::<u32>(), prop_oneof![
                    Just("".to_string()), Just("g".to_string()), Just("0x5".to_string()), Just("-1".to_string()),
                    Just("5.0".to_string()), Just("five".to_string()), Just("\u{663}".to_string()), Just("5 5".to_string()),
                    Just(";a=b".to_string()), "[g-zG-Z_.,:/-]{1,4}"
                ]).prop_map(|(sel, text)| Fault::NonHexSize { sel, text }),
            // the two overflowing sizes are an open finding; the rest is not
            2 => (any::<u32>(), huge_hex()).prop_map(|(sel, hex)| Fault::HugeSize { sel, hex }),
        ];
        (encoding(tier, false), fault).prop_map(|(enc, fault)| FaultCase { enc, fault }).boxed()
    }
    fn test(&self, c: &FaultCase, obs: &mut Obs) -> Verdict {
        let Some((bytes, kind)) = apply_fault(c) else {
            return Verdict::Discard("fault not applicable".into());
        };
        obs.label(kind);
        let r = reference(&bytes);
        match &r {
            Ref::Malformed { why, chunks_before, .. } => {
                obs.label(format!("ref:malformed:{}", why_name(why)));
                obs.nontrivial(*chunks_before >= 1);
            }
            Ref::Valid { .. } => obs.label("ref:valid"),
            Ref::Lenient(_) => obs.label("ref:lenient"),
        }
        // soundness of the planted fault: a strict prefix that ends before the
        // last-chunk line is never a complete chunked body
        if let Fault::Truncate { .. } | Fault::DropLastChunk = c.fault {
            if !matches!(r, Ref::Malformed { .. }) {
                panic!("harness bug: reference says {:?} for a truncated encoding {}", r, show(&bytes));
            }
        }
        obs.sample(serde_json::json!({"input": show(&bytes), "fault": kind}));
        judge(&bytes, obs)
    }
}

// ---------------------------------------------------------------------------
// check 3: arbitrary bytes
// ---------------------------------------------------------------------------
#[derive(Clone, Debug, Serialize, Deserialize)]
pub enum Tok {
    Raw(Vec<u8>),
    Crlf,
    Hex(String),
    /// a size line that matches the `Raw` that follows: "<len>\r\n<bytes>\r\n"
    Chunk(Vec<u8>),
    Zero,
    Ext(String),
}
#[derive(Clone, Debug, Serialize, Deserialize)]
pub struct SoupCase {
    pub toks: Vec<Tok>,
}
fn soup_bytes(c: &SoupCase) -> Vec<u8> {
    let mut b = vec![];
    for t in &c.toks {
        match t {
            Tok::Raw(r) => b.extend_from_slice(r),
            Tok::Crlf => b.extend_from_slice(b"\r\n"),
            Tok::Hex(h) => b.extend_from_slice(h.as_bytes()),
            Tok::Chunk(d) => {
                b.extend(format!("{:x}\r\n", d.len()).as_bytes());
                b.extend_from_slice(d);
                b.extend_from_slice(b"\r\n");
            }
            Tok::Zero => b.extend_from_slice(b"0\r\n"),
            Tok::Ext(e) => b.extend_from_slice(e.as_bytes()),
        }
    }
    b
}

pub struct Arbitrary;
impl Check for Arbitrary {
    type Case = SoupCase;
    fn name(&self) -> &'static str {
        "arbitrary"
    }
    fn rule(&self) -> &'static str {
        "the strict reader gets past the first size line (hex size + CRLF, then data or a later fault) and the input is not simply a valid extension-free encoding (those are the roundtrip check's)"
    }
    fn cases(&self, tier: Tier) -> u32 {
        tier.pick(20_000, 2_000_000)
    }
    fn strategy(&self, _tier: Tier) -> BoxedStrategy<SoupCase> {
        let tok = prop_oneof![
            3 => prop::collection::vec(framing_byte(), 0..6).prop_map(Tok::Raw),
            1 => prop::collection::vec(any::<u8>(), 0..20).prop_map(Tok::Raw),
            4 => Just(Tok::Crlf),
            3 => prop_oneof![
                4 => (0usize..20).prop_map(|n| format!("{:x}", n)),
                1 => any::<u64>().prop_map(|n| format!("{:X}", n)),
                // sizes at and beyond usize::MAX: mostly the non-overflowing ones (open finding on MAX, MAX-1)
                1 => prop_oneof![
                    1 => Just(format!("{:x}", usize::MAX)),
                    1 => Just(format!("{:x}", usize::MAX - 1)),
                    3 => Just(format!("{:x}", usize::MAX - 2)),
                    3 => Just(format!("1{:016x}", 0u64)),
                    3 => (17usize..70).prop_map(|n| "F".repeat(n)),
                    3 => Just(format!("{:x}", isize::MAX as usize)),
                    3 => Just(format!("{:x}", isize::MAX as usize + 1)),
                ],
            ].prop_map(Tok::Hex),
            5 => prop::collection::vec(framing_byte(), 1..8).prop_map(Tok::Chunk),
            3 => Just(Tok::Zero),
            1 => one_ext().prop_map(Tok::Ext),
        ];
        prop::collection::vec(tok, 0..10).prop_map(|toks| SoupCase { toks }).boxed()
    }
    fn test(&self, c: &SoupCase, obs: &mut Obs) -> Verdict {
        let b = soup_bytes(c);
        let r = reference(&b);
        let past_first = match &r {
            Ref::Valid { saw_ext, chunks, .. } => {
                obs.label("ref:valid");
                *saw_ext || *chunks == 0
            }
            Ref::Malformed { why, chunks_before, .. } => {
                obs.label(format!("ref:malformed:{}", why_name(why)));
                *chunks_before >= 1 || !matches!(why, Why::NoCrlfAfterSize | Why::NonHexSize)
            }
            Ref::Lenient(_) => {
                obs.label("ref:lenient");
                false
            }
        };
        obs.nontrivial(past_first);
        obs.sample(serde_json::json!({"input": show(&b)}));
        judge(&b, obs)
    }
}

// ---------------------------------------------------------------------------
// check 4: end to end through list_filesets over a socket
// ---------------------------------------------------------------------------
#[derive(Clone, Debug, Serialize, Deserialize)]
pub struct E2eCase {
    pub names: Vec<String>,
    /// chunk sizes used to cut the JSON body (cycled); all >= 1
    pub cuts: Vec<usize>,
    pub ext: String,
    pub upper: bool,
    pub header_case: u8,
}

pub struct EndToEnd;
impl Check for EndToEnd {
    type Case = E2eCase;
    fn name(&self) -> &'static str {
        "end_to_end"
    }
    fn rule(&self) -> &'static str {
        "the JSON answer is cut into >=2 chunks"
    }
    fn cases(&self, tier: Tier) -> u32 {
        tier.pick(300, 20_000)
    }
    fn workers(&self, _tier: Tier) -> usize {
        4
    }
    fn strategy(&self, _tier: Tier) -> BoxedStrategy<E2eCase> {
        (
            prop::collection::vec("[a-z_][a-z0-9_]{0,10}", 0..8),
            prop::collection::vec(prop_oneof![1usize..4, 1usize..40, 1usize..400], 1..6),
            prop_oneof![6 => Just(String::new()), 1 => one_ext()],
            any::<bool>(),
            0u8..3,
        )
            .prop_map(|(names, cuts, ext, upper, header_case)| E2eCase { names, cuts, ext, upper, header_case })
            .boxed()
    }
    fn test(&self, c: &E2eCase, obs: &mut Obs) -> Verdict {
        use std::io::{Read, Write};
        let ids: Vec<serde_json::Value> = c
            .names
            .iter()
            .map(|n| serde_json::json!({"namespace": ["m", "c", "s"], "name": n}))
            .collect();
        let body = serde_json::json!({"code": 0, "identifiers": ids}).to_string().into_bytes();
        let mut enc = vec![];
        let mut off = 0;
        let mut k = 0;
        let mut nchunks = 0;
        while off < body.len() {
            let n = c.cuts[k % c.cuts.len()].max(1).min(body.len() - off);
            k += 1;
            nchunks += 1;
            enc.extend(size_line(n, c.upper, 0, &c.ext));
            enc.extend_from_slice(&body[off..off + n]);
            enc.extend_from_slice(b"\r\n");
            off += n;
        }
        enc.extend_from_slice(b"0\r\n\r\n");
        let te = match c.header_case {
            0 => "Transfer-Encoding: chunked",
            1 => "transfer-encoding: chunked",
            _ => "TRANSFER-ENCODING: chunked",
        };
        let mut resp = format!("HTTP/1.1 200 OK\r\nContent-Type: application/json\r\n{}\r\nConnection: close\r\n\r\n", te).into_bytes();
        resp.extend_from_slice(&enc);

        let listener = match std::net::TcpListener::bind("127.0.0.1:0") {
            Ok(l) => l,
            Err(e) => return Verdict::Discard(format!("bind: {}", e)),
        };
        let addr = listener.local_addr().unwrap();
        let server = std::thread::spawn(move || {
            if let Ok((mut s, _)) = listener.accept() {
                let _ = s.set_read_timeout(Some(std::time::Duration::from_secs(10)));
                // read the request head
                let mut got = vec![];
                let mut buf = [0u8; 1024];
                while !got.windows(4).any(|w| w == b"\r\n\r\n") {
                    match s.read(&mut buf) {
                        Ok(0) | Err(_) => break,
                        Ok(n) => got.extend_from_slice(&buf[..n]),
                    }
                }
                let _ = s.write_all(&resp);
                let _ = s.flush();
            }
        });
        let src = GravitinoSource {
            base_url: format!("http://{}", addr),
            metalake: "m".into(),
            catalog: "c".into(),
            schema: "s".into(),
        };
        let got = std::panic::catch_unwind(|| src.list_filesets());
        let _ = server.join();
        let mut want = c.names.clone();
        want.sort();
        obs.nontrivial(nchunks >= 2);
        if !c.ext.is_empty() {
            obs.label("ext");
        }
        match got {
            Err(_) => Verdict::Fail("list_filesets panicked".into()),
            Ok(Ok(g)) if g == want => Verdict::Pass,
            Ok(Ok(g)) => Verdict::Fail(format!("list_filesets = {:?}, the server sent {:?}", g, want)),
            Ok(Err(e)) => {
                let msg = format!("list_filesets failed on a valid chunked answer ({} chunks, ext {:?}): {}", nchunks, c.ext, e);
                if !c.ext.is_empty() && e.to_string().contains("malformed chunked response") {
                    obs.label("known:ext");
                    Verdict::Known { id: KF_EXT.into(), msg }
                } else {
                    Verdict::Fail(msg)
                }
            }
        }
    }
}

pub fn property() -> Property {
    Property {
        id: "C41",
        level: "exploration",
        assumptions: &[
            "valid = RFC 7230 §4.1 chunked-body grammar (hex size, optional ;ext, CRLF, data, CRLF … last-chunk, trailers, CRLF)",
            "malformed = no CRLF after a size, non-hex size, declared size larger than the bytes that follow, chunk data not followed by CRLF, no last-chunk; whitespace/'+' around a size, a missing final CRLF after the last-chunk, bytes after the end, and extension/trailer text outside the strict grammar are NOT judged (only 'does not panic')",
            "the decoder receives the complete byte string read to EOF (Connection: close), as http_get does",
        ],
        checks: vec![Box::new(RoundTrip), Box::new(Malformed), Box::new(Arbitrary), Box::new(EndToEnd)],
    }
}
