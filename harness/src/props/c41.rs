//! C41 — not implemented yet.
use super::Property;

pub fn property() -> Property {
    Property { id: "C41", level: "exploration", assumptions: &[], checks: vec![] }
}
