//! C07 — not implemented yet.
use super::Property;

pub fn property() -> Property {
    Property { id: "C07", level: "exploration", assumptions: &[], checks: vec![] }
}
