//! C07 — Answers do not depend on parallelism, batching or scheduling; every
//! declared output partition of an operator can be executed.
//!
//! Three checks over generated statements (scans, joins of every kind, grouped /
//! global / DISTINCT aggregates, UNION ALL, ORDER BY, top-k, LIMIT/OFFSET and
//! bare LIMIT) on 1–2 generated tables of 0–2 600 rows (doubles are multiples of
//! 0.25, so sums are exact under any association order):
//!   * `batching` (in-process): the table as ONE batch versus random batch
//!     layouts — including layouts with >= 1000 rows in >= 2 batches, the gate at
//!     which `MemoryTableExec` declares several partitions — with
//!     `with_parallel_partitions(n)`, every configuration executed several times
//!     to vary the interleaving. Every run must return the answer of the
//!     one-batch run.
//!   * `partition_walk` (in-process): for the physical plan of the statement,
//!     recursively over `children()`, EVERY partition `0..output_partitions()` of
//!     EVERY operator is executed: none may fail with the `check_partition`
//!     error, and partition `output_partitions()` must be rejected.
//!   * `threads` (sub-processes, because rayon's global pool size is fixed per
//!     process): `check --worker c07 <casefile>` is spawned with
//!     `RAYON_NUM_THREADS ∈ {1,2,3,8}`; each worker runs a batch of statements on
//!     both layouts, several times each, and prints the normalised rows. Every
//!     run must return the answer of the 1-thread / one-batch run.
//! `refsql` is evaluated only to annotate a failure message.
use super::Property;
use crate::data::*;
use crate::engine::*;
use crate::runner::*;
use proptest::prelude::*;
use query_engine::physical::PhysicalOperator;
use query_engine::ExecutionContext;
use serde::{Deserialize, Serialize};
use std::sync::Arc;

#[path = "cfgdiff_util.rs"]
mod util;
use util::*;

fn tables_profile(tier: Tier) -> TablesProfile {
    TablesProfile {
        max_tables: 2,
        min_rows: 0,
        max_rows: tier.pick(60, 400),
        max_cols: 4,
        types: vec![ColType::Int, ColType::Int, ColType::Int32, ColType::Double, ColType::Str, ColType::Date, ColType::Bool],
        domains: vec![1, 2, 3, 7, 20, 100, 1000],
        // (85: mostly-NULL columns — per-batch partial states that have seen only NULLs)
        null_pcts: vec![0, 10, 40, 85],
        sparse: false,
        // the multi-partition gate of MemoryTableExec is 1000 rows: 1 table in 10
        // draws from this range (see `big_rows`), the rest stays small
        big_rows: Some((1000, tier.pick(2600, 12_000))),
    }
}

fn opts() -> GenOpts {
    GenOpts {
        order_pct: 40,
        limit_pct: 40,
        max_join_rows: 8_000,
        self_join_pct: 30,
        w_scan: 20,
        w_join: 20,
        w_agg: 35,
        w_distinct: 10,
        w_union: 15,
        union_all: true,
        unordered_limit_pct: 20,
        // open C01 finding (NULL group dropped by the fused / raw paths): the path
        // taken depends on batching, so keep it a minority
        null_group_keys_pct: 25,
        mixed_agg_list_pct: 45,
        ..GenOpts::default()
    }
}

fn tables_strategy7(tier: Tier) -> BoxedStrategy<Vec<TableSpec>> {
    // 1 in 10 is far too rare for the gate: re-weight by mapping
    let tp = tables_profile(tier);
    let big = tp.big_rows.unwrap();
    (tables_spec_strategy(tp), proptest::collection::vec((proptest::bool::weighted(0.45), big.0..=big.1), 2))
        .prop_map(|(mut ts, bigs)| {
            for (t, (b, n)) in ts.iter_mut().zip(bigs) {
                if b {
                    t.n_rows = n;
                }
            }
            ts
        })
        .boxed()
}

fn has(s: &Stmt, f: &str) -> bool {
    s.features.iter().any(|x| x == f)
}

fn ctx_for(tables: &[Table], cut_sels: &[Vec<u16>], partitions: usize) -> ExecutionContext {
    let mut ctx = ExecutionContext::new().with_parallel_partitions(partitions.max(1));
    for (i, t) in tables.iter().enumerate() {
        let cuts = cuts_from(cut_sels.get(i).map(|v| v.as_slice()).unwrap_or(&[]), t.rows.len());
        register_mem(&mut ctx, t, &cuts);
    }
    ctx
}

/// max output_partitions() over the operators of a plan
fn max_partitions(op: &Arc<dyn PhysicalOperator>) -> usize {
    let mut m = op.output_partitions();
    for c in op.children() {
        m = m.max(max_partitions(&c));
    }
    m
}

/// The statement without its bare LIMIT (the answer a `limit_unordered`
/// statement must be drawn from).
fn without_limit(s: &Stmt) -> crate::sqlast::Query {
    let mut q = s.query.clone();
    q.limit = None;
    q
}

/// Compare one run against the baseline under the statement's rule.
fn agree(stmt: &Stmt, base: &Rows, full: Option<&Rows>, got: &Rows, tol: f64) -> Result<(), String> {
    if has(stmt, "limit_unordered") {
        match full {
            Some(f) => limit_unordered_ok(f, got, stmt.query.limit.unwrap_or(0)),
            None => Ok(()),
        }
    } else {
        same_answer(base, got, &stmt.order_keys, tol)
    }
}

/// Known-finding signatures (see known_findings.json, property C07).
fn classify(stmt: &Stmt, tables: &[Table], base: &Rows, got: &Rows) -> Option<&'static str> {
    use crate::sqlast::*;
    let _ = tables;
    // C01 finding agg-empty-input: a global aggregate over no (non-NULL) input is a sentinel on
    // the single-batch scalar path and NULL on the multi-batch paths
    if has(stmt, "global_agg") && base.len() == 1 && got.len() == 1 {
        let sentinel = |v: &Value| match v {
            Value::Int(i) => *i == i64::MAX || *i == i64::MIN || *i == i32::MAX as i64 || *i == i32::MIN as i64,
            Value::Double(d) => d.is_infinite() || *d == f64::MAX || *d == f64::MIN,
            Value::Date(d) => *d == i32::MAX || *d == i32::MIN,
            _ => false,
        };
        let cells: Vec<(&Value, &Value)> = base[0].iter().zip(got[0].iter()).filter(|(x, y)| !value_eq(x, y, 1e-9)).collect();
        if !cells.is_empty() && cells.iter().all(|(x, y)| (x.is_null() && sentinel(y)) || (y.is_null() && sentinel(x))) {
            return Some("agg-empty-input");
        }
    }
    // C01 finding agg-null-group-key: the aggregation path (fused / raw integer key / vectorized)
    // depends on the batch layout; some paths drop the NULL group or fold it into one other group
    if let SetExpr::Select(s) = &stmt.query.body {
        if let Group::By(keys) = &s.group {
            let nk = keys.len();
            let (only_a, only_b) = sym_diff(base, got);
            let null_key = |r: &Vec<Value>| r.iter().take(nk).any(|v| v.is_null());
            let mut other_keys: Vec<Vec<Value>> = only_a.iter().chain(only_b.iter()).filter(|r| !null_key(r)).map(|r| r.iter().take(nk).cloned().collect()).collect();
            other_keys.sort_by(|x, y| row_cmp(x, y));
            other_keys.dedup();
            let some_null = base.iter().chain(got.iter()).any(null_key);
            if stmt.query.limit.is_none() && some_null && !(only_a.is_empty() && only_b.is_empty()) && other_keys.len() <= 1 {
                return Some("agg-null-group-key");
            }
        }
    }
    None
}

// ---------------------------------------------------------------------------
// (a) batching
// ---------------------------------------------------------------------------

#[derive(Clone, Debug, Serialize, Deserialize)]
pub struct BatchCase {
    pub tables: Vec<TableSpec>,
    /// batch layouts: per layout, per table, cut selectors
    pub layouts: Vec<Vec<Vec<u16>>>,
    pub stmt: Stmt,
    pub partitions: usize,
    pub repeats: usize,
}

fn cut_sels_strategy() -> impl Strategy<Value = Vec<Vec<u16>>> {
    proptest::collection::vec(
        // 0..7 cuts, and layouts of 13 / 41 batches: operators switch to a parallel merge of
        // per-chunk partial states above a handful of input batches (hash aggregate: > 4)
        (prop_oneof![Just(0usize), Just(1), Just(1), Just(2), Just(3), Just(7), Just(7), Just(12), Just(40)], proptest::collection::vec(any::<u16>(), 40)).prop_map(|(n, v)| v.into_iter().take(n).collect::<Vec<u16>>()),
        2,
    )
}

fn batch_strategy(tier: Tier) -> BoxedStrategy<BatchCase> {
    (
        tables_strategy7(tier),
        proptest::collection::vec(any::<u16>(), 0..80),
        proptest::collection::vec(cut_sels_strategy(), 2),
        prop_oneof![Just(1usize), Just(2), Just(3), Just(8), Just(16)],
    )
        .prop_map(move |(tables, tape, layouts, partitions)| {
            let stmt = gen_stmt(tape, &tables, &opts());
            BatchCase { tables, layouts, stmt, partitions, repeats: tier.pick(3, 5) }
        })
        .boxed()
}

pub struct Batching;
impl Check for Batching {
    type Case = BatchCase;
    fn name(&self) -> &'static str {
        "batching"
    }
    fn rule(&self) -> &'static str {
        "the one-batch run answered, some layout had >= 2 batches, and some operator of the plan of a compared layout declared > 1 output partition"
    }
    fn cases(&self, tier: Tier) -> u32 {
        tier.pick(900, 20_000)
    }
    fn max_shrink_iters(&self) -> u32 {
        400
    }
    fn strategy(&self, tier: Tier) -> BoxedStrategy<BatchCase> {
        batch_strategy(tier)
    }
    fn test(&self, c: &BatchCase, obs: &mut Obs) -> Verdict {
        let tables: Vec<Table> = c.tables.iter().map(|t| t.expand()).collect();
        let sql = c.stmt.query.sql();
        for f in &c.stmt.features {
            obs.label(format!("feat:{}", f));
        }
        obs.sample(serde_json::json!({"sql": sql, "rows": c.tables.iter().map(|t| t.n_rows).collect::<Vec<_>>(), "partitions": c.partitions}));
        let tol = if c.stmt.uses_avg { 1e-9 } else { 0.0 };
        let base_ctx = ctx_for(&tables, &[], 1);
        let base = match run_sql(&base_ctx, &sql) {
            Ok(r) => r,
            Err(e) => {
                obs.label(format!("baseline_error:{}", short_err(&e)));
                return Verdict::Pass;
            }
        };
        if base.len() > 200_000 {
            return Verdict::Discard("answer_too_large".into());
        }
        let full = if has(&c.stmt, "limit_unordered") { run_sql(&base_ctx, &without_limit(&c.stmt).sql()).ok() } else { None };
        let mut known: Option<(String, String)> = None;
        let mut multi_partition = false;
        let mut multi_batch = false;
        // layout 0 = one batch again (pure schedule repetition)
        let mut layouts: Vec<Vec<Vec<u16>>> = vec![vec![]];
        layouts.extend(c.layouts.iter().cloned());
        for (li, sels) in layouts.iter().enumerate() {
            let ctx = ctx_for(&tables, sels, c.partitions);
            let cuts: Vec<Vec<usize>> = tables.iter().enumerate().map(|(i, t)| cuts_from(sels.get(i).map(|v| v.as_slice()).unwrap_or(&[]), t.rows.len())).collect();
            if cuts.iter().any(|c| !c.is_empty()) {
                multi_batch = true;
            }
            if let Ok(p) = ctx.physical_plan(&sql) {
                if max_partitions(&p) > 1 {
                    multi_partition = true;
                    obs.label("plan_multi_partition");
                }
            }
            for rep in 0..c.repeats.max(1) {
                match run_sql(&ctx, &sql) {
                    Err(e) => {
                        obs.label(format!("layout_error:{}", short_err(&e)));
                        if e.contains("out of range (output_partitions=") {
                            return Verdict::Fail(format!("a declared partition could not be executed: {}\n sql: {}\n batch cuts: {:?}\n tables:\n{}", e, sql, cuts, fmt_specs(&c.tables)));
                        }
                    }
                    Ok(rows) => {
                        if let Err(why) = agree(&c.stmt, &base, full.as_ref(), &rows, tol) {
                            let msg = format!(
                                "batch layout {} (cuts {:?}, parallel_partitions={}), repetition {}: {}\n sql: {}\n one-batch answer ({} rows) vs this run ({} rows):\n{}\n {}\n tables:\n{}",
                                li,
                                cuts,
                                c.partitions,
                                rep,
                                why,
                                sql,
                                base.len(),
                                rows.len(),
                                diff_summary(&base, &rows, 8),
                                third_opinion(&tables, &c.stmt.query, &[("one-batch", &base), ("this-run", &rows)], tol),
                                fmt_specs(&c.tables)
                            );
                            match classify(&c.stmt, &tables, &base, &rows) {
                                Some(id) => {
                                    obs.label(format!("known:{}", id));
                                    known.get_or_insert((id.to_string(), msg));
                                }
                                None => return Verdict::Fail(msg),
                            }
                        }
                    }
                }
            }
        }
        obs.nontrivial(multi_batch && multi_partition);
        match known {
            Some((id, msg)) => Verdict::Known { id, msg },
            None => Verdict::Pass,
        }
    }
}

// ---------------------------------------------------------------------------
// (c) partition walk
// ---------------------------------------------------------------------------

pub struct PartitionWalk;

struct WalkStats {
    operators: usize,
    executed: usize,
    multi: usize,
    other_errors: Vec<String>,
}

fn exec_partition(op: &Arc<dyn PhysicalOperator>, p: usize) -> Result<usize, String> {
    use futures::TryStreamExt;
    let op = op.clone();
    let r = std::panic::catch_unwind(std::panic::AssertUnwindSafe(|| {
        block_on(async move {
            let fut = async {
                let s = op.execute(p).await.map_err(|e| e.to_string())?;
                let batches: Vec<arrow::record_batch::RecordBatch> = s.try_collect().await.map_err(|e| e.to_string())?;
                Ok::<usize, String>(batches.iter().map(|b| b.num_rows()).sum())
            };
            match tokio::time::timeout(std::time::Duration::from_secs(30), fut).await {
                Ok(r) => r,
                Err(_) => Err("TIMEOUT executing a single partition".to_string()),
            }
        })
    }));
    match r {
        Ok(x) => x,
        Err(p) => Err(format!("PANIC: {}", panic_text(p))),
    }
}

fn walk(op: &Arc<dyn PhysicalOperator>, path: &str, st: &mut WalkStats) -> Result<(), String> {
    let n = op.output_partitions();
    let here = format!("{}/{}", path, op.name());
    st.operators += 1;
    if n > 1 {
        st.multi += 1;
    }
    for p in 0..n {
        match exec_partition(op, p) {
            Ok(_) => st.executed += 1,
            Err(e) if e.contains("out of range (output_partitions=") => {
                return Err(format!("operator {} declares {} output partitions but executing partition {} fails: {}", here, n, p, e));
            }
            Err(e) => st.other_errors.push(short_err(&e)),
        }
    }
    // the first undeclared partition must be rejected
    match exec_partition(op, n) {
        Err(e) if e.contains("out of range") => {}
        Err(e) => st.other_errors.push(format!("undeclared:{}", short_err(&e))),
        Ok(rows) => {
            return Err(format!(
                "operator {} declares {} output partitions but accepted execute({}) and returned {} rows instead of rejecting it (check_partition contract)",
                here, n, n, rows
            ));
        }
    }
    for c in op.children() {
        walk(&c, &here, st)?;
    }
    Ok(())
}

impl Check for PartitionWalk {
    type Case = BatchCase;
    fn name(&self) -> &'static str {
        "partition_walk"
    }
    fn rule(&self) -> &'static str {
        "a physical plan was built and at least one of its operators declared > 1 output partition; every declared partition of every operator was executed and partition output_partitions() was attempted"
    }
    fn cases(&self, tier: Tier) -> u32 {
        tier.pick(300, 15_000)
    }
    fn max_shrink_iters(&self) -> u32 {
        400
    }
    fn strategy(&self, tier: Tier) -> BoxedStrategy<BatchCase> {
        batch_strategy(tier)
    }
    fn test(&self, c: &BatchCase, obs: &mut Obs) -> Verdict {
        let tables: Vec<Table> = c.tables.iter().map(|t| t.expand()).collect();
        let sql = c.stmt.query.sql();
        for f in &c.stmt.features {
            obs.label(format!("feat:{}", f));
        }
        obs.sample(serde_json::json!({"sql": sql, "rows": c.tables.iter().map(|t| t.n_rows).collect::<Vec<_>>()}));
        let mut any_multi = false;
        for sels in c.layouts.iter() {
            let ctx = ctx_for(&tables, sels, c.partitions);
            let plan = match ctx.physical_plan(&sql) {
                Ok(p) => p,
                Err(e) => {
                    obs.label(format!("plan_error:{}", short_err(&e.to_string())));
                    continue;
                }
            };
            let mut st = WalkStats { operators: 0, executed: 0, multi: 0, other_errors: vec![] };
            if let Err(why) = walk(&plan, "", &mut st) {
                let cuts: Vec<Vec<usize>> = tables.iter().enumerate().map(|(i, t)| cuts_from(sels.get(i).map(|v| v.as_slice()).unwrap_or(&[]), t.rows.len())).collect();
                return Verdict::Fail(format!(
                    "{}\n sql: {}\n plan:\n{}\n batch cuts: {:?}\n tables:\n{}",
                    why,
                    sql,
                    query_engine::physical::display_plan(plan.as_ref(), 1),
                    cuts,
                    fmt_specs(&c.tables)
                ));
            }
            for e in &st.other_errors {
                obs.label(format!("walk_error:{}", e));
            }
            if st.multi > 0 {
                any_multi = true;
                obs.label("walked_multi_partition_operator");
            }
        }
        obs.nontrivial(any_multi);
        Verdict::Pass
    }
}

// ---------------------------------------------------------------------------
// (b) thread counts, in sub-processes
// ---------------------------------------------------------------------------

#[derive(Clone, Debug, Serialize, Deserialize)]
pub struct ThreadCase {
    pub tables: Vec<TableSpec>,
    pub cut_sels: Vec<Vec<u16>>,
    pub stmts: Vec<Stmt>,
    pub threads: Vec<usize>,
    pub repeats: usize,
}

#[derive(Serialize, Deserialize)]
struct WorkerOut {
    threads: usize,
    /// per statement: max output_partitions over the plan on the multi-batch layout
    max_partitions: Vec<usize>,
    /// [statement][layout: 0 = one batch, 1 = cut layout][repetition]
    results: Vec<Vec<Vec<Result<Rows, String>>>>,
}

const MARK: &str = "C07RESULT ";

/// `check --worker c07 <casefile>`: run every statement on both layouts,
/// `repeats` times, under this process's rayon pool size; print the rows.
pub fn worker(args: &[String]) {
    let txt = std::fs::read_to_string(&args[0]).expect("read casefile");
    let c: ThreadCase = serde_json::from_str(&txt).expect("casefile parses");
    let tables: Vec<Table> = c.tables.iter().map(|t| t.expand()).collect();
    let mut out = WorkerOut { threads: rayon::current_num_threads(), max_partitions: vec![], results: vec![] };
    for s in &c.stmts {
        let sql = s.query.sql();
        let mut per_layout = vec![];
        let mut maxp = 0;
        for sels in [&Vec::<Vec<u16>>::new(), &c.cut_sels] {
            let ctx = ctx_for(&tables, sels, rayon::current_num_threads());
            if let Ok(p) = ctx.physical_plan(&sql) {
                maxp = maxp.max(max_partitions(&p));
            }
            let mut reps = vec![];
            for _ in 0..c.repeats.max(1) {
                reps.push(run_sql(&ctx, &sql));
            }
            per_layout.push(reps);
        }
        out.max_partitions.push(maxp);
        out.results.push(per_layout);
    }
    println!("{}{}", MARK, serde_json::to_string(&out).expect("serialise"));
}

fn spawn_worker(casefile: &std::path::Path, threads: usize) -> Result<WorkerOut, String> {
    let exe = std::env::current_exe().map_err(|e| e.to_string())?;
    let out = std::process::Command::new(exe)
        .arg("--worker")
        .arg("c07")
        .arg(casefile)
        .env("RAYON_NUM_THREADS", threads.to_string())
        .output()
        .map_err(|e| format!("spawn: {}", e))?;
    let stdout = String::from_utf8_lossy(&out.stdout);
    match stdout.lines().find(|l| l.starts_with(MARK)) {
        Some(l) => serde_json::from_str(&l[MARK.len()..]).map_err(|e| format!("worker output does not parse: {}", e)),
        None => Err(format!(
            "worker (RAYON_NUM_THREADS={}) produced no result: status {:?}, stderr tail: {}",
            threads,
            out.status.code(),
            String::from_utf8_lossy(&out.stderr).lines().rev().take(5).collect::<Vec<_>>().join(" | ")
        )),
    }
}

pub struct Threads;
impl Check for Threads {
    type Case = ThreadCase;
    fn name(&self) -> &'static str {
        "threads"
    }
    fn rule(&self) -> &'static str {
        "for some statement of the batch an operator of its plan declared > 1 output partition in some worker, and >= 2 workers with different RAYON_NUM_THREADS returned identical answers for it"
    }
    fn cases(&self, tier: Tier) -> u32 {
        tier.pick(30, 700)
    }
    fn workers(&self, _tier: Tier) -> usize {
        4 // each case spawns sub-processes that start their own thread pools
    }
    fn max_shrink_iters(&self) -> u32 {
        60
    }
    fn strategy(&self, tier: Tier) -> BoxedStrategy<ThreadCase> {
        let per_case = tier.pick(6usize, 8usize);
        (tables_strategy7(tier), proptest::collection::vec(proptest::collection::vec(any::<u16>(), 0..80), per_case), cut_sels_strategy())
            .prop_map(move |(tables, tapes, cut_sels)| {
                let stmts = tapes.into_iter().map(|t| gen_stmt(t, &tables, &opts())).collect();
                ThreadCase { tables, cut_sels, stmts, threads: tier.pick(vec![1, 2, 3, 8], vec![1, 2, 3, 4, 8, 16]), repeats: tier.pick(2, 5) }
            })
            .boxed()
    }
    fn test(&self, c: &ThreadCase, obs: &mut Obs) -> Verdict {
        let tables: Vec<Table> = c.tables.iter().map(|t| t.expand()).collect();
        let tmp = TempDir::new("c07");
        let casefile = tmp.path().join("case.json");
        std::fs::write(&casefile, serde_json::to_string(c).unwrap()).expect("write casefile");
        let mut outs: Vec<WorkerOut> = vec![];
        for &t in &c.threads {
            match spawn_worker(&casefile, t) {
                Ok(o) => {
                    if o.threads != t {
                        obs.label("worker_thread_count_differs_from_request");
                    }
                    outs.push(o);
                }
                Err(e) => {
                    obs.label(format!("worker_failed:{}", short_err(&e)));
                    return Verdict::Discard("worker_failed".into());
                }
            }
        }
        let mut known: Option<(String, String)> = None;
        let mut nontrivial = false;
        for (si, s) in c.stmts.iter().enumerate() {
            let sql = s.query.sql();
            for f in &s.features {
                obs.label(format!("feat:{}", f));
            }
            let tol = if s.uses_avg { 1e-9 } else { 0.0 };
            let base = match &outs[0].results[si][0][0] {
                Ok(r) => r.clone(),
                Err(e) => {
                    obs.label(format!("baseline_error:{}", short_err(e)));
                    continue;
                }
            };
            let full = if has(s, "limit_unordered") { run_sql(&ctx_for(&tables, &[], 1), &without_limit(s).sql()).ok() } else { None };
            let mut agreeing_thread_counts = 0;
            for o in &outs {
                let mut all_agree = true;
                for (li, reps) in o.results[si].iter().enumerate() {
                    for (ri, r) in reps.iter().enumerate() {
                        match r {
                            Err(e) => {
                                all_agree = false;
                                obs.label(format!("run_error:{}", short_err(e)));
                                if e.contains("out of range (output_partitions=") {
                                    return Verdict::Fail(format!("a declared partition could not be executed with RAYON_NUM_THREADS={}: {}\n sql: {}\n tables:\n{}", o.threads, e, sql, fmt_specs(&c.tables)));
                                }
                            }
                            Ok(rows) => {
                                if let Err(why) = agree(s, &base, full.as_ref(), rows, tol) {
                                    all_agree = false;
                                    let cuts: Vec<Vec<usize>> = tables.iter().enumerate().map(|(i, t)| cuts_from(c.cut_sels.get(i).map(|v| v.as_slice()).unwrap_or(&[]), t.rows.len())).collect();
                                    let msg = format!(
                                        "RAYON_NUM_THREADS={} layout {} repetition {} (statement {} of the batch): {}\n sql: {}\n 1-thread one-batch answer ({} rows) vs this run ({} rows):\n{}\n {}\n batch cuts of layout 1: {:?}\n tables:\n{}",
                                        o.threads,
                                        if li == 0 { "one-batch" } else { "cut" },
                                        ri,
                                        si,
                                        why,
                                        sql,
                                        base.len(),
                                        rows.len(),
                                        diff_summary(&base, rows, 8),
                                        third_opinion(&tables, &s.query, &[("baseline", &base), ("this-run", rows)], tol),
                                        cuts,
                                        fmt_specs(&c.tables)
                                    );
                                    match classify(s, &tables, &base, rows) {
                                        Some(id) => {
                                            obs.label(format!("known:{}", id));
                                            known.get_or_insert((id.to_string(), msg));
                                        }
                                        None => return Verdict::Fail(msg),
                                    }
                                }
                            }
                        }
                    }
                }
                if all_agree {
                    agreeing_thread_counts += 1;
                }
            }
            let multi = outs.iter().any(|o| o.max_partitions.get(si).copied().unwrap_or(1) > 1);
            if multi {
                obs.label("stmt_multi_partition");
            }
            if multi && agreeing_thread_counts >= 2 {
                nontrivial = true;
            }
        }
        obs.nontrivial(nontrivial);
        match known {
            Some((id, msg)) => Verdict::Known { id, msg },
            None => Verdict::Pass,
        }
    }
}

pub fn property() -> Property {
    Property {
        id: "C07",
        level: "exploration",
        assumptions: &[
            "thread counts are varied through RAYON_NUM_THREADS in sub-processes (rayon's global pool is sized once per process); the tokio runtime of the harness keeps 8 worker threads",
            "task interleavings are varied only by repetition (2-5 runs per configuration), not controlled",
            "an engine error under one batching / thread count only is labelled, not failed, unless it is the check_partition error (the property's last sentence)",
            "doubles are multiples of 0.25 so sums are exact under any association order; AVG results are compared with relative tolerance 1e-9; a bare LIMIT k may return any k rows of the un-limited answer",
        ],
        checks: vec![Box::new(Batching), Box::new(PartitionWalk), Box::new(Threads)],
    }
}

/// Triage aid (`check --worker c07dbg <n_rows> <seed> <cut> <repeats> "<sql over s(a BIGINT, b BIGINT)>"`):
/// runs the statement `repeats` times on the table split at `cut` and counts
/// the distinct answers (schedule-dependent results show up as > 1).
pub fn debug(args: &[String]) {
    let n_rows: usize = args[0].parse().unwrap();
    let seed: u64 = args[1].parse().unwrap();
    let cut: usize = args[2].parse().unwrap();
    let repeats: usize = args[3].parse().unwrap();
    let sql = &args[4];
    let col = |name: &str| ColSpec { name: name.into(), ty: ColType::Int, domain: 3, null_pct: 30, base: 0, stride: 1 };
    let spec = TableSpec { name: "s".into(), cols: vec![col("a"), col("b")], n_rows, seed };
    let t = spec.expand();
    println!("{}", fmt_rows(&t.rows, 30));
    let mut seen: std::collections::BTreeMap<String, usize> = Default::default();
    for _ in 0..repeats {
        let mut ctx = ExecutionContext::new();
        register_mem(&mut ctx, &t, &[cut]);
        let k = match run_sql(&ctx, sql) {
            Ok(mut r) => {
                canon_sort(&mut r);
                format!("{} rows\n{}", r.len(), fmt_rows(&r, 40))
            }
            Err(e) => format!("ERROR {}", e),
        };
        *seen.entry(k).or_insert(0) += 1;
    }
    println!("threads={} distinct answers: {}", rayon::current_num_threads(), seen.len());
    for (k, n) in seen {
        println!("--- {} times:\n{}", n, k);
    }
}
