//! C10 — not implemented yet.
use super::Property;

pub fn property() -> Property {
    Property { id: "C10", level: "exploration", assumptions: &[], checks: vec![] }
}
