//! C10 — A failing fragment fails the whole query (level: fault enumeration).
//!
//! Per generated table set + cluster (2..5 participants, ≥1 remote) one
//! scatter-profile and one gather-profile statement. For each statement a
//! fault-free distributed run is recorded through the in-process transport
//! (every remote exchange with its real `/fragment` reply bytes). Then EVERY
//! remote exchange × EVERY fault kind is replayed, alone and in generated pairs:
//!   transport Err · HTTP 500 / 503 · empty body · truncation at EVERY Arrow IPC
//!   message boundary (after the schema message, after each batch, before the
//!   end-of-stream marker) and at sampled interior offsets (incl. 1 byte and
//!   len-1) · single-byte corruption at sampled offsets · dropped end-of-stream
//!   marker · wrong / missing `x-qe-rows` · split digest altered in flight.
//! Oracle: the query returns `Err`, or exactly the fault-free answer (label
//! `masked`); an `Ok` that differs from the fault-free answer is a violation.
use super::Property;
use crate::data::*;
use crate::runner::*;
use crate::sqlast::*;
use crate::sqlgen::*;
use proptest::prelude::*;
use serde::{Deserialize, Serialize};

use super::c09::cluster::*;

#[derive(Clone, Debug, Serialize, Deserialize)]
pub struct FaultCase {
    pub tables: Vec<PqTable>,
    pub cluster: ClusterSpec,
    pub statements: Vec<Query>,
    /// selectors of interior truncation offsets (mapped monotonically into the body)
    pub interior: Vec<u16>,
    /// selectors of corruption offsets and the xor mask
    pub corrupt: Vec<(u16, u8)>,
    /// selectors of fault pairs (indices into the enumerated single faults)
    pub pairs: Vec<(u16, u16)>,
}

fn scatter_profile() -> Profile {
    Profile::from_spec("minimal+logic+group_by+having+order_by+joins2+explicit_joins+cross_joins+comma_joins")
}
fn gather_profile() -> Profile {
    let mut p = Profile::from_spec("minimal+logic+group_by+distinct+count_distinct+order_by+joins2+explicit_joins+outer_joins+set_ops+derived+ctes+subqueries");
    p.max_from = 2;
    p
}

/// Make sure the statement cannot scatter: a plain block becomes DISTINCT, a
/// grouped one gets COUNT(DISTINCT …) — both have no exact partial/final split.
fn force_gather(q: &mut Query) {
    if !q.with.is_empty() {
        return;
    }
    if let SetExpr::Select(s) = &mut q.body {
        if s.group == Group::None && !s.items.iter().any(|i| matches!(i, Item::Expr(e, _) if e.contains_agg())) {
            s.distinct = true;
        } else if let Some(Item::Expr(e, _)) = s.items.iter().find(|i| matches!(i, Item::Expr(Expr::Col { .. }, _))).cloned() {
            s.items.push(Item::Expr(Expr::Agg { f: AggF::Count, arg: Some(Box::new(e)), distinct: true }, Some("cd9".into())));
        }
    }
}

fn case_strategy(tier: Tier) -> BoxedStrategy<FaultCase> {
    let max_rows = tier.pick(12, 30);
    (
        super::c09::tables_with_layout(max_rows, 1, 2),
        (2usize..=tier.pick(4, 6), any::<u16>(), proptest::collection::vec(any::<bool>(), 8)),
        proptest::collection::vec(any::<u16>(), 0..120),
        proptest::collection::vec(any::<u16>(), 0..120),
        proptest::collection::vec(any::<u16>(), tier.pick(3, 8)),
        proptest::collection::vec((any::<u16>(), any::<u8>()), tier.pick(4, 12)),
        proptest::collection::vec((any::<u16>(), any::<u16>()), tier.pick(4, 16)),
    )
        .prop_map(|(tables, (nodes, sel, copy), tape1, tape2, interior, corrupt, pairs)| {
            let plain: Vec<Table> = tables.iter().map(|t| t.table.clone()).collect();
            let cat = Catalog::of(&plain);
            let sp = scatter_profile();
            let gp = gather_profile();
            let (s, _) = Gen::new(tape1, &sp).query(&cat, 0);
            let (mut g, _) = Gen::new(tape2, &gp).query(&cat, 1);
            force_gather(&mut g);
            FaultCase {
                tables,
                cluster: ClusterSpec { nodes, self_pos: pick_idx(sel, nodes), copy: copy.into_iter().take(nodes).collect() },
                statements: vec![s, g],
                interior,
                corrupt,
                pairs,
            }
        })
        .boxed()
}

/// One enumerated fault instance.
#[derive(Clone, Debug)]
struct Instance {
    entries: Vec<ScriptEntry>,
    /// e.g. "truncate@boundary", "truncate@interior", "corrupt"
    class: String,
    /// the targeted shard carried ≥1 row in the fault-free run
    carried_rows: bool,
}

fn enumerate(exchanges: &[Exchange], c: &FaultCase) -> Vec<Instance> {
    let mut out = vec![];
    for e in exchanges {
        if e.status != 200 {
            continue;
        }
        let mk = |f: Fault, class: &str| Instance {
            entries: vec![ScriptEntry { address: e.address.clone(), table: e.table.clone(), fault: f }],
            class: class.to_string(),
            carried_rows: e.rows > 0,
        };
        out.push(mk(Fault::TransportErr, "transport_err"));
        out.push(mk(Fault::HttpStatus(500), "http_status"));
        out.push(mk(Fault::HttpStatus(503), "http_status"));
        out.push(mk(Fault::EmptyBody, "empty_body"));
        out.push(mk(Fault::DropEos, "drop_eos"));
        out.push(mk(Fault::RowsHeader(1), "rows_header"));
        out.push(mk(Fault::RowsHeader(-1), "rows_header"));
        out.push(mk(Fault::RowsHeaderMissing, "rows_header_missing"));
        out.push(mk(Fault::DigestAltered, "digest_altered"));
        let len = e.body.len();
        let mut boundaries: Vec<usize> = vec![];
        if let Ok(msgs) = ipc_messages(&e.body) {
            for m in &msgs {
                if m.end < len {
                    boundaries.push(m.end);
                }
                // the metadata/body seam of a batch message is a boundary of its own kind
                if m.kind == "batch" && m.body_start < len && m.body_start != m.end {
                    out.push(mk(Fault::TruncateAt(m.body_start), "truncate@metadata_body_seam"));
                }
            }
        }
        let mut prefix_cuts: Vec<usize> = vec![];
        for b in &boundaries {
            out.push(mk(Fault::TruncateAt(*b), "truncate@message_boundary"));
            // inside the 8-byte prefix (continuation marker + length) of the next message
            for k in [1usize, 3, 4, 5, 7] {
                if b + k < len && !boundaries.contains(&(b + k)) {
                    out.push(mk(Fault::TruncateAt(b + k), "truncate@message_prefix"));
                    prefix_cuts.push(b + k);
                }
            }
        }
        if len > 1 {
            let mut offs: Vec<usize> = vec![1, 4, 8, len - 1];
            for s in &c.interior {
                offs.push(pick_idx(*s, len));
            }
            offs.sort();
            offs.dedup();
            for o in offs {
                if o > 0 && o < len && !boundaries.contains(&o) && !prefix_cuts.contains(&o) && !boundaries.iter().any(|b| o > *b && o < b + 8) {
                    out.push(mk(Fault::TruncateAt(o), "truncate@interior"));
                }
            }
            for (s, x) in &c.corrupt {
                out.push(mk(Fault::CorruptAt { offset: pick_idx(*s, len), xor: *x }, "corrupt"));
            }
        }
    }
    // generated pairs of single faults on two different exchanges (or the same one)
    let singles = out.len();
    if singles >= 2 {
        for (a, b) in &c.pairs {
            let (i, j) = (pick_idx(*a, singles), pick_idx(*b, singles));
            if i == j {
                continue;
            }
            let mut entries = out[i].entries.clone();
            entries.extend(out[j].entries.clone());
            out.push(Instance { entries, class: format!("pair:{}+{}", out[i].class, out[j].class), carried_rows: out[i].carried_rows || out[j].carried_rows });
        }
    }
    out
}

/// Known-finding classes of C10 (precise signatures).
fn classify(class: &str) -> Option<&'static str> {
    // an Ok answer that lost rows after a cut exactly at an IPC message boundary
    // (alone, or paired with a fault that is itself harmless or detected)
    let parts: Vec<&str> = class.strip_prefix("pair:").map(|p| p.split('+').collect()).unwrap_or_else(|| vec![class]);
    // every single fault is also enumerated alone, so a new defect hidden behind a
    // pair that contains a known-class fault still shows up unclassified there
    if parts.iter().any(|p| *p == "truncate@message_boundary" || *p == "truncate@message_prefix") {
        return Some("ipc-truncation-at-message-boundary");
    }
    if parts.iter().any(|p| *p == "corrupt") {
        return Some("fragment-payload-corruption-undetected");
    }
    None
}

/// Helper check (no generated cases): decode one reply body. Run in a CHILD process by
/// `decode_kills_process` because a corrupt length field makes the Arrow stream reader
/// allocate the declared size, which aborts the process instead of returning an error.
#[derive(Clone, Debug, Serialize, Deserialize)]
pub struct DecodeCase {
    pub body_hex: String,
}
pub struct DecodeProbe;
impl Check for DecodeProbe {
    type Case = DecodeCase;
    fn name(&self) -> &'static str {
        "ipc_decode_probe"
    }
    fn rule(&self) -> &'static str {
        "helper executed in a child process only"
    }
    fn cases(&self, _t: Tier) -> u32 {
        0
    }
    fn strategy(&self, _t: Tier) -> BoxedStrategy<DecodeCase> {
        Just(DecodeCase { body_hex: String::new() }).boxed()
    }
    fn test(&self, c: &DecodeCase, _obs: &mut Obs) -> Verdict {
        let bytes: Vec<u8> = (0..c.body_hex.len() / 2).filter_map(|i| u8::from_str_radix(&c.body_hex[2 * i..2 * i + 2], 16).ok()).collect();
        let _ = query_engine::distributed::coordinator::decode_ipc(&bytes);
        Verdict::Pass
    }
}

/// Some(true): decoding `body` killed the child process (signal); Some(false): it returned.
fn decode_kills_process(body: &[u8]) -> Option<bool> {
    let dir = TempDir::new("c10probe");
    let file = dir.path().join("probe.json");
    let hex: String = body.iter().map(|b| format!("{:02x}", b)).collect();
    let doc = serde_json::json!({"property": "C10", "check": "ipc_decode_probe", "expect": "pass", "case": {"body_hex": hex}});
    std::fs::write(&file, doc.to_string()).ok()?;
    let exe = std::env::current_exe().ok()?;
    let out = std::process::Command::new(exe).arg("C10").arg("--replay").arg(&file).stdout(std::process::Stdio::null()).stderr(std::process::Stdio::null()).status().ok()?;
    match out.code() {
        Some(0) => Some(false),
        None => Some(true),
        Some(134) => Some(true),
        _ => None,
    }
}

pub struct FaultEnumeration;

impl Check for FaultEnumeration {
    type Case = FaultCase;
    fn name(&self) -> &'static str {
        "fragment_faults"
    }
    fn rule(&self) -> &'static str {
        "at least one enumerated fault hit a remote shard whose fault-free reply carried >=1 row (labels count every fault instance by kind and outcome)"
    }
    fn cases(&self, tier: Tier) -> u32 {
        tier.pick(30, 1500)
    }
    fn max_shrink_iters(&self) -> u32 {
        // one evaluation replays ~100 distributed runs: keep shrinking short
        24
    }
    fn strategy(&self, tier: Tier) -> BoxedStrategy<FaultCase> {
        case_strategy(tier)
    }
    fn test(&self, c: &FaultCase, obs: &mut Obs) -> Verdict {
        let cl = match Cluster::build("c10", &c.tables, &c.cluster) {
            Ok(cl) => cl,
            Err(e) => return Verdict::Discard(format!("cluster:{}", crate::sqlcheck::short_err(&e))),
        };
        // one message per known class; the rarest class names the verdict
        let mut known_by: std::collections::BTreeMap<&'static str, String> = Default::default();
        let mut known: Option<(String, String)> = None;
        let mut unknown: Option<String> = None;
        let mut n_unknown = 0usize;
        let mut n_known = 0usize;
        let mut instances = 0usize;
        for q in &c.statements {
            let sql = q.sql();
            let shape = planned_shape(&cl.base, &sql).unwrap_or("unplanned");
            let tr0 = cl.transport(vec![]);
            let base_rows = match run_any_distributed(&cl, &sql, &tr0) {
                DistOutcome::Ok(d) => batches_to_rows(&d.result.batches),
                DistOutcome::NotImplemented(_) => {
                    obs.label(format!("fault_free:{}:refused", shape));
                    continue;
                }
                DistOutcome::Err(e) => {
                    obs.label(format!("fault_free:{}:error:{}", shape, crate::sqlcheck::short_err(&e)));
                    continue;
                }
                DistOutcome::Panic(_) => {
                    obs.label(format!("fault_free:{}:panic", shape));
                    continue;
                }
            };
            let exchanges = tr0.exchanges();
            obs.label(format!("fault_free:{}:ok", shape));
            if exchanges.is_empty() {
                obs.label("no_remote_exchange");
                continue;
            }
            for inst in enumerate(&exchanges, c) {
                instances += 1;
                let kind = if inst.class.starts_with("pair:") { "pair" } else { inst.class.as_str() };
                // pre-screen corrupted replies: a corrupt *length* makes the reader allocate the
                // declared size; beyond what can be allocated that aborts the process. Such a
                // reply is decoded in a child process first.
                let mut killed = false;
                if inst.class.contains("corrupt") {
                    for e in &exchanges {
                        let mut body = e.body.clone();
                        let mut touched = false;
                        for s in inst.entries.iter().filter(|s| s.address == e.address && s.table == e.table) {
                            apply_body_fault(&mut body, &s.fault);
                            touched = true;
                        }
                        if touched && declared_overrun(&body) > (256 << 20) {
                            obs.label("corrupt_length_field_prescreened_in_child");
                            match decode_kills_process(&body) {
                                Some(false) => {}
                                Some(true) => killed = true,
                                None => {
                                    obs.label("child_probe_inconclusive");
                                    killed = true;
                                }
                            }
                        }
                    }
                }
                if killed {
                    n_known += 1;
                    obs.label(format!("fault:{}:PROCESS_ABORT", kind));
                    if known.is_none() {
                        known = Some((
                            "ipc-corrupt-length-aborts-process".to_string(),
                            format!("fault {:?}: decode_ipc on the corrupted reply killed the (child) process — the Arrow stream reader allocates the body length the corrupted message declares\n sql: {}", inst.entries, sql),
                        ));
                    }
                    continue;
                }
                let tr = cl.transport(inst.entries.clone());
                let outcome = match run_any_distributed(&cl, &sql, &tr) {
                    DistOutcome::Err(_) | DistOutcome::NotImplemented(_) => "error",
                    DistOutcome::Panic(p) => {
                        // not an answer; C29 owns panics. Recorded.
                        obs.label(format!("panic:{}", crate::sqlcheck::short_err(&p)));
                        "panic"
                    }
                    DistOutcome::Ok(d) => {
                        let rows = batches_to_rows(&d.result.batches);
                        if multiset_eq(&rows, &base_rows, 1e-12) {
                            "masked"
                        } else {
                            let msg = format!(
                                "fault {:?} ({}) on a shard {} → the query returned Ok with an answer that differs from the fault-free one\n sql: {}\n shape: {}\n cluster: {:?}\n fault-free ({} rows):\n{} under fault ({} rows):\n{} exchanges: {}\n tables: {}",
                                inst.entries,
                                inst.class,
                                if inst.carried_rows { "that carried rows" } else { "that carried no rows" },
                                sql,
                                shape,
                                c.cluster.normalized(),
                                base_rows.len(),
                                fmt_rows(&base_rows, 20),
                                rows.len(),
                                fmt_rows(&rows, 20),
                                exchanges.iter().map(|e| format!("[{} {} shard {} rows {} body {}B]", e.address, e.table, e.shard_index, e.rows, e.body.len())).collect::<Vec<_>>().join(" "),
                                crate::sqlcheck::fmt_tables(&c.tables.iter().map(|t| t.table.clone()).collect::<Vec<_>>())
                            );
                            match classify(&inst.class) {
                                Some(id) => {
                                    n_known += 1;
                                    known_by.entry(id).or_insert(msg);
                                }
                                None => {
                                    n_unknown += 1;
                                    if unknown.is_none() {
                                        unknown = Some(msg);
                                    }
                                }
                            }
                            "WRONG_ANSWER"
                        }
                    }
                };
                obs.label(format!("fault:{}:{}", kind, outcome));
                obs.label(format!("shape:{}:{}", shape, outcome));
                if inst.carried_rows {
                    obs.label("instance_on_shard_with_rows");
                    obs.nontrivial(true);
                } else {
                    obs.label("instance_on_rowless_shard");
                }
            }
        }
        obs.weight(instances as u64);
        obs.sample(serde_json::json!({"statements": c.statements.iter().map(|q| q.sql()).collect::<Vec<_>>(), "instances": instances, "nodes": c.cluster.nodes}));
        if let Some(m) = unknown {
            return Verdict::Fail(format!("{} unclassified (+{} known-class) wrong answers among {} fault instances; first:\n{}", n_unknown, n_known, instances, m));
        }
        for id in ["ipc-truncation-at-message-boundary", "fragment-payload-corruption-undetected"] {
            if let Some(m) = known_by.remove(id) {
                if known.is_none() || id == "fragment-payload-corruption-undetected" && known.as_ref().map(|k| k.0 != "ipc-corrupt-length-aborts-process").unwrap_or(true) {
                    known = Some((id.to_string(), m));
                }
            }
        }
        if let Some((id, m)) = known {
            return Verdict::Known { id, msg: format!("{} wrong answers among {} fault instances; first:\n{}", n_known, instances, m) };
        }
        Verdict::Pass
    }
}

// ---------------------------------------------------------------------------
// divergent worker copies (a digest mismatch that comes from the DATA, not from
// a tampered digest field)
// ---------------------------------------------------------------------------

#[derive(Clone, Debug, Serialize, Deserialize)]
pub struct DivergentCase {
    pub tables: Vec<PqTable>,
    pub cluster: ClusterSpec,
    pub statements: Vec<Query>,
    /// per table: how the copy mounted by the `copy` participants differs
    /// 0 = identical, 1 = only the first k rows (k from `keep`: a nearly empty, half-finished copy),
    /// 2 = last row missing, 3 = same rows, other row-group size, 4 = one extra row
    pub modes: Vec<u8>,
    pub keep: Vec<u16>,
}

fn divergent_copy(t: &PqTable, mode: u8, keep: u16) -> PqTable {
    let mut c = t.clone();
    let n = c.table.rows.len();
    match mode % 5 {
        1 => c.table.rows.truncate(pick_idx(keep, n.min(3) + 1).min(n)),
        2 => {
            c.table.rows.pop();
        }
        3 => c.layout.row_group_size = if c.layout.row_group_size == 1 { 2 } else { 1 },
        4 => {
            if let Some(r) = c.table.rows.first().cloned() {
                c.table.rows.push(r);
            }
        }
        _ => {}
    }
    c
}

fn divergent_strategy(tier: Tier) -> BoxedStrategy<DivergentCase> {
    let max_rows = tier.pick(12, 30);
    (
        super::c09::tables_with_layout(max_rows, 1, 2),
        (2usize..=tier.pick(4, 6), any::<u16>(), proptest::collection::vec(any::<bool>(), 8)),
        proptest::collection::vec(any::<u16>(), 0..120),
        proptest::collection::vec(any::<u16>(), 0..120),
        proptest::collection::vec(prop_oneof![1 => Just(0u8), 4 => Just(1u8), 1 => Just(2u8), 1 => Just(3u8), 1 => Just(4u8)], 3),
        proptest::collection::vec(any::<u16>(), 3),
    )
        .prop_map(|(tables, (nodes, sel, copy), tape1, tape2, modes, keep)| {
            let plain: Vec<Table> = tables.iter().map(|t| t.table.clone()).collect();
            let cat = Catalog::of(&plain);
            let (s, _) = Gen::new(tape1, &scatter_profile()).query(&cat, 0);
            let (mut g, _) = Gen::new(tape2, &gather_profile()).query(&cat, 1);
            force_gather(&mut g);
            let self_pos = pick_idx(sel, nodes);
            let mut copy: Vec<bool> = copy.into_iter().take(nodes).collect();
            // at least one remote participant mounts the divergent copy
            if !(0..nodes).any(|i| i != self_pos && copy[i]) {
                let j = (0..nodes).find(|i| *i != self_pos).unwrap();
                copy[j] = true;
            }
            DivergentCase { tables, cluster: ClusterSpec { nodes, self_pos, copy }, statements: vec![s, g], modes, keep }
        })
        .boxed()
}

pub struct DivergentCopy;

impl Check for DivergentCopy {
    type Case = DivergentCase;
    fn name(&self) -> &'static str {
        "divergent_worker_copy"
    }
    fn rule(&self) -> &'static str {
        "with identical copies the statement had a remote exchange for a table whose worker copy then diverges (other rows / other row groups)"
    }
    fn cases(&self, tier: Tier) -> u32 {
        tier.pick(150, 6000)
    }
    fn max_shrink_iters(&self) -> u32 {
        60
    }
    fn strategy(&self, tier: Tier) -> BoxedStrategy<DivergentCase> {
        divergent_strategy(tier)
    }
    fn test(&self, c: &DivergentCase, obs: &mut Obs) -> Verdict {
        let copies: Vec<PqTable> = c.tables.iter().enumerate().map(|(i, t)| divergent_copy(t, c.modes.get(i).copied().unwrap_or(0), c.keep.get(i).copied().unwrap_or(0))).collect();
        let diverging: Vec<String> = c.tables.iter().zip(copies.iter()).filter(|(a, b)| a != b).map(|(a, _)| a.table.name.clone()).collect();
        if diverging.is_empty() {
            return Verdict::Discard("no_table_diverges".into());
        }
        let same = match Cluster::build("c10s", &c.tables, &c.cluster) {
            Ok(cl) => cl,
            Err(e) => return Verdict::Discard(format!("cluster:{}", crate::sqlcheck::short_err(&e))),
        };
        let div = match Cluster::build_with_copy("c10d", &c.tables, &c.cluster, Some(&copies)) {
            Ok(cl) => cl,
            Err(e) => return Verdict::Discard(format!("cluster:{}", crate::sqlcheck::short_err(&e))),
        };
        let mut runs = 0u64;
        for q in &c.statements {
            let sql = q.sql();
            let shape = planned_shape(&same.base, &sql).unwrap_or("unplanned");
            let tr0 = same.transport(vec![]);
            let base_rows = match run_any_distributed(&same, &sql, &tr0) {
                DistOutcome::Ok(d) => batches_to_rows(&d.result.batches),
                _ => {
                    obs.label(format!("identical_copies:{}:no_answer", shape));
                    continue;
                }
            };
            let touched = tr0.exchanges().iter().any(|e| diverging.contains(&e.table));
            obs.label(format!("identical_copies:{}:ok", shape));
            // The digest interlock covers the table a fragment is a shard OF. A diverging table
            // that the statement reads but that is not sharded (the other side of a join, read by
            // every worker from its own copy) is outside what C10/C14 state: not judged.
            let up = format!(" {} ", sql.to_uppercase().replace(['(', ')', ','], " "));
            let names = |t: &str| up.contains(&format!(" {} ", t.to_uppercase()));
            let exchanged: Vec<String> = tr0.exchanges().iter().map(|e| e.table.clone()).collect();
            if diverging.iter().any(|t| names(t) && !exchanged.contains(t)) {
                obs.label(format!("divergent:{}:unsharded_table_diverges_not_judged", shape));
                continue;
            }
            let tr = div.transport(vec![]);
            runs += 1;
            let outcome = match run_any_distributed(&div, &sql, &tr) {
                DistOutcome::Err(_) | DistOutcome::NotImplemented(_) => "error",
                DistOutcome::Panic(p) => {
                    obs.label(format!("panic:{}", crate::sqlcheck::short_err(&p)));
                    "panic"
                }
                DistOutcome::Ok(d) => {
                    let rows = batches_to_rows(&d.result.batches);
                    if multiset_eq(&rows, &base_rows, 1e-12) {
                        "masked"
                    } else {
                        return Verdict::Fail(format!(
                            "a worker whose copy of {:?} differs from the initiator's answered its fragment: the query returned Ok with an answer that differs from the one over identical copies\n sql: {}\n shape: {}\n cluster: {:?}\n identical copies ({} rows):\n{} divergent copy ({} rows):\n{} copy modes: {:?} (1 = first k rows only, 2 = last row missing, 3 = other row-group size, 4 = extra row)\n worker copy row counts: {:?}\n exchanges: {}\n tables: {}",
                            diverging,
                            sql,
                            shape,
                            c.cluster.normalized(),
                            base_rows.len(),
                            fmt_rows(&base_rows, 20),
                            rows.len(),
                            fmt_rows(&rows, 20),
                            c.modes,
                            copies.iter().map(|t| (t.table.name.clone(), t.table.rows.len())).collect::<Vec<_>>(),
                            tr.exchanges().iter().map(|e| format!("[{} {} shard {} status {} rows {}]", e.address, e.table, e.shard_index, e.status, e.rows)).collect::<Vec<_>>().join(" "),
                            crate::sqlcheck::fmt_tables(&c.tables.iter().map(|t| t.table.clone()).collect::<Vec<_>>())
                        ));
                    }
                }
            };
            obs.label(format!("divergent:{}:{}:{}", shape, if touched { "table_exchanged" } else { "table_not_exchanged" }, outcome));
            if touched {
                obs.nontrivial(true);
            }
        }
        obs.weight(runs.max(1));
        obs.sample(serde_json::json!({"statements": c.statements.iter().map(|q| q.sql()).collect::<Vec<_>>(), "modes": c.modes, "nodes": c.cluster.nodes}));
        Verdict::Pass
    }
}

pub fn property() -> Property {
    Property {
        id: "C10",
        level: "fault_enumeration",
        assumptions: &[
            "faults are injected at the FragmentTransport seam, which models the HTTP exchange of HttpTransport::send / POST /fragment byte for byte (status, x-qe-rows, body) without a socket",
            "truncation is enumerated at every Arrow IPC message boundary of the real reply (independent framing walk) and sampled inside messages; corruption offsets are sampled",
            "an Ok answer equal (as a multiset) to the fault-free answer is accepted (the fault was semantically masked); a panic is recorded, not judged here (C29)",
        ],
        checks: vec![Box::new(FaultEnumeration), Box::new(DecodeProbe), Box::new(DivergentCopy)],
    }
}
