//! C03 — not implemented yet.
use super::Property;

pub fn property() -> Property {
    Property { id: "C03", level: "exploration", assumptions: &[], checks: vec![] }
}
