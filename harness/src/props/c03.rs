//! C03 — Optimization never changes a query's answer.
//!
//! Generator (`c03_util`): 1–3 tables whose first two columns are integer keys
//! drawn from the statistics profiles the rules gate on (tiny domains; the
//! "uniqueness trap" = null-free, max-min+1 >= row count, yet duplicated;
//! truly unique dense/sparse keys; negative minima; ranges straddling 2^31 /
//! 2^32 / i32::MAX; a far outlier), plus small-domain INT/DOUBLE/VARCHAR/DATE
//! columns, 0–20 % NULLs, table-unique column names (the statistics rules
//! resolve columns by bare name) or, rarely, shared names. Every table is
//! registered twice: as a memory table (no statistics) and as Parquet with
//! footer statistics (random file / row-group layout). Statements: sqlgen's
//! full grammar (30 %) and focused shapes that make each rule fire (FD-shaped
//! GROUP BY over key joins, SUM-only aggregates above duplicating joins, LEFT
//! JOIN + COUNT, two-integer group keys / join keys, OR-of-conjunctions, HAVING
//! totals, EXISTS/IN below inner joins, derived tables shadowing base-column
//! names, ORDER BY + LIMIT above aggregates).
//!
//! Oracle (differential, per registration): `ctx.sql` (production optimizer) vs
//! the bound plan lowered directly; each production rule ALONE and each PREFIX
//! of the production order (`Optimizer::with_rules`, statistics-aware) vs the
//! same baseline. `refsql` is the third opinion recorded in the message (which
//! side is wrong) and decides only how ORDER BY/LIMIT ties are compared.
//! A disagreement is narrowed to the first single rule (else first prefix)
//! whose plan changes the answer.
use super::Property;
use crate::data::*;
use crate::engine::*;
use crate::refsql::{self, Db, RefAnswer};
use crate::runner::*;
use proptest::strategy::BoxedStrategy;
use crate::sqlast::Query;
use crate::sqlcheck::{fmt_tables, short_err};
use query_engine::planner::LogicalPlan;
use query_engine::ExecutionContext;
use std::collections::{BTreeSet, HashMap};

#[path = "c03_util.rs"]
mod util;
use util::*;

pub enum Cmp {
    Same,
    Differ(String),
    Inconclusive(&'static str),
}

/// Are two engine answers "the same rows" for this statement? (`a` = baseline)
pub fn compare(q: &Query, reference: Option<&RefAnswer>, a: &Rows, b: &Rows, tol: f64) -> Cmp {
    let has_order = !q.order_by.is_empty();
    let has_limit = q.limit.is_some() || q.offset.is_some();
    let show = |who: &str| {
        format!(
            "{}\n baseline / unoptimized ({} rows):\n{} optimized ({} rows):\n{}",
            who,
            a.len(),
            fmt_rows(&if has_order { a.clone() } else { sorted(a) }, 40),
            b.len(),
            fmt_rows(&if has_order { b.clone() } else { sorted(b) }, 40)
        )
    };
    if let Some(r) = reference {
        let ra = refsql::compare_answer(r, a, tol);
        let rb = refsql::compare_answer(r, b, tol);
        return match (ra.is_ok(), rb.is_ok()) {
            (true, true) => Cmp::Same,
            (true, false) => Cmp::Differ(show("reference agrees with the UNOPTIMIZED answer; the optimized answer is wrong")),
            (false, true) => Cmp::Differ(show("reference agrees with the OPTIMIZED answer; the unoptimized answer is wrong")),
            (false, false) => {
                if (has_order && rows_eq(a, b, tol)) || (!has_order && multiset_eq(a, b, tol)) {
                    Cmp::Same
                } else if !has_limit && !multiset_eq(a, b, tol) {
                    Cmp::Differ(show(&format!("reference disagrees with BOTH answers, and they differ from each other; reference ({} rows):\n{}", r.rows.len(), fmt_rows(&r.rows, 40))))
                } else if has_limit {
                    Cmp::Inconclusive("both_wrong_limit")
                } else {
                    Cmp::Inconclusive("both_wrong_order")
                }
            }
        };
    }
    if has_limit {
        if rows_eq(a, b, tol) || multiset_eq(a, b, tol) {
            Cmp::Same
        } else {
            Cmp::Inconclusive("limit_without_reference")
        }
    } else if !multiset_eq(a, b, tol) {
        Cmp::Differ(show("(no reference answer: statement outside refsql's dialect)"))
    } else {
        Cmp::Same
    }
}

fn sorted(r: &Rows) -> Rows {
    let mut x = r.clone();
    canon_sort(&mut x);
    x
}

fn has(c: &OptCase, f: &str) -> bool {
    c.sql_case.features.iter().any(|x| x == f)
}

/// number of `column = column` comparisons in a plan (join keys and predicates)
fn col_equalities(p: &LogicalPlan) -> usize {
    use query_engine::planner::{BinaryOp, Expr as E};
    let mut n = 0;
    for_each_node(p, &mut |node| {
        match node {
            LogicalPlan::Join(j) => {
                n += j.on.iter().filter(|(l, r)| matches!((l, r), (E::Column(_), E::Column(_)))).count();
                // PackedJoinKeys' `a*K + b = c*K + d` stands for the two equalities it
                // encodes: nothing was lost (a wrong K is a defect of its own, not this finding)
                let packed = |e: &E| matches!(e, E::BinaryExpr { left, op: BinaryOp::Add, .. } if matches!(&**left, E::BinaryExpr { op: BinaryOp::Multiply, .. }));
                n += 2 * j.on.iter().filter(|(l, r)| packed(l) && packed(r)).count();
            }
            LogicalPlan::DelimJoin(j) => n += j.on.len(),
            _ => {}
        }
        for e in node_exprs(node) {
            expr_walk(e, &mut |x| {
                if let E::BinaryExpr { left, op: BinaryOp::Eq, right } = x {
                    if matches!((&**left, &**right), (E::Column(_), E::Column(_))) {
                        n += 1;
                    }
                }
            });
        }
    });
    n
}

/// An integer column of some table that is null-free, spans at least as many
/// values as the table has rows (so footer statistics estimate it unique),
/// yet holds duplicates — and is named by the statement (group key or join key).
fn trap_group_key(c: &OptCase) -> bool {
    // (group keys and the join keys through which functional dependencies are chased:
    // any such column is named in the statement text)
    let sql = c.sql_case.query.sql().to_lowercase();
    let named = |n: &str| {
        let n = n.to_lowercase();
        sql.match_indices(&n).any(|(i, _)| {
            let before = sql[..i].chars().last().map(|ch| !ch.is_alphanumeric() && ch != '_').unwrap_or(true);
            let after = sql[i + n.len()..].chars().next().map(|ch| !ch.is_alphanumeric() && ch != '_').unwrap_or(true);
            before && after
        })
    };
    for t in &c.sql_case.tables {
        for (ci, col) in t.cols.iter().enumerate() {
            if !(col.ty.is_int() || col.ty == ColType::Date) || !named(&col.name) || t.rows.len() < 2 {
                continue;
            }
            let vals: Vec<i64> = t
                .rows
                .iter()
                .filter_map(|r| match r[ci] {
                    Value::Int(i) => Some(i),
                    Value::Date(d) => Some(d as i64),
                    _ => None,
                })
                .collect();
            if vals.len() != t.rows.len() {
                continue;
            }
            let (mn, mx) = (*vals.iter().min().unwrap(), *vals.iter().max().unwrap());
            let mut d = vals.clone();
            d.sort();
            d.dedup();
            if (mx - mn + 1) as usize >= vals.len() && d.len() < vals.len() {
                return true;
            }
        }
    }
    false
}

/// an aggregate declared Int64 whose argument multiplies by CAST(__ea_cnt AS Float64)
fn int_sum_with_float_count(p: &LogicalPlan) -> bool {
    let mut hit = false;
    for_each_node(p, &mut |n| {
        if let LogicalPlan::Aggregate(a) = n {
            for (i, e) in a.aggregates.iter().enumerate() {
                let t = format!("{:?}", e);
                if t.contains("__ea_cnt") && t.contains("data_type: Float64") {
                    if let Some(f) = a.schema.fields().get(a.group_by.len() + i) {
                        if f.data_type == arrow::datatypes::DataType::Int64 {
                            hit = true;
                        }
                    }
                }
            }
        }
    });
    hit
}

fn scans_a_table_twice(p: &LogicalPlan) -> bool {
    let mut names: Vec<String> = vec![];
    for_each_node(p, &mut |n| {
        if let LogicalPlan::Scan(s) = n {
            names.push(s.table_name.to_lowercase());
        }
    });
    (0..names.len()).any(|i| names[i + 1..].contains(&names[i]))
}

/// a join keyed on a VARCHAR column one of whose inputs is itself a join
/// (join outputs carry dictionary-encoded strings)
fn string_key_join_over_join(p: &LogicalPlan) -> bool {
    fn has_join(p: &LogicalPlan) -> bool {
        let mut h = false;
        for_each_node(p, &mut |n| {
            if matches!(n, LogicalPlan::Join(_)) {
                h = true
            }
        });
        h
    }
    let mut hit = false;
    for_each_node(p, &mut |n| {
        if let LogicalPlan::Join(j) = n {
            let both = j.left.schema().merge(&j.right.schema());
            let str_key = j.on.iter().any(|(a, _)| matches!(a.data_type(&both), Ok(arrow::datatypes::DataType::Utf8)));
            if str_key && (has_join(&j.left) || has_join(&j.right)) {
                hit = true;
            }
        }
    });
    hit
}

/// two tables of the case have a column of the same name
fn shared_column_names(c: &OptCase) -> bool {
    let t = &c.sql_case.tables;
    (0..t.len()).any(|i| (i + 1..t.len()).any(|j| t[i].cols.iter().any(|a| t[j].cols.iter().any(|b| a.name.eq_ignore_ascii_case(&b.name)))))
}

pub struct Diff<'a> {
    pub rule: &'a str,
    pub stats: bool,
    pub msg: &'a str,
    pub bound: &'a LogicalPlan,
    pub rewritten: Option<&'a LogicalPlan>,
}

/// Signatures of C03's open findings. `rule` = the rule the disagreement was
/// narrowed to; `stats` = it happened on the statistics-bearing registration.
fn classify_precise(c: &OptCase, ev: &BTreeSet<&'static str>, d: &Diff) -> Option<&'static str> {
    let opt_wrong = d.msg.contains("the optimized answer is wrong");
    let unopt_wrong = d.msg.contains("the unoptimized answer is wrong");
    let rt = d.rewritten.map(plan_text).unwrap_or_default();
    let rule = d.rule;
    // ---- optimizer defects with a known trigger ----
    if opt_wrong || d.msg.contains("BOTH") || d.msg.contains("no reference") {
        if rt.contains("__pk") && has(c, "shadowing_derived") {
            return Some("opt-PackedGroupKeys-shadowed-column-stats");
        }
        if rt.contains("__pk") && ev.contains("null_group_key") && (has(c, "join_left") || has(c, "join_right") || has(c, "join_full")) {
            return Some("opt-PackedGroupKeys-null-extended-key");
        }
        if (rt.contains("__fd_") || rt.contains("__ea_cnt") || rt.contains("__topk_key")) && d.stats && trap_group_key(c) {
            return Some("opt-ndv-est-uniqueness-trap");
        }
        // an all-integer SUM term multiplied by CAST(__ea_cnt AS Float64): the aggregate's
        // declared Int64 output receives Float64 values
        if d.rewritten.map(int_sum_with_float_count).unwrap_or(false) {
            return Some("opt-EagerAggregation-int-sum-float-count");
        }
        if rt.contains("__ea_") && rule.ends_with("EagerAggregation") {
            // (beyond the sub-causes above: SUM over a pre-aggregated SUM yields NULL, INTEGER keys
            // declared Int64, by-name confusion in self-joins)
            return Some("opt-EagerAggregation-rewrite");
        }
        if rt.contains("__having_total_cse_") && has(c, "having_total") {
            return Some("opt-HavingTotalCse-having-total");
        }
        if let Some(p) = d.rewritten {
            if col_equalities(p) < col_equalities(d.bound) {
                return Some("opt-join-equality-lost");
            }
            // FD reasoning by bare column name while a base table is scanned twice
            if (rt.contains("__fd_") || rt.contains("__topk_key")) && scans_a_table_twice(d.bound) {
                return Some("opt-GroupKeyReduction-self-join-by-name");
            }
            // hash-join key pairs of different integer width (also: EagerAggregation declaring
            // an INTEGER pre-aggregate key as Int64)
            if mixed_type_join_key(p).is_some() {
                return Some("join-key-mixed-int-types");
            }
            if string_key_join_over_join(p) {
                return Some("join-string-key-from-join-output");
            }
        }
    }
    if unopt_wrong && (shared_column_names(c) || scans_a_table_twice(d.bound)) {
        return Some("unoptimized-ambiguous-bare-column-names");
    }
    // ---- execution-path defects shared with C01, reached by only one of the two plans ----
    if ev.contains("global_agg_empty_input") || ev.contains("agg_no_nonnull_input") {
        return Some("agg-empty-input");
    }
    if ev.contains("null_group_key") && !rt.contains("__pk") {
        return Some("agg-null-group-key");
    }
    // the harness-only path: a subquery predicate evaluated by FilterExec's subquery executor
    if unopt_wrong && ["in_subquery", "not_in_subquery", "exists", "not_exists", "scalar_subquery"].iter().any(|f| has(c, f)) && ["SubqueryDecorrelation", "FlattenDependentJoin", "PredicatePushdown", "pipeline"].contains(&rule) {
        return Some("unoptimized-subquery-predicate-wrong");
    }
    None
}

/// Coarse (rule + statement shape) attribution, used only by the full-grammar
/// check: the optimizer mishandles these statement families in many ways that
/// have not been root-caused one by one.
fn classify_coarse(c: &OptCase, d: &Diff) -> Option<String> {
    let rule = d.rule.rsplit(':').next().unwrap_or(d.rule);
    let any = |fs: &[&str]| fs.iter().any(|f| has(c, f));
    let shape = if any(&["in_subquery", "not_in_subquery", "exists", "not_exists", "scalar_subquery"]) {
        "subquery"
    } else if any(&["join_left", "join_right", "join_full", "join_semi", "join_anti"]) {
        "non-inner-join"
    } else if any(&["union", "union_all", "intersect", "intersect_all", "except", "except_all"]) {
        "set-operation"
    } else if any(&["cte"]) {
        "cte"
    } else {
        return None;
    };
    Some(format!("opt-{}-{}", rule, shape))
}

fn classify(core: bool, c: &OptCase, ev: &BTreeSet<&'static str>, d: &Diff) -> Option<String> {
    classify_precise(c, ev, d).map(|s| s.to_string()).or_else(|| if core { None } else { classify_coarse(c, d) })
}

pub struct OptVsUnopt {
    pub core: bool,
    /// run the single-rule / prefix configurations on the memory registration too
    pub all_configs_everywhere: bool,
}

struct Side<'a> {
    ctx: &'a ExecutionContext,
    with_stats: bool,
}

impl OptVsUnopt {
    #[allow(clippy::too_many_arguments)]
    fn side(&self, c: &OptCase, s: &Side, sql: &str, reference: Option<&RefAnswer>, events: &BTreeSet<&'static str>, obs: &mut Obs) -> Result<(), (Option<String>, String)> {
        let tag = if s.with_stats { "stats" } else { "nostats" };
        let q = &c.sql_case.query;
        let bound = match bind(s.ctx, sql) {
            Ok(p) => p,
            Err(e) => {
                obs.label(format!("bind_error:{}", short_err(&e)));
                return Ok(());
            }
        };
        let bound_text = plan_text(&bound);
        let stats = if s.with_stats { stats_of(s.ctx) } else { HashMap::new() };
        let unopt = execute_logical(s.ctx, &bound);
        let prod_plan = optimize_production(&stats, &bound);
        if let Ok(p) = &prod_plan {
            let t = plan_text(p);
            if t != bound_text {
                obs.nontrivial(true);
                obs.label(format!("{}:optimizer_changed_plan", tag));
            }
            if s.with_stats {
                if let Ok(p0) = optimize_production(&HashMap::new(), &bound) {
                    if plan_text(&p0) != t {
                        obs.label("statistics_rule_fired");
                    }
                }
            }
            for node in ["VectorSearch", "__fd_", "__ea_", "__pk", "__topk_key", "__having_total_cse_", "DelimJoin"] {
                if t.contains(node) {
                    obs.label(format!("plan_has:{}", node));
                }
            }
        }
        // the production path proper
        let opt = run_sql(s.ctx, sql);
        let base = match (&unopt, &opt) {
            (Err(_), Err(_)) => {
                obs.label(format!("{}:both_error", tag));
                return Ok(());
            }
            (Err(e), Ok(_)) => {
                obs.label(format!("{}:unoptimized_not_executable:{}", tag, short_err(e)));
                return Ok(());
            }
            (Ok(_), Err(e)) => {
                // optimizer-internal / plan-validity failure: C31's business
                obs.label(format!("{}:only_optimized_errors:{}", tag, short_err(e)));
                unopt.as_ref().unwrap()
            }
            (Ok(a), Ok(b)) => {
                match compare(q, reference, a, b, 1e-9) {
                    Cmp::Same => obs.label(format!("{}:same", tag)),
                    Cmp::Inconclusive(why) => obs.label(format!("{}:inconclusive:{}", tag, why)),
                    Cmp::Differ(msg) => {
                        let (rule, detail) = self.narrow(s, q, reference, &bound, &stats, a);
                        obs.label(format!("differ:{}", rule));
                        let full = format!(
                            "[production / {}] optimized answer differs from unoptimized; first rule that changes the answer: {}\n{}\n{}\n sql: {}\n ref-events: {:?}\n bound plan:\n{} optimized plan:\n{} tables: {}",
                            tag,
                            rule,
                            detail,
                            msg,
                            sql,
                            events,
                            bound,
                            prod_plan.as_ref().map(|p| p.to_string()).unwrap_or_else(|e| e.clone()),
                            fmt_tables(&c.sql_case.tables)
                        );
                        let d = Diff { rule: &rule, stats: s.with_stats, msg: &msg, bound: &bound, rewritten: prod_plan.as_ref().ok() };
                        return Err((classify(self.core, c, events, &d), full));
                    }
                }
                a
            }
        };
        // each rule alone, each prefix (quick tier: on the statistics-bearing side only)
        if !s.with_stats && !self.all_configs_everywhere {
            return Ok(());
        }
        let mut seen: HashMap<String, ()> = HashMap::new();
        seen.insert(bound_text.clone(), ());
        if let Ok(p) = &prod_plan {
            if opt.is_ok() {
                seen.insert(plan_text(p), ());
            }
        }
        for (name, rules) in configurations() {
            let plan = match optimize_with(rules, &stats, &bound) {
                Ok(p) => p,
                Err(_) => {
                    obs.label(format!("{}:config_optimize_error", tag));
                    continue;
                }
            };
            let t = plan_text(&plan);
            if seen.contains_key(&t) {
                continue;
            }
            seen.insert(t, ());
            obs.label(format!("ran:{}", name.split(':').next().unwrap_or("")));
            match execute_logical(s.ctx, &plan) {
                Err(e) => obs.label(format!("{}:config_exec_error:{}", tag, short_err(&e))),
                Ok(rows) => match compare(q, reference, base, &rows, 1e-9) {
                    Cmp::Same => {}
                    Cmp::Inconclusive(why) => obs.label(format!("{}:config_inconclusive:{}", tag, why)),
                    Cmp::Differ(msg) => {
                        let rule = name.rsplit(':').next().unwrap_or("").to_string();
                        obs.label(format!("differ:{}", rule));
                        let full = format!(
                            "[{} / {}] answer of the plan rewritten by this rule configuration differs from unoptimized (the production pipeline's answer did not)\n{}\n sql: {}\n ref-events: {:?}\n bound plan:\n{} rewritten plan:\n{} tables: {}",
                            name,
                            tag,
                            msg,
                            sql,
                            events,
                            bound,
                            plan,
                            fmt_tables(&c.sql_case.tables)
                        );
                        let d = Diff { rule: &rule, stats: s.with_stats, msg: &msg, bound: &bound, rewritten: Some(&plan) };
                        return Err((classify(self.core, c, events, &d), full));
                    }
                },
            }
        }
        Ok(())
    }

    /// first single rule, else first prefix, whose plan's answer differs from the baseline
    fn narrow(&self, s: &Side, q: &Query, reference: Option<&RefAnswer>, bound: &LogicalPlan, stats: &HashMap<String, query_engine::physical::operators::TableStatistics>, base: &Rows) -> (String, String) {
        let mut first_prefix: Option<(String, String)> = None;
        for (name, rules) in configurations() {
            let plan = match optimize_with(rules, stats, bound) {
                Ok(p) => p,
                Err(_) => continue,
            };
            if let Ok(rows) = execute_logical(s.ctx, &plan) {
                if let Cmp::Differ(_) = compare(q, reference, base, &rows, 1e-9) {
                    let rule = name.rsplit(':').next().unwrap_or("").to_string();
                    if name.starts_with("alone:") {
                        return (rule, format!(" narrowed by: {} (this rule alone changes the answer)\n plan after that rule alone:\n{}", name, plan));
                    } else if first_prefix.is_none() {
                        first_prefix = Some((rule, format!(" narrowed by: {} (no single rule changes the answer; this is the shortest prefix of the production order that does)\n plan after that prefix:\n{}", name, plan)));
                    }
                }
            }
        }
        first_prefix.unwrap_or_else(|| ("pipeline".to_string(), " narrowed by: nothing — only the complete production pipeline (fixpoint iteration) changes the answer".to_string()))
    }
}

impl Check for OptVsUnopt {
    type Case = OptCase;
    fn name(&self) -> &'static str {
        if self.core {
            "optimized_vs_unoptimized_core"
        } else {
            "optimized_vs_unoptimized_full"
        }
    }
    fn rule(&self) -> &'static str {
        "the statement binds, the unoptimized plan executes, and the production optimizer's plan text differs from the bound plan's (labels count separately the cases where a statistics rule fired: plan with footer statistics != plan without)"
    }
    fn cases(&self, tier: Tier) -> u32 {
        if self.core {
            tier.pick(400, 30_000)
        } else {
            tier.pick(300, 20_000)
        }
    }
    fn max_shrink_iters(&self) -> u32 {
        150
    }
    fn strategy(&self, tier: Tier) -> BoxedStrategy<OptCase> {
        opt_case_strategy_mode(tier, self.core)
    }
    fn test(&self, c: &OptCase, obs: &mut Obs) -> Verdict {
        let sql = c.sql_case.query.sql();
        for f in &c.sql_case.features {
            if f.starts_with("shape:") {
                obs.label(f.clone());
            }
        }
        obs.sample(serde_json::json!({"sql": sql}));
        let q = &c.sql_case.query;
        if (q.limit.is_some() || q.offset.is_some()) && q.order_by.is_empty() {
            return Verdict::Discard("limit_without_order".into());
        }
        let db = Db::new(&c.sql_case.tables);
        let reference = match db.run(q) {
            Ok(r) => Some(r),
            Err(e) => {
                // (a column the standard does not put in scope, e.g. `a, b JOIN c ON a.x = c.x`)
                if e.contains("engine-defined") || e.contains("overflow") || e.contains("unknown column") || e.contains("ambiguous column") {
                    return Verdict::Discard(format!("ref:{}", short_err(&e)));
                }
                obs.label(format!("no_reference:{}", short_err(&e)));
                None
            }
        };
        let events = db.events.borrow().clone();
        let mem = mem_context(c);
        let dir = TempDir::new("c03");
        let pq = match parquet_context(c, &dir) {
            Ok(x) => x,
            Err(e) => return Verdict::Discard(format!("parquet_registration:{}", short_err(&e))),
        };
        for s in [Side { ctx: &pq, with_stats: true }, Side { ctx: &mem, with_stats: false }] {
            if let Err((id, msg)) = self.side(c, &s, &sql, reference.as_ref(), &events, obs) {
                return match id {
                    Some(id) => Verdict::Known { id, msg },
                    None => Verdict::Fail(msg),
                };
            }
        }
        Verdict::Pass
    }
}

/// Third check: the *key-packing* rules. PackedJoinKeys / PackedGroupKeys encode
/// two integer keys as one using bounds from footer statistics; the encoding is
/// only injective when the bounds cover BOTH sides' columns. The general table
/// generator gives all key columns of a join similar domains; this one gives
/// every column its own width (2 … 70 000) and INTEGER or BIGINT keys, and
/// generates only the shapes the two rules fire on. Same differential oracle.
pub struct PackedKeys;

impl Check for PackedKeys {
    type Case = OptCase;
    fn name(&self) -> &'static str {
        "packed_integer_keys"
    }
    fn rule(&self) -> &'static str {
        "the statement binds, the unoptimized plan executes, and the production optimizer's plan text differs from the bound plan's (two-key joins / two-key GROUP BY over Parquet tables whose key columns have pairwise different domain widths)"
    }
    fn cases(&self, tier: Tier) -> u32 {
        tier.pick(400, 30_000)
    }
    fn max_shrink_iters(&self) -> u32 {
        150
    }
    fn strategy(&self, tier: Tier) -> BoxedStrategy<OptCase> {
        opt_case_strategy_packing(tier)
    }
    fn test(&self, c: &OptCase, obs: &mut Obs) -> Verdict {
        OptVsUnopt { core: true, all_configs_everywhere: false }.test(c, obs)
    }
}

pub fn property() -> Property {
    Property {
        id: "C03",
        level: "exploration",
        assumptions: &[
            "'the same rows' = multiset equality; with ORDER BY, the same tie-group positions; with LIMIT/OFFSET, rows of the boundary tie group in any choice (DESIGN §3.4) — decided through the reference evaluator where the statement is inside its dialect, otherwise LIMIT cases with different rows are counted inconclusive",
            "statements whose reference evaluation overflows / yields -0.0 are engine-defined and discarded",
            "exactly one side failing with an error is not an answer change: an optimizer-side error is C31's subject, an unexecutable bound plan is inconclusive",
        ],
        checks: vec![Box::new(OptVsUnopt { core: true, all_configs_everywhere: false }), Box::new(OptVsUnopt { core: false, all_configs_everywhere: false }), Box::new(PackedKeys)],
    }
}
