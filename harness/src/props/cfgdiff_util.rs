//! Shared by C04 / C07 / C08 (engine-vs-engine *configuration differentials*):
//! compact table specifications (many rows from a few numbers), a focused
//! statement generator (scans, joins of every kind and key type, grouped /
//! global / distinct aggregates, sort / top-k), the answer comparison
//! (multiset + ORDER BY key sequence), and the `refsql` third opinion that is
//! only ever printed in failure messages.
#![allow(dead_code)]

use crate::data::*;
use crate::refsql::Db;
use crate::sqlast::*;
use crate::sqlgen::Tape;
use proptest::prelude::*;
use serde::{Deserialize, Serialize};

// ---------------------------------------------------------------------------
// compact tables
// ---------------------------------------------------------------------------

#[derive(Clone, Debug, Serialize, Deserialize, PartialEq)]
pub struct ColSpec {
    pub name: String,
    pub ty: ColType,
    /// number of distinct non-NULL values
    pub domain: u32,
    pub null_pct: u32,
    /// integers / dates: value = base + k * stride (dense when stride = 1)
    pub base: i64,
    pub stride: i64,
}

#[derive(Clone, Debug, Serialize, Deserialize, PartialEq)]
pub struct TableSpec {
    pub name: String,
    pub cols: Vec<ColSpec>,
    pub n_rows: usize,
    pub seed: u64,
}

fn splitmix(mut x: u64) -> u64 {
    x = x.wrapping_add(0x9E3779B97F4A7C15);
    let mut z = x;
    z = (z ^ (z >> 30)).wrapping_mul(0xBF58476D1CE4E5B9);
    z = (z ^ (z >> 27)).wrapping_mul(0x94D049BB133111EB);
    z ^ (z >> 31)
}

const WORDS: [&str; 10] = ["", "a", "ab", "b", "B", "a%", "é", "abc", "aa", "Z"];

impl ColSpec {
    /// the k-th value of the column's domain
    pub fn value(&self, k: u32) -> Value {
        match self.ty {
            ColType::Int => Value::Int(self.base + k as i64 * self.stride),
            ColType::Int32 => Value::Int((self.base + k as i64 * self.stride).clamp(i32::MIN as i64, i32::MAX as i64)),
            ColType::Double => Value::Double((k as i64 - (self.domain / 2) as i64) as f64 * 0.25),
            ColType::Str => {
                if (k as usize) < WORDS.len() {
                    Value::Str(WORDS[k as usize].to_string())
                } else {
                    Value::Str(format!("s{:04}", k))
                }
            }
            ColType::Date => Value::Date((10957 + self.base.clamp(-3000, 3000) + k as i64 * self.stride.clamp(1, 40)) as i32),
            ColType::Bool => Value::Bool(k % 2 == 1),
        }
    }
    pub fn eff_domain(&self) -> u32 {
        match self.ty {
            ColType::Bool => self.domain.clamp(1, 2),
            _ => self.domain.max(1),
        }
    }
}

impl TableSpec {
    /// Deterministic expansion: cell (i, j) depends only on (seed, i, j).
    pub fn expand(&self) -> Table {
        let mut rows = Vec::with_capacity(self.n_rows);
        for i in 0..self.n_rows {
            let mut row = Vec::with_capacity(self.cols.len());
            for (j, c) in self.cols.iter().enumerate() {
                let r = splitmix(self.seed ^ splitmix((i as u64) << 8 | j as u64));
                if (r % 100) < c.null_pct as u64 {
                    row.push(Value::Null);
                } else {
                    let k = ((r >> 16) % c.eff_domain() as u64) as u32;
                    row.push(c.value(k));
                }
            }
            rows.push(row);
        }
        Table {
            name: self.name.clone(),
            cols: self.cols.iter().map(|c| Column { name: c.name.clone(), ty: c.ty }).collect(),
            rows,
        }
    }
}

#[derive(Clone, Debug)]
pub struct TablesProfile {
    pub max_tables: usize,
    pub min_rows: usize,
    pub max_rows: usize,
    pub max_cols: usize,
    pub types: Vec<ColType>,
    pub domains: Vec<u32>,
    pub null_pcts: Vec<u32>,
    /// allow sparse integer ranges (stride ≫ 1) and non-zero bases
    pub sparse: bool,
    /// with weight 1 in 10, a row count from this range instead
    pub big_rows: Option<(usize, usize)>,
}

pub fn col_spec_strategy(tp: &TablesProfile) -> BoxedStrategy<(ColType, u32, u32, i64, i64)> {
    let strides: Vec<i64> = if tp.sparse { vec![1, 1, 1, 2, 1000, 1 << 33] } else { vec![1] };
    let bases: Vec<i64> = if tp.sparse { vec![0, 0, 1, -3, 100_000] } else { vec![0] };
    (
        proptest::sample::select(tp.types.clone()),
        proptest::sample::select(tp.domains.clone()),
        proptest::sample::select(tp.null_pcts.clone()),
        proptest::sample::select(bases),
        proptest::sample::select(strides),
    )
        .boxed()
}

pub fn table_spec_strategy(name: &'static str, tp: TablesProfile) -> BoxedStrategy<TableSpec> {
    (
        proptest::collection::vec(col_spec_strategy(&tp), 2..=tp.max_cols.max(2)),
        match tp.big_rows {
            Some((lo, hi)) => prop_oneof![9 => tp.min_rows..=tp.max_rows, 1 => lo..=hi].boxed(),
            None => (tp.min_rows..=tp.max_rows).boxed(),
        },
        any::<u64>(),
    )
        .prop_map(move |(cols, n_rows, seed)| TableSpec {
            name: name.to_string(),
            cols: cols
                .into_iter()
                .enumerate()
                .map(|(i, (ty, domain, null_pct, base, stride))| ColSpec {
                    name: ["a", "b", "c", "d", "e", "f"][i % 6].to_string(),
                    ty,
                    domain,
                    null_pct,
                    base,
                    stride: if ty == ColType::Int32 && stride > 1_000_000 { 1000 } else { stride },
                })
                .collect(),
            n_rows,
            seed,
        })
        .boxed()
}

pub fn tables_spec_strategy(tp: TablesProfile) -> BoxedStrategy<Vec<TableSpec>> {
    let names = ["r", "s"];
    (1..=tp.max_tables.clamp(1, 2))
        .prop_flat_map(move |n| (0..n).map(|i| table_spec_strategy(names[i], tp.clone())).collect::<Vec<_>>())
        .boxed()
}

/// Batch cut points from selectors (monotone mapping, shrinks towards no cuts).
pub fn cuts_from(sels: &[u16], n_rows: usize) -> Vec<usize> {
    let mut v: Vec<usize> = sels.iter().map(|s| pick_idx(*s, n_rows + 1)).collect();
    v.sort();
    v
}

// ---------------------------------------------------------------------------
// statements
// ---------------------------------------------------------------------------

#[derive(Clone, Debug)]
pub struct GenOpts {
    pub filter_pct: u32,
    pub joins: bool,
    pub outer: bool,
    pub semi_anti: bool,
    pub cross: bool,
    pub aggs: bool,
    pub global_agg: bool,
    pub distinct: bool,
    pub count_distinct: bool,
    pub having: bool,
    pub order_pct: u32,
    /// LIMIT only together with an ORDER BY over all output columns
    pub limit_pct: u32,
    pub offset: bool,
    pub nulls_order: bool,
    pub union_all: bool,
    /// also BOOLEAN / DOUBLE join keys
    pub odd_join_keys: bool,
    /// upper bound on the estimated join output
    pub max_join_rows: u64,
    /// probability (pct) that a generated join is a self join
    pub self_join_pct: u32,
    /// percentage of statements that are plain scans
    pub w_scan: u32,
    pub w_join: u32,
    /// chance that an aggregate statement gets MIN + MAX + COUNT(DISTINCT) appended (0 = never)
    pub mixed_agg_list_pct: u32,
    pub w_agg: u32,
    pub w_distinct: u32,
    pub w_union: u32,
    /// grouped aggregates may use keys that are NULL for some row
    pub null_group_keys_pct: u32,
    /// share of MIN/MAX(VARCHAR) aggregates kept when the FROM is a join
    pub minmax_str_over_join_pct: u32,
    /// share of un-ordered statements that get a bare `LIMIT k` (0 = never)
    pub unordered_limit_pct: u32,
    /// weight of the "one integer key, COUNT/SUM/AVG" shape (morsel dense path)
    pub w_dense_agg: u32,
    /// share of base-table references written without an alias
    pub no_alias_pct: u32,
}

impl Default for GenOpts {
    fn default() -> Self {
        GenOpts {
            filter_pct: 50,
            joins: true,
            outer: true,
            semi_anti: true,
            cross: true,
            aggs: true,
            global_agg: true,
            distinct: true,
            count_distinct: true,
            having: true,
            order_pct: 50,
            limit_pct: 40,
            offset: true,
            nulls_order: true,
            union_all: false,
            odd_join_keys: true,
            max_join_rows: 60_000,
            self_join_pct: 20,
            w_scan: 25,
            w_join: 25,
            mixed_agg_list_pct: 0,
            w_agg: 35,
            w_distinct: 15,
            w_union: 0,
            null_group_keys_pct: 100,
            minmax_str_over_join_pct: 15,
            unordered_limit_pct: 0,
            w_dense_agg: 0,
            no_alias_pct: 30,
        }
    }
}

#[derive(Clone, Debug, Serialize, Deserialize)]
pub struct Stmt {
    pub query: Query,
    /// output positions (0-based) of the ORDER BY keys, in key order
    pub order_keys: Vec<usize>,
    pub features: Vec<String>,
    pub uses_avg: bool,
}

#[derive(Clone)]
struct SCol {
    rel: String,
    spec: ColSpec,
}

struct SG<'a> {
    t: Tape,
    o: &'a GenOpts,
    tables: &'a [TableSpec],
    feats: Vec<String>,
    alias: usize,
    uses_avg: bool,
}

fn cex(c: &SCol) -> Expr {
    Expr::qcol(&c.rel, &c.spec.name)
}

impl<'a> SG<'a> {
    fn feat(&mut self, f: &str) {
        if !self.feats.iter().any(|x| x == f) {
            self.feats.push(f.to_string());
        }
    }
    fn fresh(&mut self, p: &str) -> String {
        self.alias += 1;
        format!("{}{}", p, self.alias)
    }
    fn rel(&mut self, ti: usize, must_alias: bool) -> (From, Vec<SCol>) {
        let t = &self.tables[ti];
        if !must_alias && self.t.chance(self.o.no_alias_pct) {
            // un-aliased base table (an alias puts a SubqueryAlias node above the
            // scan, which keeps the planner off the Parquet fast paths)
            self.feat("no_alias");
            let n = t.name.clone();
            return (From::Table { name: n.clone(), alias: None }, t.cols.iter().map(|c| SCol { rel: n.clone(), spec: c.clone() }).collect());
        }
        let a = self.fresh("t");
        (
            From::Table { name: t.name.clone(), alias: Some(a.clone()) },
            t.cols.iter().map(|c| SCol { rel: a.clone(), spec: c.clone() }).collect(),
        )
    }
    fn lit(&mut self, c: &ColSpec) -> Expr {
        // a value of the column's domain (or just outside of it)
        let d = c.eff_domain();
        let k = self.t.pick(d as usize + 1) as u32;
        Expr::Lit(c.value(k))
    }
    fn cmp(&mut self, cols: &[SCol]) -> Expr {
        let c = cols[self.t.pick(cols.len())].clone();
        let e = cex(&c);
        match self.t.pick(9) {
            0 | 1 | 2 | 3 => {
                if c.spec.ty == ColType::Bool {
                    return if self.t.chance(50) { e } else { Expr::Not(Box::new(e)) };
                }
                let op = [BinOp::Lt, BinOp::Ge, BinOp::Eq, BinOp::Ne, BinOp::Le, BinOp::Gt][self.t.pick(6)];
                let l = self.lit(&c.spec);
                Expr::bin(e, op, l)
            }
            4 => {
                self.feat("is_null");
                Expr::IsNull { e: Box::new(e), neg: self.t.chance(50) }
            }
            5 if c.spec.ty != ColType::Bool => {
                self.feat("between");
                let lo = self.lit(&c.spec);
                let hi = self.lit(&c.spec);
                Expr::Between { e: Box::new(e), lo: Box::new(lo), hi: Box::new(hi), neg: self.t.chance(25) }
            }
            6 if c.spec.ty != ColType::Bool => {
                self.feat("in_list");
                let n = 1 + self.t.pick(3);
                let list = (0..n).map(|_| self.lit(&c.spec)).collect();
                Expr::InList { e: Box::new(e), list, neg: self.t.chance(30) }
            }
            7 => {
                // column-to-column comparison of the same type
                let same: Vec<SCol> = cols.iter().filter(|x| x.spec.ty == c.spec.ty && c.spec.ty != ColType::Bool).cloned().collect();
                if same.len() >= 2 {
                    let d = same[self.t.pick(same.len())].clone();
                    let op = [BinOp::Lt, BinOp::Eq, BinOp::Ne, BinOp::Ge][self.t.pick(4)];
                    Expr::bin(e, op, cex(&d))
                } else {
                    Expr::IsNull { e: Box::new(e), neg: true }
                }
            }
            _ => {
                if c.spec.ty == ColType::Bool {
                    return e;
                }
                let l = self.lit(&c.spec);
                Expr::bin(e, BinOp::Le, l)
            }
        }
    }
    fn pred(&mut self, cols: &[SCol]) -> Expr {
        match self.t.pick(6) {
            0 | 1 | 2 => self.cmp(cols),
            3 => {
                self.feat("and");
                let a = self.cmp(cols);
                let b = self.cmp(cols);
                Expr::and(a, b)
            }
            4 => {
                self.feat("or");
                let a = self.cmp(cols);
                let b = self.cmp(cols);
                Expr::bin(a, BinOp::Or, b)
            }
            _ => {
                self.feat("not");
                Expr::Not(Box::new(self.cmp(cols)))
            }
        }
    }

    /// FROM clause: one relation or a two-way join. Returns the visible columns.
    fn from(&mut self, want_join: bool) -> (Vec<From>, Vec<SCol>, Option<Expr>) {
        let ti = self.t.pick(self.tables.len());
        if !(want_join && self.o.joins) {
            let (lf, lcols) = self.rel(ti, false);
            return (vec![lf], lcols, None);
        }
        let tj = if self.t.chance(self.o.self_join_pct) { ti } else { self.t.pick(self.tables.len()) };
        let (lf, lcols) = self.rel(ti, ti == tj);
        let (rf, rcols) = self.rel(tj, ti == tj);
        let (n1, n2) = (self.tables[ti].n_rows as u64, self.tables[tj].n_rows as u64);
        // candidate equi pairs
        let mut pairs: Vec<(SCol, SCol)> = vec![];
        for a in &lcols {
            for b in &rcols {
                let ok_ty = match a.spec.ty {
                    ColType::Bool | ColType::Double => self.o.odd_join_keys,
                    _ => true,
                };
                if a.spec.ty == b.spec.ty && ok_ty {
                    pairs.push((a.clone(), b.clone()));
                }
            }
        }
        let est = |ps: &[(SCol, SCol)]| -> u64 {
            let mut d = 1u64;
            for (a, b) in ps {
                d = d.saturating_mul(a.spec.eff_domain().max(b.spec.eff_domain()) as u64);
            }
            n1.saturating_mul(n2) / d.max(1)
        };
        let mut kinds = vec![JoinKind::Inner, JoinKind::Inner];
        if self.o.outer {
            kinds.extend([JoinKind::Left, JoinKind::Right, JoinKind::Full]);
        }
        if self.o.semi_anti {
            kinds.extend([JoinKind::Semi, JoinKind::Anti]);
        }
        if self.o.cross && n1 * n2 <= self.o.max_join_rows {
            kinds.push(JoinKind::Cross);
        }
        let kind = kinds[self.t.pick(kinds.len())];
        if kind == JoinKind::Cross {
            self.feat("join_cross");
            let mut cols = lcols;
            cols.extend(rcols);
            return (vec![From::Join { l: Box::new(lf), r: Box::new(rf), kind, on: None }], cols, None);
        }
        if pairs.is_empty() {
            return (vec![lf], lcols, None);
        }
        let mut chosen = vec![pairs[self.t.pick(pairs.len())].clone()];
        if self.t.chance(30) || est(&chosen) > self.o.max_join_rows {
            // second key (also reduces the output)
            let rest: Vec<(SCol, SCol)> = pairs
                .iter()
                .filter(|(a, b)| a.spec.name != chosen[0].0.spec.name && b.spec.name != chosen[0].1.spec.name)
                .cloned()
                .collect();
            if !rest.is_empty() {
                // prefer the pair with the largest domain when we must shrink the output
                let idx = if est(&chosen) > self.o.max_join_rows {
                    let mut best = 0;
                    for (i, p) in rest.iter().enumerate() {
                        if p.0.spec.eff_domain().max(p.1.spec.eff_domain()) > rest[best].0.spec.eff_domain().max(rest[best].1.spec.eff_domain()) {
                            best = i;
                        }
                    }
                    let _ = self.t.pick(1);
                    best
                } else {
                    self.t.pick(rest.len())
                };
                chosen.push(rest[idx].clone());
                self.feat("join_multikey");
            }
        }
        if est(&chosen) > self.o.max_join_rows && !matches!(kind, JoinKind::Semi | JoinKind::Anti) {
            // too large: no join
            return (vec![lf], lcols, None);
        }
        self.feat(match kind {
            JoinKind::Inner => "join_inner",
            JoinKind::Left => "join_left",
            JoinKind::Right => "join_right",
            JoinKind::Full => "join_full",
            JoinKind::Semi => "join_semi",
            JoinKind::Anti => "join_anti",
            JoinKind::Cross => "join_cross",
        });
        for (a, _) in &chosen {
            self.feat(&format!("joinkey_{:?}", a.spec.ty));
        }
        if ti == tj {
            self.feat("self_join");
        }
        let on = chosen.iter().map(|(a, b)| Expr::eq(cex(a), cex(b))).reduce(Expr::and).unwrap();
        let mut cols = lcols;
        if !matches!(kind, JoinKind::Semi | JoinKind::Anti) {
            cols.extend(rcols);
        }
        (vec![From::Join { l: Box::new(lf), r: Box::new(rf), kind, on: Some(on) }], cols, None)
    }

    fn agg(&mut self, cols: &[SCol], joined: bool) -> (Expr, ColType) {
        let k = self.t.pick(8);
        if k == 0 {
            return (Expr::count_star(), ColType::Int);
        }
        let c = cols[self.t.pick(cols.len())].clone();
        let e = cex(&c);
        let ty = c.spec.ty;
        match k {
            1 => (Expr::agg(AggF::Count, e), ColType::Int),
            2 if self.o.count_distinct && ty != ColType::Double => {
                self.feat("count_distinct");
                (Expr::Agg { f: AggF::Count, arg: Some(Box::new(e)), distinct: true }, ColType::Int)
            }
            3 | 7 if ty.is_numeric() => (Expr::agg(AggF::Sum, e), if ty == ColType::Double { ColType::Double } else { ColType::Int }),
            4 if ty.is_numeric() => {
                self.uses_avg = true;
                (Expr::agg(AggF::Avg, e), ColType::Double)
            }
            5 | 6 if ty == ColType::Str && joined && !self.t.chance(self.o.minmax_str_over_join_pct) => {
                // open finding agg-minmax-string-after-join: mostly avoided
                (Expr::agg(AggF::Count, e), ColType::Int)
            }
            5 | 6 if ty != ColType::Bool => {
                if ty == ColType::Str {
                    self.feat("minmax_str");
                }
                (Expr::agg(if k == 5 { AggF::Min } else { AggF::Max }, e), ty)
            }
            _ => (Expr::agg(AggF::Count, e), ColType::Int),
        }
    }

    fn select(&mut self, shape: usize) -> (Select, Vec<(String, ColType)>) {
        // shape: 0 scan, 1 join, 2 agg, 3 distinct
        let want_join = shape == 1 || ((shape == 2 || shape == 3) && self.t.chance(30));
        let (from, cols, _) = self.from(want_join);
        let joined = matches!(from[0], From::Join { .. });
        let where_ = if self.t.chance(self.o.filter_pct) {
            self.feat("where");
            Some(self.pred(&cols))
        } else {
            None
        };
        if shape == 5 {
            // the shape the morsel "dense direct-address" aggregate accepts: one plain
            // BIGINT / INTEGER / DATE key, COUNT / SUM / AVG over plain columns
            let allow_null_keys = self.t.chance(self.o.null_group_keys_pct);
            let keys: Vec<SCol> = cols
                .iter()
                .filter(|c| matches!(c.spec.ty, ColType::Int | ColType::Int32 | ColType::Date) && (allow_null_keys || c.spec.null_pct == 0))
                .cloned()
                .collect();
            if !keys.is_empty() {
                let k = keys[self.t.pick(keys.len())].clone();
                self.feat("group_by");
                self.feat("dense_agg_shape");
                self.feat(&format!("groupkey_{:?}", k.spec.ty));
                if k.spec.null_pct > 0 {
                    self.feat("groupkey_nullable");
                }
                let mut items = vec![];
                let mut out = vec![];
                let a = self.fresh("c");
                items.push(Item::Expr(cex(&k), Some(a.clone())));
                out.push((a, k.spec.ty));
                let na = 1 + self.t.pick(3);
                for _ in 0..na {
                    let c = cols[self.t.pick(cols.len())].clone();
                    let (e, ty) = match (self.t.pick(4), c.spec.ty) {
                        (0, _) => (Expr::count_star(), ColType::Int),
                        (1, ColType::Double) | (2, ColType::Double) => (Expr::agg(AggF::Sum, cex(&c)), ColType::Double),
                        (1, ColType::Int) | (2, ColType::Int) => (Expr::agg(AggF::Sum, cex(&c)), ColType::Int),
                        (3, ColType::Double) => {
                            self.uses_avg = true;
                            (Expr::agg(AggF::Avg, cex(&c)), ColType::Double)
                        }
                        _ => (Expr::agg(AggF::Count, cex(&c)), ColType::Int),
                    };
                    let a = self.fresh("c");
                    items.push(Item::Expr(e, Some(a.clone())));
                    out.push((a, ty));
                }
                let group = Group::By(vec![cex(&k)]);
                return (Select { distinct: false, items, from, where_, group, having: None }, out);
            }
        }
        if (shape == 2 || shape == 5) && self.o.aggs {
            let nk = if self.o.global_agg { self.t.pick(4) } else { 1 + self.t.pick(3) };
            let nkeys = [0usize, 1, 1, 2][nk.min(3)];
            let allow_null_keys = self.t.chance(self.o.null_group_keys_pct);
            let mut keys: Vec<SCol> = vec![];
            for _ in 0..nkeys {
                let cands: Vec<&SCol> = cols.iter().filter(|c| allow_null_keys || c.spec.null_pct == 0).collect();
                if cands.is_empty() {
                    break;
                }
                let c = cands[self.t.pick(cands.len())].clone();
                if !keys.iter().any(|k| k.rel == c.rel && k.spec.name == c.spec.name) {
                    keys.push(c);
                }
            }
            // outer joins make every key nullable
            let mut items = vec![];
            let mut out = vec![];
            for k in &keys {
                let a = self.fresh("c");
                items.push(Item::Expr(cex(k), Some(a.clone())));
                out.push((a, k.spec.ty));
                self.feat(&format!("groupkey_{:?}", k.spec.ty));
                if k.spec.null_pct > 0 {
                    self.feat("groupkey_nullable");
                }
            }
            if keys.is_empty() {
                self.feat("global_agg");
            } else {
                self.feat("group_by");
            }
            let na = 1 + self.t.pick(3);
            let mut first = None;
            for _ in 0..na {
                let (e, ty) = self.agg(&cols, joined);
                first.get_or_insert(e.clone());
                let a = self.fresh("c");
                items.push(Item::Expr(e, Some(a.clone())));
                out.push((a, ty));
            }
            // an aggregate list that mixes kinds of accumulator state (MIN/MAX next to
            // COUNT(DISTINCT ..)): such a list cannot take the vectorized paths and goes through
            // the row-at-a-time hash aggregate with its per-chunk partial states and merge
            if self.o.mixed_agg_list_pct > 0 && self.t.chance(self.o.mixed_agg_list_pct) {
                let mm: Vec<SCol> = cols.iter().filter(|c| c.spec.ty != ColType::Bool && !(c.spec.ty == ColType::Str && joined)).cloned().collect();
                let cd: Vec<SCol> = cols.iter().filter(|c| c.spec.ty != ColType::Double).cloned().collect();
                if !mm.is_empty() && !cd.is_empty() {
                    self.feat("mixed_agg_list");
                    // prefer a nullable MIN/MAX argument: partial states that have seen only NULLs
                    let nullable: Vec<SCol> = mm.iter().filter(|c| c.spec.null_pct > 0).cloned().collect();
                    let pool = if nullable.is_empty() { mm } else { nullable };
                    for f in [AggF::Min, AggF::Max] {
                        let c = pool[self.t.pick(pool.len())].clone();
                        let a = self.fresh("c");
                        items.push(Item::Expr(Expr::agg(f, cex(&c)), Some(a.clone())));
                        out.push((a, c.spec.ty));
                    }
                    let c = cd[self.t.pick(cd.len())].clone();
                    let a = self.fresh("c");
                    items.push(Item::Expr(Expr::Agg { f: AggF::Count, arg: Some(Box::new(cex(&c))), distinct: true }, Some(a.clone())));
                    out.push((a, ColType::Int));
                }
            }
            let having = if self.o.having && !keys.is_empty() && self.t.chance(25) {
                self.feat("having");
                let op = [BinOp::Gt, BinOp::Le, BinOp::Ne][self.t.pick(3)];
                Some(Expr::bin(Expr::count_star(), op, Expr::int(1 + self.t.pick(4) as i64)))
            } else {
                None
            };
            let group = if keys.is_empty() { Group::None } else { Group::By(keys.iter().map(cex).collect()) };
            return (Select { distinct: false, items, from, where_, group, having }, out);
        }
        // projection
        let n = 1 + self.t.pick(cols.len().min(5));
        let mut items = vec![];
        let mut out = vec![];
        let mut used: Vec<usize> = vec![];
        for _ in 0..n {
            let i = self.t.pick(cols.len());
            if used.contains(&i) && shape == 3 {
                continue;
            }
            used.push(i);
            let c = &cols[i];
            let a = self.fresh("c");
            let (e, ty) = if c.spec.ty == ColType::Int && c.spec.stride.abs() <= 1000 && self.t.chance(15) {
                self.feat("arith");
                (Expr::bin(cex(c), BinOp::Add, Expr::int(1)), ColType::Int)
            } else {
                (cex(c), c.spec.ty)
            };
            items.push(Item::Expr(e, Some(a.clone())));
            out.push((a, ty));
        }
        let distinct = shape == 3 && self.o.distinct;
        if distinct {
            self.feat("distinct");
        }
        (Select { distinct, items, from, where_, group: Group::None, having: None }, out)
    }

    fn stmt(&mut self) -> Stmt {
        let o = self.o;
        let total = (o.w_scan + o.w_join + o.w_agg + o.w_distinct + o.w_union + o.w_dense_agg).max(1) as usize;
        let r = self.t.pick(total) as u32;
        let shape = if r < o.w_scan {
            0
        } else if r < o.w_scan + o.w_join {
            1
        } else if r < o.w_scan + o.w_join + o.w_agg {
            2
        } else if r < o.w_scan + o.w_join + o.w_agg + o.w_distinct {
            3
        } else if r < o.w_scan + o.w_join + o.w_agg + o.w_distinct + o.w_union {
            4
        } else {
            5
        };
        let (body, out) = if shape == 4 {
            self.feat("union_all");
            let (s1, out) = self.select(0);
            // second branch: same output types from any table (cast-free): reuse the same table
            let s2 = {
                let mut s = s1.clone();
                // re-filter differently
                let cols: Vec<SCol> = match &s.from[0] {
                    From::Table { name, alias } => {
                        let t = self.tables.iter().find(|t| &t.name == name).unwrap();
                        t.cols.iter().map(|c| SCol { rel: alias.clone().unwrap_or_else(|| name.clone()), spec: c.clone() }).collect()
                    }
                    _ => vec![],
                };
                s.where_ = if cols.is_empty() || !self.t.chance(60) { None } else { Some(self.pred(&cols)) };
                s
            };
            (
                SetExpr::Op { op: SetOp::Union, all: true, l: Box::new(SetExpr::Select(Box::new(s1))), r: Box::new(SetExpr::Select(Box::new(s2))) },
                out,
            )
        } else {
            let (s, out) = self.select(shape as usize);
            (SetExpr::Select(Box::new(s)), out)
        };
        self.feat(["shape_scan", "shape_join", "shape_agg", "shape_distinct", "shape_union", "shape_agg"][shape as usize]);
        let mut q = Query::of(body);
        let mut order_keys = vec![];
        if self.t.chance(o.order_pct) && !out.is_empty() {
            self.feat("order_by");
            let with_limit = self.t.chance(o.limit_pct);
            let nk = 1 + self.t.pick(out.len().min(3));
            let mut idxs: Vec<usize> = vec![];
            for _ in 0..nk {
                let i = self.t.pick(out.len());
                if !idxs.contains(&i) {
                    idxs.push(i);
                }
            }
            if with_limit {
                // total order: every output column is a key
                for i in 0..out.len() {
                    if !idxs.contains(&i) {
                        idxs.push(i);
                    }
                }
            }
            for &i in &idxs {
                let desc = self.t.chance(40);
                let nulls_first = if o.nulls_order && self.t.chance(45) { Some(self.t.chance(60)) } else { None };
                if desc {
                    self.feat("order_desc");
                }
                if nulls_first == Some(true) {
                    self.feat("order_nulls_first");
                }
                self.feat(&format!("orderkey_{:?}", out[i].1));
                let e = if self.t.chance(20) { Expr::int(i as i64 + 1) } else { Expr::col(&out[i].0) };
                q.order_by.push(OrderKey { e, desc, nulls_first });
            }
            order_keys = idxs;
            if with_limit {
                self.feat("limit");
                q.limit = Some([0u64, 1, 3, 10, 100, 1000][self.t.pick(6)]);
                if o.offset && self.t.chance(25) {
                    self.feat("offset");
                    q.offset = Some([1u64, 5, 50][self.t.pick(3)]);
                }
            }
        } else if o.unordered_limit_pct > 0 && self.t.chance(o.unordered_limit_pct) {
            // LIMIT without ORDER BY: any k rows of the un-limited answer are right;
            // only checks that compare with `limit_unordered_ok` may enable this
            self.feat("limit_unordered");
            q.limit = Some([0u64, 1, 3, 10, 100, 1000][self.t.pick(6)]);
        }
        Stmt { query: q, order_keys, features: std::mem::take(&mut self.feats), uses_avg: self.uses_avg }
    }
}

pub fn gen_stmt(tape: Vec<u16>, tables: &[TableSpec], o: &GenOpts) -> Stmt {
    let mut g = SG { t: Tape::new(tape), o, tables, feats: vec![], alias: 0, uses_avg: false };
    g.stmt()
}

// ---------------------------------------------------------------------------
// comparison
// ---------------------------------------------------------------------------

fn project(rows: &Rows, keys: &[usize]) -> Rows {
    rows.iter().map(|r| keys.iter().map(|k| r.get(*k).cloned().unwrap_or(Value::Null)).collect()).collect()
}

/// Two answers of the same statement under two configurations: equal as
/// multisets, and — when the statement has an ORDER BY — the sequences of
/// ORDER BY key vectors are identical (rows that tie on every key may be in
/// any order; two correctly sorted answers always have the same key sequence).
pub fn same_answer(a: &Rows, b: &Rows, order_keys: &[usize], tol: f64) -> Result<(), String> {
    if a.len() != b.len() {
        return Err(format!("row counts differ: {} vs {}", a.len(), b.len()));
    }
    if !multiset_eq(a, b, tol) {
        return Err("row multisets differ".to_string());
    }
    if !order_keys.is_empty() {
        let (ka, kb) = (project(a, order_keys), project(b, order_keys));
        if !rows_eq(&ka, &kb, tol) {
            let pos = ka.iter().zip(kb.iter()).position(|(x, y)| !rows_eq(std::slice::from_ref(x), std::slice::from_ref(y), tol)).unwrap_or(0);
            return Err(format!(
                "same multiset but different ORDER BY key sequence (first difference at output position {}: {:?} vs {:?})",
                pos,
                ka[pos].iter().map(fmt_value).collect::<Vec<_>>(),
                kb[pos].iter().map(fmt_value).collect::<Vec<_>>()
            ));
        }
    }
    Ok(())
}

/// `LIMIT k` without ORDER BY: any `min(k, |full|)` rows of the un-limited
/// answer `full` are a right answer.
pub fn limit_unordered_ok(full: &Rows, got: &Rows, k: u64) -> Result<(), String> {
    let want = (k as usize).min(full.len());
    if got.len() != want {
        return Err(format!("LIMIT {} over {} rows returned {} rows (expected {})", k, full.len(), got.len(), want));
    }
    let (_, extra) = sym_diff(full, got);
    if !extra.is_empty() {
        return Err(format!("LIMIT {} returned rows that are not in the un-limited answer:\n{}", k, fmt_rows(&extra, 8)));
    }
    Ok(())
}

/// Multiset difference summary (rows only in a / only in b), for messages.
pub fn diff_summary(a: &Rows, b: &Rows, max: usize) -> String {
    let mut x = a.clone();
    let mut y = b.clone();
    canon_sort(&mut x);
    canon_sort(&mut y);
    let (mut i, mut j) = (0, 0);
    let (mut only_a, mut only_b): (Rows, Rows) = (vec![], vec![]);
    while i < x.len() && j < y.len() {
        match row_cmp(&x[i], &y[j]) {
            std::cmp::Ordering::Equal => {
                i += 1;
                j += 1;
            }
            std::cmp::Ordering::Less => {
                only_a.push(x[i].clone());
                i += 1;
            }
            std::cmp::Ordering::Greater => {
                only_b.push(y[j].clone());
                j += 1;
            }
        }
    }
    only_a.extend(x[i..].iter().cloned());
    only_b.extend(y[j..].iter().cloned());
    format!(
        " rows only in first ({}):\n{} rows only in second ({}):\n{}",
        only_a.len(),
        fmt_rows(&only_a, max),
        only_b.len(),
        fmt_rows(&only_b, max)
    )
}

/// rows present in exactly one of the two answers
pub fn sym_diff(a: &Rows, b: &Rows) -> (Rows, Rows) {
    let mut x = a.clone();
    let mut y = b.clone();
    canon_sort(&mut x);
    canon_sort(&mut y);
    let (mut i, mut j) = (0, 0);
    let (mut only_a, mut only_b): (Rows, Rows) = (vec![], vec![]);
    while i < x.len() && j < y.len() {
        match row_cmp(&x[i], &y[j]) {
            std::cmp::Ordering::Equal => {
                i += 1;
                j += 1;
            }
            std::cmp::Ordering::Less => {
                only_a.push(x[i].clone());
                i += 1;
            }
            std::cmp::Ordering::Greater => {
                only_b.push(y[j].clone());
                j += 1;
            }
        }
    }
    only_a.extend(x[i..].iter().cloned());
    only_b.extend(y[j..].iter().cloned());
    (only_a, only_b)
}

/// The reference evaluator's view, for triage only: which of two disagreeing
/// configurations (if any) agrees with standard SQL.
pub fn third_opinion(tables: &[Table], q: &Query, answers: &[(&str, &Rows)], tol: f64) -> String {
    let work: u64 = tables.iter().map(|t| t.rows.len() as u64).product();
    if work > 3_000_000 {
        return "refsql: not evaluated (too large)".into();
    }
    let mut db = Db::new(tables);
    db.budget = 4_000_000;
    match db.run(q) {
        Err(e) => format!("refsql: n/a ({})", e),
        Ok(r) => {
            let mut s = format!("refsql ({} rows):", r.rows.len());
            for (name, rows) in answers {
                let ok = crate::refsql::compare_answer(&r, rows, tol.max(1e-9)).is_ok();
                s.push_str(&format!(" {}={}", name, if ok { "agrees" } else { "DISAGREES" }));
            }
            s.push_str(&format!("\n reference rows:\n{}", fmt_rows(&r.rows, 12)));
            s
        }
    }
}

pub fn fmt_specs(ts: &[TableSpec]) -> String {
    ts.iter()
        .map(|t| {
            format!(
                "  {}[{} rows, seed {}]({})",
                t.name,
                t.n_rows,
                t.seed,
                t.cols
                    .iter()
                    .map(|c| format!("{} {:?} dom={} null%={} base={} stride={}", c.name, c.ty, c.domain, c.null_pct, c.base, c.stride))
                    .collect::<Vec<_>>()
                    .join(", ")
            )
        })
        .collect::<Vec<_>>()
        .join("\n")
}

pub fn short_err(e: &str) -> String {
    let e = e.lines().next().unwrap_or("");
    let s: String = e.chars().filter(|c| !c.is_ascii_digit()).take(70).collect();
    s
}
