//! C25 — not implemented yet.
use super::Property;

pub fn property() -> Property {
    Property { id: "C25", level: "exploration", assumptions: &[], checks: vec![] }
}
